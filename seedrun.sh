#!/bin/bash
# seedrun.sh <Cxx> [round] — confirm and test both seeded changes of a round, print one line each
p=$1; r=${2:-1}
cd /verif
for n in 1 2; do
  if [ "$r" = "2" ]; then args="--out /tmp/seed/$p-out2 --as $((n+2))"; elif [ "$r" = "3" ]; then args="--out /tmp/seed/$p-out3 --as $((n+4))"; elif [ "$r" = "4" ]; then args="--out /tmp/seed/$p-out4 --as $((n+6))"; elif [ "$r" = "5" ]; then args="--out /tmp/seed/$p-out5 --as $((n+8))"; elif [ "$r" = "6" ]; then args="--out /tmp/seed/$p-out6 --as $((n+10))"; elif [ "$r" = "7" ]; then args="--out /tmp/seed/$p-out7 --as $((n+12))"; elif [ "$r" = "8" ]; then args="--out /tmp/seed/$p-out8 --as $((n+14))"; elif [ "$r" = "9" ]; then args="--out /tmp/seed/$p-out9 --as $((n+16)) --scratch ${SCRATCH:-/tmp/sw9/w0}"; elif [ "$r" = "10" ]; then args="--out /tmp/seed/$p-out10 --as $((n+18)) --scratch ${SCRATCH:-/tmp/sw9/w0}"; elif [ "$r" = "11" ]; then args="--out /tmp/seed/$p-out11 --as $((n+20)) --scratch ${SCRATCH:-/tmp/sw9/w0}"; else args=""; fi
  ./seedtest.py $p $n $args 2>&1 | python3 -c "
import sys,json
t=sys.stdin.read()
try:
  d=json.loads(t[t.index('{'):])
  print(d['property'],d['n'],'round','$r','confirmed',d.get('confirmed'),'detected',d.get('detected'),{k:(v['exit'],v['signatures'][:3]) for k,v in d.get('detection',{}).items()}, d.get('confirmation') if not d.get('confirmed') else '')
  print('   summary:',(d.get('summary') or '')[:300])
except Exception as e: print('ERR',t[-1200:])
"
done
