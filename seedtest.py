#!/usr/bin/env python3
"""Confirm a seeded change and run the checks against it.

usage: seedtest.py <Cxx> <N> [--checks C01,C02] [--tier quick] [--skip-confirm]

Input  : /tmp/seed/<Cxx>-out/patchN.diff, demoN.rs (or demoN/), metaN.json  (from a sub-agent)
Scratch: /tmp/seed/<Cxx> (git worktree of /repo; created if missing)
Output : /verif/seeded/<Cxx>-<N>/{patch.diff, demo.rs, meta.json}   (only if confirmed)

Never commits to /repo: the patch is applied with `git apply`, the checks run, and
`git checkout -- .` undoes it straight afterwards.
"""
import json
import os
import shutil
import subprocess
import sys
import time

ENV = dict(os.environ, RUST_BACKTRACE="0", CARGO_NET_OFFLINE="true")


def sh(cmd, cwd=None, timeout=3600):
    p = subprocess.run(cmd, shell=True, cwd=cwd, env=ENV, stdout=subprocess.PIPE, stderr=subprocess.STDOUT, text=True, timeout=timeout)
    return p.returncode, p.stdout


def scratch_detect(w, pid, patch):
    import re
    os.makedirs(w, exist_ok=True)
    if not os.path.exists(w + "/wt"):
        rc, o = sh("git -C /repo worktree add --detach %s/wt HEAD" % w)
        assert rc == 0, o
    sh("rm -rf %s/harness && mkdir -p %s/harness && rsync -a --exclude target /verif/harness/ %s/harness/" % (w, w, w))
    ct = open(w + "/harness/Cargo.toml").read()
    ct = re.sub(r'path = "[^"]*?/lber"', 'path = "%s/wt/lber"' % w, ct)
    ct = re.sub(r'ldap3 = \{ path = "[^"]*"', 'ldap3 = { path = "%s/wt"' % w, ct)
    open(w + "/harness/Cargo.toml", "w").write(ct)
    wt = w + "/wt"
    sh("git reset -q --hard", cwd=wt)
    head = sh("git -C /repo rev-parse HEAD")[1].strip()
    sh("git checkout -q --detach %s" % head, cwd=wt)
    rc, o = sh("git apply %s" % patch, cwd=wt)
    if rc != 0:
        rc, o = sh("git apply --3way %s" % patch, cwd=wt)
        if rc == 0 and "conflict" in o.lower():
            rc = 1
    if rc != 0:
        return {pid: {"exit": 2, "signatures": [], "wall_s": 0, "tail": "does not apply: " + o[-300:]}}
    t0 = time.time()
    rc, o = sh("RUSTFLAGS='--cfg ldap3_verif --cfg tokio_unstable' CARGO_TARGET_DIR=%s/target cargo build --offline --profile verif --bin vcheck" % w, cwd=w + "/harness")
    if rc != 0:
        sh("git reset -q --hard", cwd=wt)
        return {pid: {"exit": 2, "signatures": [], "wall_s": 0, "tail": "harness does not build: " + o[-400:]}}
    outp = w + "/out.json"
    if os.path.exists(outp):
        os.remove(outp)
    rc, o = sh("SSL_CERT_FILE=/verif/certs/ca.pem VH_CERTS=/verif/certs timeout 2400 %s/target/verif/vcheck %s --tier quick --seed 1 --out %s" % (w, pid, outp), cwd=w)
    sh("git reset -q --hard", cwd=wt)
    sigs, herr = [], []
    try:
        doc = json.load(open(outp))
        for l in doc["lanes"]:
            sigs += [v["signature"] for v in l["violations"]]
            herr += l.get("harness_errors", [])
    except Exception:
        return {pid: {"exit": 2, "signatures": [], "wall_s": round(time.time() - t0, 1), "tail": "no report (exit %s): %s" % (rc, o[-300:])}}
    ex = 1 if sigs else (2 if herr else 0)
    return {pid: {"exit": ex, "signatures": sigs[:8], "wall_s": round(time.time() - t0, 1), "tail": "; ".join(str(h)[:150] for h in herr[:2])}}


def store(result, pid, name, patch, demo_src, out, n, meta, ran, det, tier):
    dst = "/verif/seeded/%s-%s" % (pid, name)
    os.makedirs(dst, exist_ok=True)
    shutil.copy(patch, os.path.join(dst, "patch.diff"))
    if os.path.isfile(demo_src):
        shutil.copy(demo_src, os.path.join(dst, "demo.rs"))
    elif os.path.isdir(os.path.join(out, "demo%s" % n)):
        shutil.copytree(os.path.join(out, "demo%s" % n), os.path.join(dst, "demo"), dirs_exist_ok=True)
    old = {}
    if os.path.exists(os.path.join(dst, "meta.json")):
        old = json.load(open(os.path.join(dst, "meta.json")))
    if not ran and old.get("confirmed_by_me"):
        ran = old["confirmed_by_me"]
    meta_out = {
        "property": pid,
        "summary": meta.get("summary"),
        "needs_to_manifest": meta.get("needs"),
        "files": meta.get("files"),
        "demo": "copy demo.rs to tests/ of a /repo worktree with patch.diff applied; `cargo test --offline --test <name>` fails with the patch and passes without",
        "agent_verified": meta.get("verified"),
        "confirmed_by_me": ran,
        "checks_run": {c: {"tier": tier, "exit": d["exit"], "signatures": d["signatures"], "wall_s": d["wall_s"]} for c, d in det.items()},
        "detected": result["detected"],
    }
    for k in ("sweep", "ported", "retired", "confirmation_note"):
        if k in old:
            meta_out[k] = old[k]
    json.dump(meta_out, open(os.path.join(dst, "meta.json"), "w"), indent=1)


def main():
    pid, n = sys.argv[1], sys.argv[2]
    checks = [pid]
    tier = "quick"
    skip_confirm = False
    out_override = None
    store_as = None
    scratch = None
    a = sys.argv[3:]
    i = 0
    while i < len(a):
        if a[i] == "--checks":
            i += 1
            checks = a[i].split(",")
        elif a[i] == "--tier":
            i += 1
            tier = a[i]
        elif a[i] == "--skip-confirm":
            skip_confirm = True
        elif a[i] == "--out":
            i += 1
            out_override = a[i]
        elif a[i] == "--as":
            i += 1
            store_as = a[i]
        elif a[i] == "--scratch":
            # detection against a scratch worktree of /repo's HEAD and a copy of harness/ (leaves /repo alone)
            i += 1
            scratch = a[i]
        i += 1
    out = out_override or "/tmp/seed/%s-out" % pid
    wt = "/tmp/seed/%s" % pid
    patch = os.path.join(out, "patch%s.diff" % n)
    meta = json.load(open(os.path.join(out, "meta%s.json" % n)))
    demo_src = os.path.join(out, "demo%s.rs" % n)
    result = {"property": pid, "n": n, "summary": meta.get("summary"), "needs": meta.get("needs")}
    ran = []

    if not skip_confirm:
        if not os.path.isdir(wt):
            sh("git -C /repo worktree add -q --detach %s HEAD" % wt)
        sh("git checkout -q -- . && git clean -fdq tests examples", cwd=wt)
        rc, o = sh("git apply --check %s" % patch, cwd=wt)
        if rc != 0:
            print("patch does not apply to HEAD:", o[-500:])
            result["confirmed"] = False
            print(json.dumps(result, indent=1))
            return 3
        sh("git apply %s" % patch, cwd=wt)
        rc_t, o = sh("cargo test --workspace --offline 2>&1 | grep -E '^test result|FAILED|error' | head -20", cwd=wt)
        tests_pass = "FAILED" not in o and "error" not in o and "test result: ok" in o
        ran.append("with patch: cargo test --workspace --offline -> %s" % ("pass" if tests_pass else "FAIL: " + o[-300:]))
        os.makedirs(os.path.join(wt, "tests"), exist_ok=True)
        demo_name = "seeddemo_%s_%s" % (pid.lower(), store_as or n)
        if os.path.isfile(demo_src):
            shutil.copy(demo_src, os.path.join(wt, "tests", demo_name + ".rs"))
            demo_cmd = "cargo test --offline --test %s 2>&1 | tail -30" % demo_name
        else:
            demo_cmd = meta.get("demo_cmd")
        is_script = not os.path.isfile(demo_src)
        rc1, o1 = sh(demo_cmd + "; exit ${PIPESTATUS[0]}", cwd=wt)
        demo_fails_with = ("test result: FAILED" in o1) or ("panicked" in o1 and "test result: ok" not in o1) or rc1 != 0
        ran.append("with patch: %s -> %s" % (demo_cmd, "fails" if demo_fails_with else "PASSES (unexpected)"))
        sh("git checkout -q -- .", cwd=wt)
        rc2, o2 = sh(demo_cmd + "; exit ${PIPESTATUS[0]}", cwd=wt)
        demo_passes_without = ("test result: ok" in o2 and "FAILED" not in o2) or (is_script and rc2 == 0 and "FAILED" not in o2)
        ran.append("clean HEAD: %s -> %s" % (demo_cmd, "passes" if demo_passes_without else "FAILS (unexpected): " + o2[-300:]))
        sh("git clean -fdq tests examples", cwd=wt)
        result["confirmed"] = bool(tests_pass and demo_fails_with and demo_passes_without)
        result["confirmation"] = ran
        if not result["confirmed"]:
            print(json.dumps(result, indent=1))
            return 3

    if scratch:
        det = scratch_detect(scratch, pid, patch)
        result["detection"] = det
        result["detected"] = any(d["exit"] == 1 for d in det.values())
        store(result, pid, store_as or n, patch, demo_src, out, n, meta, ran, det, tier + " (scratch worktree of HEAD + copy of harness/)")
        print(json.dumps(result, indent=1))
        return 0 if result["detected"] else 1

    # run the checks against the change
    rc, o = sh("git -C /repo status --porcelain")
    if o.strip():
        print("refusing: /repo working tree is not clean:\n" + o)
        return 2
    det = {}
    # evidence files describe the unchanged tree: put them back after the run against the patch
    saved = {}
    for c in checks:
        ef = "/verif/evidence/%s.json" % c
        if os.path.exists(ef):
            saved[ef] = open(ef).read()
    try:
        rc, o = sh("git -C /repo apply %s" % patch)
        if rc != 0:
            # /repo has moved on (fix: commits) since the patch was written: try a 3-way merge
            rc, o = sh("git -C /repo apply --3way %s" % patch)
            if rc != 0 or "conflict" in o.lower():
                sh("git -C /repo reset -q && git -C /repo checkout -- .")
                print("cannot apply to /repo:", o)
                return 2
            ran.append("patch applied to current /repo with git apply --3way (tree has moved on since it was written)")
        for c in checks:
            t0 = time.time()
            rc, o = sh("./check %s --tier %s" % (c, tier), cwd="/verif", timeout=7200)
            sigs = [l.strip()[len("signature: "):] for l in o.splitlines() if l.strip().startswith("signature: ")]
            det[c] = {"exit": rc, "signatures": sigs[:8], "wall_s": round(time.time() - t0, 1), "tail": o[-400:] if rc not in (0, 1) else ""}
    finally:
        sh("git -C /repo reset -q && git -C /repo checkout -- .")
        for ef, text in saved.items():
            open(ef, "w").write(text)
    result["detection"] = det
    result["detected"] = any(d["exit"] == 1 for d in det.values())
    # restore evidence of the unchanged tree is the caller's job (re-run ./check)
    if result.get("confirmed", True):
        dst = "/verif/seeded/%s-%s" % (pid, store_as or n)
        os.makedirs(dst, exist_ok=True)
        shutil.copy(patch, os.path.join(dst, "patch.diff"))
        if os.path.isfile(demo_src):
            shutil.copy(demo_src, os.path.join(dst, "demo.rs"))
        elif os.path.isdir(os.path.join(out, "demo%s" % n)):
            shutil.copytree(os.path.join(out, "demo%s" % n), os.path.join(dst, "demo"), dirs_exist_ok=True)
        old = {}
        if os.path.exists(os.path.join(dst, "meta.json")):
            old = json.load(open(os.path.join(dst, "meta.json")))
        if not ran and old.get("confirmed_by_me"):
            ran = old["confirmed_by_me"]
        meta_out = {
            "property": pid,
            "summary": meta.get("summary"),
            "needs_to_manifest": meta.get("needs"),
            "files": meta.get("files"),
            "demo": "copy demo.rs to tests/ of a /repo worktree with patch.diff applied; `cargo test --offline --test <name>` fails with the patch and passes without",
            "agent_verified": meta.get("verified"),
            "confirmed_by_me": ran,
            "checks_run": {c: {"tier": tier, "exit": d["exit"], "signatures": d["signatures"], "wall_s": d["wall_s"]} for c, d in det.items()},
            "detected": result["detected"],
        }
        json.dump(meta_out, open(os.path.join(dst, "meta.json"), "w"), indent=1)
    print(json.dumps(result, indent=1))
    return 0 if result["detected"] else 1


if __name__ == "__main__":
    sys.exit(main())
