#!/bin/bash
# Mint the test PKI for the C17 check with the openssl CLI (no network). Idempotent.
set -e
cd "$(dirname "$0")"
[ -f ca.pem ] && [ -f good.pem ] && [ -f wrongname.pem ] && [ -f untrusted.pem ] && [ -f selfsigned.pem ] && [ -f iponly.pem ] && exit 0
D=3650
q() { "$@" >/dev/null 2>&1; }
# trusted CA
[ -f ca.pem ] || q openssl req -x509 -newkey rsa:2048 -nodes -keyout ca.key -out ca.pem -days $D -subj "/CN=vh test CA" -addext "basicConstraints=critical,CA:TRUE" -addext "keyUsage=critical,keyCertSign,cRLSign"
# a second CA nobody trusts
[ -f ca2.pem ] || q openssl req -x509 -newkey rsa:2048 -nodes -keyout ca2.key -out ca2.pem -days $D -subj "/CN=vh untrusted CA" -addext "basicConstraints=critical,CA:TRUE" -addext "keyUsage=critical,keyCertSign,cRLSign"
leaf() { # name subject san cakey capem
  [ -f $1.pem ] && return 0
  q openssl req -newkey rsa:2048 -nodes -keyout $1.key -out $1.csr -subj "$2"
  printf "subjectAltName=$3\nbasicConstraints=CA:FALSE\nkeyUsage=digitalSignature,keyEncipherment\nextendedKeyUsage=serverAuth\n" > $1.ext
  q openssl x509 -req -in $1.csr -CA $5 -CAkey $4 -CAcreateserial -out $1.pem -days $D -extfile $1.ext
  q openssl pkcs8 -topk8 -nocrypt -in $1.key -out $1.p8
  rm -f $1.csr $1.ext
}
leaf good "/CN=localhost" "DNS:localhost,IP:127.0.0.1" ca.key ca.pem
leaf wrongname "/CN=other.example.org" "DNS:other.example.org,IP:10.9.8.7" ca.key ca.pem
leaf untrusted "/CN=localhost" "DNS:localhost,IP:127.0.0.1" ca2.key ca2.pem
# trusted, but valid for the loopback IP address only (not for the name localhost)
leaf iponly "/CN=ip-only" "IP:127.0.0.1" ca.key ca.pem
[ -f selfsigned.pem ] || q openssl req -x509 -newkey rsa:2048 -nodes -keyout selfsigned.key -out selfsigned.pem -days $D -subj "/CN=localhost" -addext "subjectAltName=DNS:localhost,IP:127.0.0.1"
q openssl pkcs8 -topk8 -nocrypt -in selfsigned.key -out selfsigned.p8
rm -f *.srl
echo "certs generated"
