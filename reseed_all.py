#!/usr/bin/env python3
"""Final sweep: re-apply every kept seeded change to the CURRENT /repo, run the quick check of
its property, undo it, and record the outcome in the change's meta.json ("sweep").

usage: reseed_all.py [Cxx ...]     (default: all directories under /verif/seeded)
"""
import json
import os
import subprocess
import sys
import time

ENV = dict(os.environ, RUST_BACKTRACE="0", CARGO_NET_OFFLINE="true")


def sh(cmd, cwd=None, timeout=7200):
    p = subprocess.run(cmd, shell=True, cwd=cwd, env=ENV, stdout=subprocess.PIPE, stderr=subprocess.STDOUT, text=True, timeout=timeout)
    return p.returncode, p.stdout


def main():
    only = set(sys.argv[1:])
    rc, o = sh("git -C /repo status --porcelain")
    if o.strip():
        print("refusing: /repo working tree is not clean")
        return 2
    head = sh("git -C /repo rev-parse --short HEAD")[1].strip()
    rows = []
    for d in sorted(os.listdir("/verif/seeded")):
        pid = d.split("-")[0]
        if only and pid not in only and d not in only:
            continue
        path = os.path.join("/verif/seeded", d)
        patch = os.path.join(path, "patch.diff")
        if not os.path.exists(patch):
            continue
        ef = "/verif/evidence/%s.json" % pid
        saved = open(ef).read() if os.path.exists(ef) else None
        how = "git apply"
        rc, o = sh("git -C /repo apply %s" % patch)
        if rc != 0:
            how = "git apply --3way"
            rc, o = sh("git -C /repo apply --3way %s" % patch)
            if rc != 0 or "conflict" in o.lower():
                sh("git -C /repo reset -q && git -C /repo checkout -- .")
                rows.append((d, "DOES-NOT-APPLY", "", 0))
                print(d, "DOES-NOT-APPLY")
                continue
        t0 = time.time()
        try:
            rc, o = sh("./check %s --tier quick" % pid, cwd="/verif")
        finally:
            sh("git -C /repo reset -q && git -C /repo checkout -- .")
            if saved is not None:
                open(ef, "w").write(saved)
        sigs = [l.strip()[len("signature: "):] for l in o.splitlines() if l.strip().startswith("signature: ")]
        verdict = {0: "MISSED", 1: "DETECTED"}.get(rc, "CHECK-BROKEN(exit %d)" % rc)
        rows.append((d, verdict, ";".join(sigs[:3]), round(time.time() - t0, 1)))
        print(d, verdict, sigs[:3], round(time.time() - t0, 1), flush=True)
        mf = os.path.join(path, "meta.json")
        meta = json.load(open(mf)) if os.path.exists(mf) else {}
        meta["sweep"] = {"repo_head": head, "applied_with": how, "check": "./check %s --tier quick" % pid, "exit": rc, "verdict": verdict, "signatures": sigs[:6]}
        json.dump(meta, open(mf, "w"), indent=1)
    print("\nsummary: %d changes, %d detected" % (len(rows), sum(1 for r in rows if r[1] == "DETECTED")))
    return 0


if __name__ == "__main__":
    sys.exit(main())
