#!/bin/bash
# Build the harness once, offline, from files on disk (cargo registry is pre-populated).
set -e
cd "$(dirname "$0")"
export RUST_BACKTRACE=0 CARGO_NET_OFFLINE=true
mkdir -p target evidence/.tmp replays
./certs/gen.sh
cp -n /repo/Cargo.lock harness/Cargo.lock 2>/dev/null || true
(cd harness && RUSTFLAGS="--cfg ldap3_verif --cfg tokio_unstable" cargo build --offline --profile verif --bin vcheck 2>&1 | tail -3)
test -x target/verif/vcheck
echo "setup ok"
