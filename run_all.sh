#!/bin/bash
# run_all.sh <tier> <seed> [Cxx ...] — run the registered checks one after another, one summary line each
tier=${1:-quick}; seed=${2:-1}; shift 2 2>/dev/null
props=${@:-$(seq -f 'C%02g' 1 20)}
cd /verif
for p in $props; do
  t0=$(date +%s)
  VERIF_SEED=$seed ./check $p --tier $tier > /tmp/run_all.$p.$tier.$seed.log 2>&1
  rc=$?
  echo "$p tier=$tier seed=$seed exit=$rc secs=$(( $(date +%s) - t0 )) $(grep -c '^VIOLATION' /tmp/run_all.$p.$tier.$seed.log) violations $(grep -m1 -E '^(VIOLATION|KNOWN-FINDING)' /tmp/run_all.$p.$tier.$seed.log)"
done
