"""Per-property metadata for ./check and gen_manifest.py. One entry per claimed property."""

COMMON_ASSUME = [
    "the harness' own reference implementations (BER codec, RFC 4511/4515/4514/4516 models) are correct; they are cross-checked against each other on every run",
    "checks are built from /repo's working tree with --cfg ldap3_verif; the hooks only add accessors and a transport variant and do not change control flow",
]

META = {}
EXTRA_LANES = {}
ALL = ["C%02d" % i for i in range(1, 21)]


def prop(pid, **kw):
    kw.setdefault("level", "exploration")
    kw.setdefault("assumptions", COMMON_ASSUME)
    META[pid] = kw


def release_lane(lanes_arg=None):
    """Re-run the pure lanes with the stock release profile (no debug assertions / overflow checks)."""
    def run(c):
        import os
        binpath = c["build"]("release")
        out = os.path.join(c["evid"], ".tmp", "%s.release.json" % c["pid"])
        cmd = [binpath, c["pid"], "--tier", c["tier"], "--seed", str(c["seed"] + 1000), "--out", out, "--scale", "0.5"]
        doc, note = c["run_lane_cmd"](cmd, out, 3600)
        if doc:
            for l in doc["lanes"]:
                l["lane"] = "release-profile/" + l["lane"]
        return doc, note
    return {"name": "release-profile", "tiers": ("thorough",), "run": run}


def miri_lane(scale="1"):
    """Same binary under Miri (UB + data-race interpreter), tiny sizes, several scheduler seeds."""
    def run(c):
        import os, subprocess, json
        out = os.path.join(c["evid"], ".tmp", "%s.miri.json" % c["pid"])
        if os.path.exists(out):
            os.remove(out)
        env = dict(c["env"])
        env["RUSTFLAGS"] = "--cfg ldap3_verif --cfg tokio_unstable"
        env["MIRIFLAGS"] = "-Zmiri-disable-isolation -Zmiri-ignore-leaks"
        env["CARGO_TARGET_DIR"] = os.path.join(c["target"], "miri")
        cmd = ["cargo", "+nightly", "miri", "run", "--offline", "--no-default-features", "--bin", "vcheck", "--",
               c["pid"], "--tier", "quick", "--seed", str(c["seed"]), "--tiny", "--out", out]
        try:
            p = subprocess.run(cmd, cwd=c["harness"], env=env, stdout=subprocess.PIPE, stderr=subprocess.STDOUT,
                               text=True, timeout=3000)
        except subprocess.TimeoutExpired:
            return None, "miri wall-clock watchdog"
        text = p.stdout
        ub = "Undefined Behavior" in text or "data race" in text.lower()
        if not os.path.exists(out):
            if ub:
                # a Miri report is a finding about the executed code
                lane = {"lane": "miri", "evaluations": 1, "distinct_nontrivial": 0, "samples": [], "counters": {},
                        "violations": [{"signature": "miri:undefined-behaviour", "detail": text[-3000:], "replay": {"lane": "miri"}, "count": 1}],
                        "inconclusive": 0, "inconclusive_notes": [], "harness_errors": [], "exhaustive": []}
                return {"lanes": [lane]}, None
            return None, "miri lane produced no report: " + text[-800:]
        doc = json.load(open(out))
        for l in doc["lanes"]:
            l["lane"] = "miri/" + l["lane"]
            l.setdefault("counters", {})["miri_ub_reports"] = 1 if ub else 0
            if ub:
                l["violations"].append({"signature": "miri:undefined-behaviour", "detail": text[-3000:], "replay": {"lane": "miri"}, "count": 1})
        return doc, None
    return {"name": "miri", "tiers": ("thorough",), "run": run}


prop("C07",
     title="BER encoding and parsing are mutual inverses and encoding is canonical",
     rule="random tag trees (4 classes x tags 0..30 x P/C, depth<=7, payload lengths biased to the 1/2/3/4-octet length boundaries, incl. 64K and 16M payloads) encoded by lber and compared byte-for-byte with the harness' minimal definite-length encoder, then parsed back with a random trailer; all integers in -70000..=70000, every +-2^k+-{0,1,2}, and random 64-bit values of every bit width compared with the reference shortest two's-complement content; reference encodings with random non-minimal length octets parsed by lber and compared with the reference decoder. distinct = distinct encoded byte strings / integer values",
     design="3/C07", technique="differential monitor: lber vs independent BER reference over generated + exhaustive inputs; Miri lane",
     claim="held on every generated and enumerated input of this run; exhaustive over identifier octets, length-form boundaries and the integer band -70000..70000; no claim beyond the explored inputs",
     note="pure functions; trusted base is the harness BER model (two independent directions cross-check each other)")
EXTRA_LANES["C07"] = [release_lane(), miri_lane()]


# ---- properties not (yet) claimed ----
def _na():
    out = []
    for pid in ALL:
        if pid not in META:
            out.append({"property_id": pid, "reason": "check not built yet in this round; nothing is claimed for it"})
    return out


NOT_APPLICABLE = _na()
