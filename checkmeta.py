"""Per-property metadata for ./check and gen_manifest.py. One entry per claimed property."""

COMMON_ASSUME = [
    "the harness' own reference implementations (BER codec, RFC 4511/4515/4514/4516 models) are correct; they are cross-checked against each other on every run",
    "checks are built from /repo's working tree with --cfg ldap3_verif; the hooks only add accessors and a transport variant and do not change control flow",
]

META = {}
EXTRA_LANES = {}
ALL = ["C%02d" % i for i in range(1, 21)]


def prop(pid, **kw):
    kw.setdefault("level", "exploration")
    kw.setdefault("assumptions", COMMON_ASSUME)
    META[pid] = kw


def release_lane(lanes_arg=None):
    """Re-run the pure lanes with the stock release profile (no debug assertions / overflow checks)."""
    def run(c):
        import os
        binpath = c["build"]("release")
        out = os.path.join(c["evid"], ".tmp", "%s.release.json" % c["pid"])
        cmd = [binpath, c["pid"], "--tier", c["tier"], "--seed", str(c["seed"] + 1000), "--out", out, "--scale", "0.5"]
        doc, note = c["run_lane_cmd"](cmd, out, 3600)
        if doc:
            for l in doc["lanes"]:
                l["lane"] = "release-profile/" + l["lane"]
        return doc, note
    return {"name": "release-profile", "tiers": ("thorough",), "run": run}


def features_lane(lane, label, cargo_features):
    """Same lane, harness (and therefore ldap3) rebuilt with another legal feature selection: here the
    TLS backend named directly (`sync,tls-native`) instead of through the default-on alias `tls`.
    A build failure is a harness failure (exit 2), not a verdict."""
    def run(c):
        import os, subprocess
        tdir = os.path.join(c["target"], "features-" + label)
        env = dict(c["env"], CARGO_TARGET_DIR=tdir)
        cmd = ["cargo", "build", "--offline", "--profile", "verif", "--bin", "vcheck", "--no-default-features", "--features", cargo_features]
        p = subprocess.run(cmd, cwd=c["harness"], env=env, stdout=subprocess.PIPE, stderr=subprocess.STDOUT, text=True)
        if p.returncode != 0:
            return None, "build with --no-default-features --features %s failed: %s" % (cargo_features, p.stdout[-600:])
        binpath = os.path.join(tdir, "verif", "vcheck")
        out = os.path.join(c["evid"], ".tmp", "%s.features-%s.json" % (c["pid"], label))
        cmd = [binpath, c["pid"], "--tier", c["tier"], "--seed", str(c["seed"] + 2000), "--lane", lane, "--out", out, "--scale", "0.34"]
        doc, note = c["run_lane_cmd"](cmd, out, 3600)
        if doc:
            for l in doc["lanes"]:
                l["lane"] = "features[%s]/%s" % (cargo_features, l["lane"])
        return doc, note
    return {"name": "features-" + label, "tiers": ("quick", "thorough"), "run": run}


def miri_lane(scale="1"):
    """Same binary under Miri (UB + data-race interpreter), tiny sizes, several scheduler seeds."""
    def run(c):
        import os, subprocess, json
        out = os.path.join(c["evid"], ".tmp", "%s.miri.json" % c["pid"])
        if os.path.exists(out):
            os.remove(out)
        env = dict(c["env"])
        env["RUSTFLAGS"] = "--cfg ldap3_verif --cfg tokio_unstable"
        env["MIRIFLAGS"] = "-Zmiri-disable-isolation -Zmiri-ignore-leaks"
        env["CARGO_TARGET_DIR"] = os.path.join(c["target"], "miri")
        cmd = ["cargo", "+nightly", "miri", "run", "--offline", "--no-default-features", "--bin", "vcheck", "--",
               c["pid"], "--tier", "quick", "--seed", str(c["seed"]), "--tiny", "--out", out]
        try:
            p = subprocess.run(cmd, cwd=c["harness"], env=env, stdout=subprocess.PIPE, stderr=subprocess.STDOUT,
                               text=True, timeout=3000)
        except subprocess.TimeoutExpired:
            return None, "miri wall-clock watchdog"
        text = p.stdout
        ub = "Undefined Behavior" in text or "data race" in text.lower()
        if not os.path.exists(out):
            if ub:
                # a Miri report is a finding about the executed code
                lane = {"lane": "miri", "evaluations": 1, "distinct_nontrivial": 0, "samples": [], "counters": {},
                        "violations": [{"signature": "miri:undefined-behaviour", "detail": text[-3000:], "replay": {"lane": "miri"}, "count": 1}],
                        "inconclusive": 0, "inconclusive_notes": [], "harness_errors": [], "exhaustive": []}
                return {"lanes": [lane]}, None
            return None, "miri lane produced no report: " + text[-800:]
        doc = json.load(open(out))
        for l in doc["lanes"]:
            l["lane"] = "miri/" + l["lane"]
            l.setdefault("counters", {})["miri_ub_reports"] = 1 if ub else 0
            if ub:
                l["violations"].append({"signature": "miri:undefined-behaviour", "detail": text[-3000:], "replay": {"lane": "miri"}, "count": 1})
        return doc, None
    return {"name": "miri", "tiers": ("thorough",), "run": run}


def valgrind_lane():
    """Run the (tiny) lane under valgrind memcheck: the OpenSSL FFI path is the only native code in the
    build and Miri cannot cross it. Only memcheck's own error count is a verdict here; the lane's
    behavioural verdicts under a 25x slowdown are ignored (timeouts would be meaningless)."""
    def run(c):
        import os, re, subprocess
        binpath = os.path.join(c["target"], "verif", "vcheck")
        out = os.path.join(c["evid"], ".tmp", "%s.valgrind.json" % c["pid"])
        log = os.path.join(c["evid"], ".tmp", "%s.valgrind.log" % c["pid"])
        cmd = ["valgrind", "--tool=memcheck", "--leak-check=no", "--error-exitcode=0", "--log-file=" + log,
               binpath, c["pid"], "--tier", "quick", "--seed", str(c["seed"]), "--tiny", "--threads", "2", "--out", out]
        try:
            subprocess.run(cmd, cwd=c["root"], env=c["env"], stdout=subprocess.PIPE, stderr=subprocess.STDOUT, text=True, timeout=3000)
        except subprocess.TimeoutExpired:
            return None, "valgrind wall-clock watchdog"
        if not os.path.exists(log):
            return None, "no valgrind log"
        text = open(log).read()
        m = re.search(r"ERROR SUMMARY: (\d+) errors from (\d+) contexts", text)
        if not m:
            return None, "valgrind log without an error summary: " + text[-400:]
        nerr, nctx = int(m.group(1)), int(m.group(2))
        lane = {"lane": "valgrind-memcheck", "evaluations": 1, "distinct_nontrivial": 0, "samples": [{"lane": "valgrind-memcheck", "error_summary": m.group(0)}],
                "counters": {"memcheck_errors": nerr, "memcheck_contexts": nctx}, "violations": [], "inconclusive": 0, "inconclusive_notes": [],
                "harness_errors": [], "exhaustive": []}
        if nerr > 0:
            first = text[text.find("=="):][:3000]
            lane["violations"].append({"signature": "memcheck:error-in-native-tls-path", "detail": first, "replay": {"lane": "valgrind"}, "count": nerr})
        return {"lanes": [lane]}, None
    return {"name": "valgrind-memcheck", "tiers": ("thorough",), "run": run}


prop("C07",
     title="BER encoding and parsing are mutual inverses and encoding is canonical",
     rule="random tag trees (4 classes x tags 0..30 x P/C, depth<=7, payload lengths biased to the 1/2/3/4-octet length boundaries, incl. 64K and 16M payloads) encoded by lber and compared byte-for-byte with the harness' minimal definite-length encoder, then parsed back with a random trailer; all integers in -70000..=70000, every +-2^k+-{0,1,2}, and random 64-bit values of every bit width compared with the reference shortest two's-complement content; typed_trees lane: random trees built from lber's typed constructors (Sequence, Set, SetOf/SequenceOf, OctetString, Boolean, Null, Integer, Enumerated, ExplicitTag; any class, tag 0..30; members sometimes repeated verbatim) encoded and compared byte-for-byte with the reference encoding of the tree they denote, then parsed back; reference encodings with random non-minimal length octets (long form where short would do, 1-4, 5-16 and 100-120 leading zero octets, i.e. up to X.690's 126 length octets) parsed by lber and compared with the reference decoder. distinct = distinct encoded byte strings / integer values",
     design="3/C07", technique="differential monitor: lber vs independent BER reference over generated + exhaustive inputs; Miri lane",
     claim="held on every generated and enumerated input of this run; exhaustive over identifier octets, length-form boundaries and the integer band -70000..70000; no claim beyond the explored inputs",
     note="pure functions; trusted base is the harness BER model (two independent directions cross-check each other)")
EXTRA_LANES["C07"] = [release_lane(), miri_lane()]


prop("C08",
     title="Filter strings compile to the RFC 4511 filter they denote",
     rule="(generated) random filter ASTs (depth<=5, width<=4, descr/numeric-OID attribute descriptions with options, matching-rule names incl. names extending the keyword 'dn', values over all 256 bytes) rendered with a random legal escaping choice per byte and with/without outer parentheses, compiled by parse_filter, BER-decoded by the harness and compared with the AST; (exhaustive) every string of length<=5 (quick) / <=6 (thorough) over the 16-symbol alphabet ()&|!=*\\:a1;~<dn judged by the decision table: reference accepts => library must accept with the same AST; library accepts => decoded BER printed canonically must equal the input up to escaping and must not fall in a must-reject class; (mutated) random byte strings and 1-2 character mutations of valid strings; (rejection) the property's rejection classes and the RFC 4515 examples as literals. distinct = distinct input strings that the grammar or the library accepts (exhaustive lane) / distinct strings (other lanes)",
     claim="held on every generated, enumerated and mutated string of this run; exhaustive over the stated short-string space; panics are caught per input and are violations",
     design="3/C08", technique="differential monitor against an independent RFC 4515 parser + BER filter decoder; exhaustive short-string enumeration; accepted-means-what-it-says round trip",
     note="trusted base: harness RFC 4515 reference parser/printer and RFC 4511 filter decoder (self-checked against each other on every generated case); a matching rule literally named 'dn' is an ABNF ambiguity and is not judged")

prop("C09",
     title="Escaped text is inert: escaping then parsing returns the original value",
     rule="every string of length<=2 over ASCII 0..127 and every string of length<=4 over 27 symbols (22 filter/DN metacharacters incl. NUL, space, TAB, LF and '#', 3 ordinary, 2 multibyte), plus random Unicode strings biased to leading/trailing space/'#'/backslash; each is ldap_escape'd and embedded as equality, composite, extensible and initial/any/final substring assertion value, inside parentheses and as a bare item without outer parentheses ('a=<v>', 'a>=<v>', 'a:=<v>') (parse_filter + harness BER decoder must return the original bytes and the template's structure), round-tripped through ldap_unescape, and dn_escape'd into 'cn=<v>,ou=x+uid=<v>,dc=y' which a strict RFC 4514 parser written for the harness must read back as the same RDN structure with value v; strings needing no escaping must come back unchanged (Cow::Borrowed). distinct = distinct input strings",
     claim="held on every enumerated and generated string of this run; exhaustive over the two stated short-string spaces",
     design="3/C09", technique="round-trip monitor: library escapers vs library filter parser + independent BER decoder, and vs an independent strict RFC 4514 DN parser",
     note="trusted base: harness RFC 4514 parser and BER decoder; '=' is treated as needing escape in dn_escape because the library documents it so (RFC 4514 permits it raw)")

prop("C15",
     title="SearchEntry::construct keeps every attribute value and classifies it correctly",
     rule="random entries (0-8 distinct attributes, 0-6 values each, values valid UTF-8 (incl. empty, NUL, 4-byte) or invalid UTF-8 (overlong, surrogate, truncated, stray continuation, 5-byte) in any order), BER-encoded by the harness with random length forms, parsed by lber and passed to SearchEntry::construct; attribute descriptions carry real options (;binary, ;lang-en;BINARY, ;x-opt) since classification depends on the values only; plus all 127 valid/invalid orderings of 0..6 values for one attribute; through_connection lane: the same oracle on entries that travelled through search() on the in-memory transport, one in three with a 17-300 KB value. Oracle: DN equal, each attribute in exactly one map, text map iff all values valid UTF-8 with values in order, else binary map holds the same multiset. distinct = distinct encoded entries through_connection lane: entries encoded with random legal length forms, sent in random segmentations (whole / random / byte by byte), one case in four with a wide entry (96-495 values in one attribute or 96-245 attributes), one in three with a value of up to 300 KB. The through_connection search runs under a message ID anywhere in 1..2^31-1 (counter positioned with the ID hook, biased to octet boundaries).",
     claim="held on every generated entry; exhaustive over valid/invalid orderings of up to 6 values",
     design="3/C15", technique="pure-function monitor with a reference classifier over generated search entries",
     note="attribute names are distinct within an entry (as RFC 4511 requires of a server)")

prop("C20",
     title="LDAP URL parameters are extracted as RFC 4516 defines them",
     rule="random component tuples (host present/absent, DN and filter over arbitrary Unicode incl. ? , = % # space / and control characters, attribute lists, each scope word or none, every subset of the recognised extensions with case variants plus unknown ones, critical or not, with/without values, every subset of omitted components, 0-2 trailing bare '?') formatted by a harness RFC 4516 formatter that percent-encodes with a random legal choice per byte; get_url_params(Url::parse(url)) must return exactly the components with the documented defaults; unknown critical extension => error, unknown non-critical => ignored; plus literal error-class URLs (invalid scope word, non-UTF-8 percent sequences in DN/filter/extension value, unknown critical extension) and the RFC 4516 section 4 examples. distinct = distinct URL strings",
     claim="held on every generated URL and literal case of this run",
     design="3/C20", technique="round-trip monitor: harness RFC 4516 formatter vs get_url_params",
     note="DNs equal to '.' or '..' are excluded (the URL standard's dot-segment removal, not the library, would drop them); '/' in a DN is always percent-encoded by the formatter for the same reason; upper-case scope words are counted, not judged")


NETWORLD = "connection-level lanes run the real Ldap/LdapConnAsync over the harness' in-memory transport (hook H1) on a current-thread tokio runtime with a paused clock and a seeded select! RNG; the scripted server decodes requests with the harness' own codec"

prop("C03",
     title="Results returned to the caller are exactly what the server sent",
     rule="per case one in-memory connection and 1-6 operations of every kind (bind, SASL bind, add, compare, delete, modify, modifyDN, extended, search()); the scripted server answers each with a generated response model (result codes incl. boundary and random 31-bit values, random UTF-8 matched DN / diagnostic text carrying a unique token, 0..4 referral URIs, BindResponse SASL creds, ExtendedResponse name/value absent/empty/large, 0..4 response controls over the 7 library-known OIDs and random OIDs with criticality absent/FALSE/TRUE(0xFF)/TRUE(other non-zero) and value absent/empty/large) in which every TLV is encoded with an independently chosen legal definite length form, delivered whole, randomly chunked or byte-by-byte; the value returned by the API is compared field by field with the model. paged_results lane: searches through the PagedResults adapter (alone / behind EntriesOnly, 1-3 pages) whose final SearchResultDone carries 0-8 other response controls with the paging control at a random position: the adapter removes only its own control, the rest reaches the caller in the server's order with the result fields and every entry (and its controls) unchanged. helpers lane: success/non_error/equal for every rc 0..=130 plus random 31-bit codes against the documented table. distinct = distinct response-model sequences starttls_results lane (real loopback TCP): the server answers the StartTLS request of set_starttls(true) with a non-success result (14 codes incl. 10/referral with a referral list, matched DN, UTF-8 text, with and without the response name, optionally split in two writes); with_settings must fail with LdapError::LdapResult carrying exactly those fields.",
     claim="held on every generated response of this run (all eight response types reached; counts per operation in the evidence)",
     design="3/C03", technique="scripted-server differential monitor: returned structs vs the response model the server encoded, over random legal BER length forms and chunkings",
     note=NETWORLD)


prop("C02",
     title="Each request on the wire is exactly the RFC 4511 PDU the caller asked for",
     rule="requests lane: per case one in-memory connection and 1-9 calls over all eleven operations (simple bind, SASL EXTERNAL, search with generated filter ASTs/attribute lists/every scope, deref, typesOnly and limit values, add, compare, delete, modify with every Mod variant, modifyDN with/without newSuperior, extended with/without value, abandon of arbitrary positive IDs, unbind) with arbitrary UTF-8 DNs, binary values, empty and 300-1000-element lists, values up to 100 KB and 0-5 request controls (known and random OIDs, criticality, value present/absent); the bytes the scripted server reads are decoded by the harness' strict RFC 4511 decoder (one definite-length LDAPMessage, shortest-form INTEGERs, BOOLEAN 00/FF, DEFAULT criticality not encoded, nothing trailing) and compared field by field with a request model built from the arguments (SET OF as multisets), the message ID with last_id() and the ID table. composed_requests lane (requests the library composes itself): every page request of a PagedResults search (alone / behind EntriesOnly, 1-12 entries in pages of 1-5) must be the caller's search again - same base, scope, deref/size/time/typesOnly options, filter, attributes and caller controls - plus exactly one paging control with the requested size and the cookie last returned; extended operations built from the typed structs (PasswordModify with all 8 present/absent field combinations, WhoAmI, StartTxn) and controls built from typed structs (ProxyAuth, ManageDsaIT +/- critical, PreRead/PostRead with 0-13 attributes, RelaxRules, TxnSpec) are sent through the real connection and compared with RFC-derived reference encodings. cloned_handles lane: controls / a timeout / search options are set on a handle as separate statements, the handle is cloned, an operation runs on the clone (must carry none of them and must not inherit the timeout) and then one on the original (must carry exactly what was set). The composed lane also covers SyncRequest (mode x cookie absent/empty/present x reloadHint, +/- critical) and EndTxn. modifiers lane: random histories of with_controls / with_timeout / with_search_options followed by normal operations or locally failing ones (add/modify with an empty value set, invalid filter, paging-control clash) with scripted reply delays; every operation must show exactly its own modifiers, time out iff its own timeout is shorter than the reply delay, and locally failed operations must not reach the wire. distinct = distinct wire transcripts / distinct step sequences In the modifiers lane half of the delayed Search answers arrive in two parts (one entry at once, the result after the delay), so that a timeout set for a Search has to govern every wait of that Search, not only the first. Half of the requests-lane cases start with the ID counter somewhere else in 1..2^31-1 (in particular just below the octet boundaries of the INTEGER encoding), size/time limits and abandon IDs are drawn from those boundaries too, and the SearchOptions setters are called in a value-derived order.",
     claim="held on every generated call sequence of this run (per-operation counts in the evidence); all request types reached",
     design="3/C02", technique="wire-boundary monitor: independent strict RFC 4511 request decoder vs request model built from call arguments; modifier-history oracle on a paused clock",
     note=NETWORLD)


prop("C01",
     title="Responses are routed to the operation whose message ID they carry",
     rule="per case one in-memory connection, 1-6 cloned handles each running 1-5 operations (all single-result kinds, search(), direct streaming searches read to the end) as concurrent tasks; the multiplexing server collects outstanding requests and answers them in a seeded random order, item by item, interleaving entries/references/intermediates of different searches with single results, every TLV in a random legal length form, bursts re-chunked whole / randomly / byte-by-byte / in halves with injected spurious Pending reads, and injects responses addressed to nobody (ID 0 incl. the Active Directory notice form, IDs of completed operations, unknown IDs). Every response element carries a unique token (wire ID, sequence); the value returned by each call must equal exactly the plan the server executed for the wire ID of that call's own request (joined through the request token), items in server order. hostile_ids lane: additionally responses whose INTEGER ID is outside 0..2^31-1 and aliases an outstanding ID after 32-bit truncation (must reach nobody; ending the connection with a decoding error is accepted). abandoned lane: streams and single operations abandoned in flight from a cloned handle while the server keeps sending under the abandoned ID. In a quarter of the cases a pilot stream holds an ID while the ID counter is positioned just below 2^31-1 so that allocation wraps during the run and IDs of completed operations are re-allocated (nobody-responses then use IDs from a band never allocated). routing_threads lane: the routing workload on multi-thread runtimes with 2-4 real OS worker threads and real time (true parallelism between handles, driver and server; a wall-clock expiry there is inconclusive). nested_searches lane: a user-defined adapter starts a nested Search on the same connection, configured with adapter_chain_tail(), while the outer Search (behind EntriesOnly) has already collected referrals; entries and folded-in referral URIs of each search must be exactly what the server sent under that search's own ID. Miri lane (thorough): all lanes at tiny size under the UB/data-race interpreter. non-trivial = more than one handle or interleaved operations; distinct = distinct (server send order, case) fingerprints; evidence also counts distinct driver select!-branch sequences observed through the H3 gauge stale_requests lane: while the driver is stuck writing one request (transport back-pressure), 1-3 further requests (streams, search() calls, single operations) are queued behind it and given up by their callers (with_timeout); once the transport flows again their IDs are handed out anew (counter positioned with the ID hook, also at the wrap-around point) to single-result operations, each of which must get the response the server sends under that ID. starttls_strays lane (real loopback TCP): while set_starttls(true) negotiates in the driver's single-operation mode the server sends 0-3 messages addressed to nobody (unsolicited notification, single-operation response or search entry for unknown IDs) before refusing StartTLS; the caller must get exactly the refusal sent under the StartTLS request's ID. In the routing lanes a quarter of the next() calls of direct streams are first polled once and dropped when nothing is queued (what a select! whose other branch wins does), then repeated.",
     claim="held on every generated schedule of this run; the evidence lists routed responses, nobody-responses sent, distinct server orders and distinct driver branch sequences actually observed",
     design="3/C01", technique="history checker joining client-boundary return values with the scripted server's wire log through unique request/response tokens, under seeded response orders, chunkings and select! resolutions",
     note=NETWORLD)


prop("C06",
     title="Message framing does not depend on how the byte stream is segmented",
     rule="decoder lane (hook H4, the real decode function): for generated response messages (7-byte minimal IntermediateResponse up to 300 KB entries, minimal and random non-minimal length forms, with/without controls) every proper prefix (all of them up to 3000 bytes; header region, stride and tail beyond) must return 'need more' and leave the buffer byte-identical, and message+trailer must return exactly the message and leave exactly the trailer. connection lanes: a streaming search's item sequence (1-30 messages incl. messages larger than Framed's 8 KiB buffer) is delivered over the in-memory transport under partitions: single read, byte-by-byte, random cuts, fixed chunk sizes around 8192, every single split point (exhaustive, sequences <=700 bytes) and every pair of split points (exhaustive, <=64 bytes); after each chunk a quiescence barrier (paused clock) compares the number of items the client holds with the number of messages completely written: more = surfaced before its last byte, fewer = complete message withheld; the final item sequence and result must be identical under every partition; the sequences also contain messages addressed to nobody (ID 0 notices, unknown IDs) which must be skipped without disturbing the framing of what follows. a third of the partition cases run on a busy connection: a second handle keeps issuing operations whose replies are interleaved between the stream's messages, so that the driver's other ready events race the incoming frames. bursts lane (also: the same burst followed at once by the end of the connection with a reader that starts only afterwards; one message of 1-4 MiB cut near its header): one search answered with 1100-6100 small messages written at once, in 701/8192/65536-byte pieces and at random cuts; the client must receive all of them however fast they arrive. distinct = distinct message sequences; evidence counts prefixes, partitions and barriers checked",
     claim="held on every generated message, prefix and partition of this run; exhaustive over single (and, for short sequences, double) split points of the generated sequences",
     design="3/C06", technique="prefix/partition enumeration against the real decoder (H4) and the real connection, with quiescence-barrier observation of delivered-item counts",
     note=NETWORLD)


prop("C10",
     title="Search streams deliver the server's items in order and obey the state machine",
     rule="streams lane: a reference model of the documented SearchStream state machine (Active -> Done -> Closed, Error after a failure; next() outside Active = Ok(None); finish() = server result iff read to the end, else rc 88; second finish rc 80) is executed in lock step with the real stream for a random client call sequence over next/finish/state (calls after the end, early finish at every position, repeated finish, random mixes), on direct streams, EntriesOnly, a user-defined pass-through adapter and chains of 1-3 of them; server item sequences of 0-30 entries/references/intermediates with per-item controls, result codes 0..123, optional connection loss after k items; every return value and every state() must equal the model's. one stream in eight has an outermost user-defined adapter that fails on its own account after k calls (the stream must enter the Error state all the same). paged_early_finish lane: a PagedResults search (alone / behind EntriesOnly) stopped after j items on the first or a later page: finish() must report rc 88 (never an earlier page's result), state Closed, second finish rc 80. sync_streams lane: the same model against the synchronous EntryStream over a Unix socket pair (direct / behind EntriesOnly, read to the end or stopped early, server keeping the connection open or closing it right after the final result, reader keeping up or lagging): items in order and result() = what finish() returns, incl. the referral URIs EntriesOnly collected. search_collect lane: search() must return exactly the entries in order with referral URIs appended to refs in arrival order and intermediates dropped. distinct = distinct (stream kind, item count, fault point, call script) On a third of the direct streams the server holds back the messages from a random position on; the next() that waits there is given up (its future dropped after 50 virtual ms, as by a timeout or select! around it), the rest is sent and the call repeated: the model is unchanged, nothing may be lost.",
     claim="held on every generated stream history of this run (counts per stream kind, early finishes and connection losses in the evidence)",
     design="3/C10", technique="lock-step executable model of the stream state machine against the real SearchStream over scripted item sequences",
     note=NETWORLD)


prop("C13",
     title="Completed operations leave nothing behind",
     rule="random histories of 3-20 steps (long_histories: 600 steps) on one connection over 23 step kinds: single op, single op with unsolicited/unknown-ID responses, single op answered with an IntermediateResponse before the final response, search() read to the end, direct stream read to the end, direct stream finished early at every position (rest of the items never sent or sent late), PagedResults search alone and behind EntriesOnly over 0-25 entries and page sizes 1-8, PagedResults finished early on a later page, single-op timeout (reply never / late), stream timeout with the server silent afterwards or answering late, search() call timing out, zero-timeout abandon of an in-flight op, single op / stream start / search() call timing out while the driver is stuck writing the request (transport back-pressure released 300 ms later), abandon of a finished op, of a timed-out op, of an in-flight single op and of an in-flight stream (direct, behind EntriesOnly, or a collecting search() call; from a cloned handle). After every step the harness waits 1.5 virtual seconds (late replies arrive, paused-clock quiescence) and reads the ID table (hook H2) and the driver's routing-map sizes (hook H3): any newly reserved ID or routing entry is attributed to the step that left it. Abandon oracle: the server saw an AbandonRequest naming the given ID, the waiting caller returned an error, the ID is released. tls_connections lane: on real loopback TLS connections (ldap + StartTLS, whose setup runs one operation through the driver's single-operation mode, and ldaps) no ID is reserved right after establishment nor after two completed binds. distinct = distinct step sequences; evidence counts quiescent points checked and steps per kind Step kind 24: a sent single operation times out while the driver is stuck writing another handle's request; its reply (0-299 ms) and its ID-scrub notice both wait for the driver, which handles them in whichever order it picks.",
     claim="held at every quiescent point of every generated history of this run (zero reserved IDs and zero routing entries, i.e. no growth over 600-step histories)",
     design="3/C13", technique="invariant hook at quiescent points (ID table + routing-map gauges) over scripted histories on a paused clock, plus wire-log check of AbandonRequest",
     note=NETWORLD + "; streams dropped without finish() are excluded (the property speaks of finished streams)")


prop("C16",
     title="The PagedResults adapter returns the whole result set exactly once",
     rule="scripted paging server holding a result set of 0-200 tokened entries (plus occasional references/intermediates) split into pages by the server: full pages, short and empty pages with live cookies, empty first page, single page, up to 140 pages; cookies of 1-300 random bytes incl. bytes that look like BER and all-zero cookies, and (1 in 6) the same opaque cookie handed back with every page but the last; result codes 3/4/10/11/53 on the last (1 in 5) or an intermediate (1 in 12) page - the cookie alone decides whether there is another page; requested page sizes 1..2^31-1; adapter alone, behind EntriesOnly and in front of it; 0-5 accompanying request controls and non-default search options; with/without per-item timeout; caller-supplied paging control in the control list (must fail at start, nothing on the wire); in 1/8 of the cases the connection is lost at a page boundary or inside a page (the caller must see an error, shared with C04). After a connection loss at a page boundary finish() must report rc 88, not the earlier page's result. Client oracle: entries returned == the result set, each once, in order; final result is the last page's with the paging control stripped and other response controls kept. Server oracle: request 1 carries exactly one paging control with the requested size and an empty cookie; request k+1 equals request k in base/scope/filter/attributes/options/other controls and carries the cookie returned by response k (decoded with the harness' codec); exactly one request per page, none after the first empty cookie. distinct = distinct page layouts x adapter chain",
     claim="held on every generated paging conversation of this run (pages served and entries transferred are in the evidence)",
     design="3/C16", technique="scripted paging server with wire-log oracle on the request sequence and client-boundary oracle on the returned entries",
     note=NETWORLD)


prop("C12",
     title="Timeouts fire on time, keep the connection usable and orphan the late reply",
     rule="paused virtual clock, so every time is exact to tokio's 1 ms timer granularity. Per case 1-4 cloned handles each run 1-6 operations concurrently: single operations and direct streaming searches, with no timeout, a timeout in {0,1,10,50,100,1000,60000,3600000} ms, or (1 in 12) an effectively infinite one (Duration::MAX, u64::MAX s, i64::MAX s) which must behave like no timeout; the scripted server answers after delays chosen around the deadline (T/2, T-1, T, T+1, 2T+5, fixed values, never), for searches with one such gap before every item and before Done. Every client event (response, item, end, timeout, finish) is recorded with its virtual time and compared with the expected timeline: response iff it arrives strictly before the deadline, at its arrival time; otherwise Timeout exactly at the deadline; for searches the deadline restarts at each received item (all gaps < T => everything delivered however long the total); arrival exactly at the deadline is a tie and not judged. A quarter of the searches run through the PagedResults adapter (page size 1-3; the page's result arrives half-way through the gap before the next item, so the wait for it and the wait for the next page's first item are two waits). stalled_driver lane: while the driver is stuck writing another handle's 2-100 KB request (transport back-pressure), a timed single operation, stream start or search() call must fail with Timeout exactly at its deadline and be cleaned up once the peer reads again. Afterwards (3 virtual hours later, every late reply has arrived): no returned value carries another operation's token, no ID is reserved (H2), the driver holds no routing entries (H3), the driver is still running, and after positioning the ID counter at 0 the next operation gets ID 1 and succeeds. non-trivial = cases in which at least one operation is expected to time out; distinct = distinct programs A quarter of the unpaged searches go through the collecting entry point Ldap::search(): expiry of the timeout during any wait is LdapError::Timeout, never a short result. One search in three mixes references and intermediate responses among its entries (every received item restarts the timer, also the ones search()/EntriesOnly do not hand out); after a Timeout the stream is asked once more and must answer Ok(None) at once.",
     claim="held on every generated timing program of this run; counts of operations expected to time out, ties not judged and ID-reuse checks are in the evidence",
     design="3/C12", technique="virtual-time trace checker: client events timestamped on a paused clock compared with the timeline computed from the scripted reply delays; H2/H3 invariant at the final quiescent point",
     note=NETWORLD + "; 'on time' is a statement about virtual time")


prop("C05",
     title="In-flight operations never share a message ID; IDs stay within 1..2^31-1",
     rule="wrap lane: for every subset of {1,2,3,4,MAX-3,MAX-2,MAX-1,MAX} (256 patterns) real pending operations are parked on exactly those IDs (single operations the server never answers, streaming searches that have already received 0-2 entries and are kept open, streams read to Done but not yet finished, or streams whose per-item timeout has fired but which are not yet finished; or PagedResults searches whose first page ended under the slot's ID and whose second page runs under an ID from a distant pen; finishing the ended streams later, after their old ID has been re-allocated to a new operation, must not release the new owner's ID (a paged stream releases its current page's ID only); the counter is positioned with hook H2 before each), then the counter is positioned at MAX-k for every k in 0..=8 and 2k+8 operations are issued, some answered, some left pending; parked operations also include streams abandoned through another handle whose reader comes back at the very end; before the probes a handle whose last operation completed long ago issues an Abandon with a zero timeout while that old ID belongs to a new pending operation; some operations time out at once and are followed, in the same poll, by a new operation for which the timed-out ID is the next candidate. Judged: every request's wire ID lies in 1..=2^31-1 and differs from the ID of every operation still outstanding; operations near the wrap point complete; and, as a probe at the end of every case, for each outstanding operation the counter is positioned just below its ID and one more operation is issued, which must not receive that ID (the allocator steps over IDs in use). The reference allocator (last+1, wrap MAX->1, skip in-use) and the library's ID table (H2) are compared in lock step as well but only counted: another allocation order or bookkeeping does not break the property. threads lane: 4-48 tasks on cloned handles on a multi-thread tokio runtime with 2-8 real worker threads issue server-answered and locally completing operations; the server holds replies until many requests are outstanding and releases them in one burst in random order so that all waiting tasks allocate at the same moment; it checks every arriving ID against the set of requests it has not yet answered (a third of the cases start just below the wrap point). Miri lane (thorough): the threads lane at tiny size under Miri's data-race detector and preemptive scheduler. non-trivial = cases whose allocations crossed the wrap point / all threaded cases Parked streams may have up to 3000 items which their reader has not read yet: a reader lagging behind still owns its ID. boundaries lane: the counter is positioned around 2^k, 2^k +- 2^(k-8) and 1.5*2^k for every k in 7..=30 and six operations are run across each point; the ID each request leaves with (read with a strict INTEGER decoder) must be the allocated one.",
     claim="held on every enumerated wrap pattern and every threaded run of this execution; exhaustive over the 256 x 9 parked-pattern/position grid; concurrency evidence lists requests checked and the peak number of simultaneously outstanding operations observed",
     design="3/C05", technique="lock-step executable allocator model over the wire log + H2 table; interval-overlap check at the server under real multi-threading; Miri race detector",
     note=NETWORLD + "; the threads lane uses real time and real OS threads (no paused clock)")
EXTRA_LANES["C05"] = [miri_lane()]


prop("C11",
     title="Hostile or corrupt server bytes cannot crash or wedge the connection",
     rule="inputs: random bytes; random bodies behind a plausible SEQUENCE header; structural single and double mutations of valid response messages of every type (element deleted/duplicated/appended, class or tag changed, constructed<->primitive swapped, emptied, primitive content replaced incl. widened/negative integers and non-UTF-8, children reversed); byte-level mutations (every length field +-1/+-big/other form, truncation, bit flips, byte replace/insert/delete); hand-picked classics (30 00, inner length exceeding outer, missing ID, empty BOOLEAN, unknown op for a search ID, malformed SearchResultDone); nesting up to depth 60. decoder and driver lanes run as child-process shards so that a process abort (allocation failure, abort-on-double-panic, stack overflow) becomes a verdict ('process-killed-by-signal') instead of taking the checker down. decoder lane (H4, real decode function, catch_unwind per input): a panic is a violation; 'need more' while the buffer already holds the outer TLV's announced length is a wedge. driver lane: a bind pending on ID 1 and a search (0-2 entries already delivered) on ID 2, then the hostile frame addressed to one of them, optionally followed by valid responses, then EOF: drive() must return without panicking, both callers must resolve under the virtual-time watchdog, a frame in which an inner element runs past the end of its container counts as not-an-envelope and may never be delivered; a complete well-formed envelope addressed to the pending bind or search must be delivered to it or end the connection by the next quiescence barrier (never silently swallowed); a complete non-envelope frame must already have ended the connection at the next quiescence barrier (before any further byte or EOF arrives), and a frame that is not an envelope (outer not a universal SEQUENCE, <2 elements, first element not an INTEGER in 0..2^31-1) must end the connection with an error both callers observe. stack lane: child processes decode and drive nested TLVs (three shapes) of depth 10..250000 (up to ~1 MB) on 2 MiB thread stacks; death by signal is a violation, inability to spawn is inconclusive. distinct = distinct input byte strings starttls_garbage lane (real loopback TCP): the server answers the StartTLS request of set_starttls(true) with bytes that are complete by their own outer length and not an LDAPMessage (7 fixed shapes + generated ones) and then stays silent with the socket open; connection setup must fail, not wait.",
     claim="held on every hostile input of this run (no decoder or driver panic, no wedge, no hang, no stack overflow up to the probed depth); caller-side panics on malformed single-operation results are counted here and judged by C04's malformed_results lane",
     design="3/C11", technique="mutation-based hostile-input monitor on the real decoder (catch_unwind) and the real driver (virtual-time watchdog), plus a subprocess stack probe",
     note=NETWORLD + "; 'complete frame' is judged by the harness' own BER header parser; first bytes with tag number 31 are not judged for wedging")


prop("C04", level="fault_enumeration",
     title="Every operation terminates; losing the connection fails all pending work",
     rule="cuts lane (fault enumeration): a scenario = 0-4 pending single operations + 0-3 pending streaming searches (0-4 items each, read eagerly) + a seeded interleaving of their responses (some operations left unanswered) + a fault kind in {server EOF, read error, complete undecodable frame, client unbind with the server closing on UnbindRequest} + barrier/no-barrier; the response stream is B bytes long and the scenario is run once for EVERY cut position p in 0..=B (undecodable frames only at message boundaries): the server delivers the first p bytes, passes a quiescence barrier, then injects the fault. Expected outcome per call is computed from the byte offsets: response complete before the cut (and barrier) => must be Ok with exactly its token; not complete => must be Err; complete without barrier => either, never wrong or partial data; stream items complete before the cut are returned in order, then Err (Ok(None) only if Done preceded the cut). Then: a later operation must fail with zero virtual time elapsed and zero bytes reaching the server, drive() must return under the virtual-time watchdog, unbind must return Ok and shut the transport, and the transport must be shut or dropped after every fault. write_errors lane: 0-2 single operations and 0-2 streams pending, then a write error at every byte position of the next request. handle_drops lane: clones and streams holding handles dropped one by one: transport open while any is alive, closed with drive() returning Ok after the last. real_transports lane: the same loss/unbind scenarios over real loopback TCP and Unix socket pairs (ConnType::Tcp / ConnType::Unix arms, which the in-memory transport bypasses): peer must observe EOF after unbind even while handles are kept, pending operations fail after the peer closes (wall-clock expiry = retried, then inconclusive). The real_transports lane also runs StartTLS establishment (no connection timeout configured) against a server that closes before or after the request, answers an unknown ID or sends an unsolicited notice and then closes or refuses, or sends half a response: the establishing call must return an error (pending after 8 s => retried alone with 40 s => hang). malformed_results lane: the hostile frames of C11 (random bytes, structural and byte-level mutations of valid responses) arrive while a bind and a search are pending; every operation future must complete with a value or an error: a panic in the caller's task or a caller left pending is a violation. In the cuts lane a response that had arrived completely before the fault must be returned whether or not a quiescence barrier separated it from the fault (bytes that precede the fault on the transport are read before it); for the client-unbind fault without barrier the unbind request is queued in the same instant the response bytes become readable, so that the driver finds both ready. malformed_results also requires that a complete frame which is not an LDAPMessage has failed the pending operations at the next quiescence barrier, not only when more input or the end of the connection arrives. late_readers lane: finish() called without reading on a stream whose connection is gone must return rc 88 without panicking; search() (which collects a whole result) must fail when the connection is lost before the SearchResultDone and return everything when the Done made it; a streaming reader (direct / behind EntriesOnly) that starts reading only after the connection has gone must still get every delivered item, then the end or an error. unbind_under_backpressure lane: the peer stops reading, the driver is stuck writing a 1-200 KB request, unbind() is called with a timeout (0-200 ms) that expires first; once the peer reads again the UnbindRequest must go out, the transport be shut, pending work fail and drive() return. paged_connection_loss lane: a PagedResults search loses the connection inside a page and exactly at a page boundary (after the page's SearchResultDone, before/while the follow-up request): the caller must get an error, never a clean end of results. distinct = distinct scenarios; evidence counts runs (= scenarios x cut points) The undecodable frames of the cuts lane include well-formed envelopes whose messageID lies outside 0..maxInt (2^64+1 in nine octets, 2^32+1, 2^31, -1), which are not LDAPMessages.",
     claim="exhaustive over cut positions for each generated scenario, and over the byte positions of the failing request; held on every run",
     design="3/C04", technique="fault enumeration over response-stream cut points on the in-memory transport with a virtual-time hang watchdog; expected outcomes computed from wire offsets",
     note=NETWORLD + "; a hang is a client future still pending when the paused-clock runtime is idle (24 virtual hours watchdog), not a wall-clock deadline")


prop("C19",
     title="Control and extended-operation values round-trip through their codecs",
     rule="requests lane: for generated field values of each of the 14 request structs (PagedResults sizes over the integer length boundaries and cookies empty/zero/BER-looking/300 bytes; SyncRequest both modes x cookie absent/empty/present x reload hint; Pre/PostRead attribute lists; Assertion and MatchedValues over generated filter ASTs rendered with random escaping; ProxyAuth, TxnSpec identifiers over arbitrary Unicode; ManageDsaIT, RelaxRules with/without .critical(); WhoAmI, PasswordModify all 8 present/absent combinations, StartTxn, EndTxn commit/abort) the emitted OID and criticality are compared with the RFC's and the value is decoded with the harness' BER codec and compared with the RFC's structure holding exactly the fields (shortest-form integers, minimal lengths, DEFAULTs not encoded). responses lane: reference-encoded values (minimal or random non-minimal length octets, BOOLEAN TRUE as FF or other non-zero) for PagedResults, SyncState (4 states, cookie optional), SyncDone, SyncInfo (all four choices with every combination of optional cookie / default and non-default flag / UUID set), Pre/PostRead responses over generated entries, WhoAmI, PasswordModify and StartTxn responses are parsed by the library and compared field by field. envelope lane (hook H4): response control lists with criticality absent/FALSE/TRUE and value absent/empty/large decoded by the real decoder must come back unchanged (absent criticality = false, absent value = None). attached_controls lane: typed request controls (critical or not, with or without a value) as the server's strict decoder reads them off the wire; entries, references, intermediate responses and the final result of a search each carry 1-4 response controls; each must reach the caller with the message it was attached to (real connection, random length forms). EndTxnResp is not in the property's list and is not checked. distinct = distinct generated values",
     claim="held on every generated value of this run; per-struct counts are in the evidence",
     design="3/C19", technique="differential monitor: library codecs vs RFC-derived reference encoders/decoders built on the harness BER model",
     note="pure functions plus hook H4 for the envelope lane; PasswordModify with no fields may omit the request value or send an empty SEQUENCE (both accepted)")


prop("C18", timeout_quick=1500,
     title="Connection setup honours the URL and fails cleanly on bad input",
     rule="real loopback sockets: TCP listeners on 127.0.0.1/[::1] ports 389 and 636 (the sandbox runs as root), ephemeral ports, a listener that reads and never answers, a port with no listener, and Unix socket listeners at generated paths (plain; with space, '%', non-ASCII and ':' needing percent-encoding). An enumerated table of (URL, StartTLS, timeout, pre-opened TCP/Unix/Invalid stream) cases with the expected outcome derived from the property: explicit host/port (incl. explicit ports equal to the other scheme's default: ldaps://h:389, ldap://h:636), default ports 389/636, missing or empty host = localhost (ldap:///, ldap://, ldap:), IPv6 literal, ldapi percent-decoding, empty and port-bearing ldapi paths, unknown schemes (also with StartTLS enabled and without a timeout), ldaps with and without the StartTLS flag against a listener that records the first byte it receives (must be a TLS handshake record), unparsable URLs, refused port, pre-opened stream used iff its type matches the scheme (and then no new connection is made; an Invalid or TCP-typed stream with an ldapi URL naming a LIVE socket must fail, not fall back to connecting by path), connection timeout bounding StartTLS / TLS handshake against a silent server, effectively infinite connection timeouts (Duration::MAX, u64::MAX s) on reachable, refused and unknown-scheme URLs, TLS establishment through ldaps:/// and ldap:/// + StartTLS (pre-opened stream) against a server whose trusted certificate names localhost; plus 300 seeded fuzzed scheme/separator/host/port/path/settings combinations for which only 'no panic, no hang' is required. Every case runs through LdapConnAsync::with_settings and LdapConn::with_settings; the oracle compares Ok/Err/panic and WHICH listener received a connection. distinct = distinct (URL, settings, API) cases StartTLS answered with a non-success code (10, 2, 52) must fail the setup with that result; zero and 1 ms connection timeouts against a silent StartTLS / TLS endpoint must fail with Timeout like any other value. Unknown schemes are crossed with everything that would do for ldapi (host = percent-encoded path of a live socket, pre-opened Unix stream, no host) and with a pre-opened TCP stream; an endpoint that neither accepts nor refuses the TCP connection (zero-backlog listener with a full accept queue) must make a 400 ms connection timeout fire. Async setup calls run as tasks of their own so that a blocking call cannot disable the guard.",
     claim="held on the enumerated matrix and the fuzzed combinations of this run; real time is used only for hang detection: a setup call still pending after 8 s is retried once alone with a 40 s guard and only a call pending both times is a hang; a call that returns late is inconclusive, a port that cannot be bound makes its cases inconclusive",
     design="3/C18", technique="listener-attribution monitor on real loopback/Unix sockets over an enumerated URL x settings matrix plus URL fuzzing with panic capture",
     note="needs to bind 127.0.0.1:389/636 (root); runs are serialised with a lock file; scratch sockets live under /tmp for the duration of the run only")


prop("C14",
     title="The synchronous API is observationally identical to the asynchronous one",
     rule="a generated script of 2-11 steps over the whole LdapConn/EntryStream surface (simple and SASL EXTERNAL bind, search, streaming_search and streaming_search_with [EntriesOnly, PagedResults, both] read to the end or finished after k next() calls, add, compare, delete, modify, modifydn, extended, abandon, unbind, last_id, is_closed, abandon(last_id()), abandon(0), searches with an unparsable filter while modifiers are pending, with_controls / with_timeout / with_search_options before any of them, each optionally called twice (the last call wins)) is executed twice against the same deterministic scripted server (behaviour chosen by the request itself: success, error codes, entries+references with controls, paging, silence with a 60 ms or a zero client timeout, entries followed by a disconnect before the final result, 25 entries trickling 20 ms apart against a 350 ms per-item timeout, disconnect) over a Unix socket pair handed in through StdStream::Unix: once through LdapConn, once through LdapConnAsync/Ldap. A difference in a script with a trickling search is only believed if a second run of the same script shows a difference too (otherwise inconclusive). Oracle: the two decoded request sequences are equal (SET OF as multisets, raw bytes equal for every request without a SET OF), and the two sequences of results / errors (by class) / stream items / stream end states / last_id / is_closed values are equal. distinct = distinct scripts",
     claim="held on every generated script of this run (per-operation step counts and requests compared in the evidence)",
     design="3/C14", technique="differential monitor: one script, two API front-ends, same scripted server; wire transcript and return values compared",
     note="real sockets and real time (LdapConn owns a private runtime that cannot be paused): timeouts are compared by outcome class only")


prop("C17",
     title="Requested TLS is never silently downgraded",
     rule="real loopback TCP with a harness server = raw cleartext tap + native-tls acceptor using certificates minted by certs/gen.sh (trusted for localhost/127.0.0.1 through SSL_CERT_FILE, wrong-name, untrusted CA, self-signed). Full matrix {ldap+StartTLS, ldaps, ldaps with the StartTLS flag} x {no_tls_verify on/off} x {host name, IP literal, no host in the URL with a pre-opened stream} x {6 orders of the settings builder calls} x {settings used directly / through clone()} x {library-opened connection / pre-opened TCP stream with a host in the URL} x {plain URL / URL with DN, query and a bindname extension}; certificates also include one issued by the trusted CA for IP 127.0.0.1 only (must be refused for the name localhost however the connection was opened); refusal codes include multiples of 256; TLS-requesting URLs with a pre-opened Unix stream must fail without writing anything x server behaviours {TLS with each certificate, StartTLS refused with sampled non-zero codes (always incl. referral code 10, which ExopResult::non_error() would accept), StartTLS refused but the server then performs a TLS handshake anyway, a well-formed envelope whose StartTLS result cannot be decoded (5 shapes) followed by a server-side handshake, garbage answer, well-formed non-extended answer, close, forged cleartext LDAP responses (for the IDs the client will use next, 1-64 copies) in the same segment as the StartTLS success, forged cleartext in a later segment}; after establishment two binds are issued which the server answers INSIDE TLS with rc 49. Oracle: every cleartext byte the server received is exactly one StartTLS ExtendedRequest (ldaps: first bytes are a TLS handshake record) and no LDAP message follows it in the clear; establishment returns Err when StartTLS is not success, the answer is garbage/closed, or the certificate must not verify (unless verification is disabled); a returned handle implies a completed handshake; no operation result carries the forged cleartext token or anything not sent inside TLS. thorough adds a valgrind memcheck pass over the OpenSSL FFI path. distinct = distinct matrix cells (x repetitions with different refusal codes / injection sizes) Further behaviours: the server never answers the StartTLS request and the client gives up (connection timeout of 400 ms, or the caller drops the connect future): the server keeps listening for 1.5 s and must not see another LDAP message in the clear; a third of the verification-on cases build their settings with set_no_tls_verify(true) followed by set_no_tls_verify(false). Refusals are also sent without a responseName and under foreign OIDs (Notice of Disconnection, arbitrary) by a server that then goes along with a handshake. features lane: the matrix is repeated (on both tiers, a third of the size) with the harness and ldap3 rebuilt with --no-default-features --features sync,tls-native, i.e. the TLS backend named directly instead of through the alias feature `tls`.",
     claim="held on every cell of the matrix in this run; establishment hangs bounded by the 6 s connection timeout are inconclusive, not violations",
     design="3/C17", technique="wire-tap monitor on real loopback TLS: cleartext byte oracle + establishment-outcome table + forged-response tokens; valgrind memcheck for the native TLS path; the matrix repeated on a second build with another legal cargo feature selection",
     note="needs loopback TCP and the openssl CLI at setup time; trust is injected with SSL_CERT_FILE (honoured by the default native-tls connector); tls-rustls feature code is not built in this configuration and is out of reach")
EXTRA_LANES["C17"] = [features_lane("matrix", "backend-named-directly", "backend_named_directly"), valgrind_lane()]

EXTRA_LANES["C01"] = [miri_lane()]
# the same workloads (tiny) under the UB / data-race interpreter for the lanes that run without real
# sockets or child processes: hostile bytes (C11), framing (C06), the pure parsers and codecs
for _p in ("C02", "C06", "C08", "C11", "C12", "C15", "C19", "C20"):
    EXTRA_LANES.setdefault(_p, []).append(miri_lane())
    if "Miri" not in META[_p]["technique"]:
        META[_p]["technique"] += "; Miri lane (thorough tier)"


# ---- properties not (yet) claimed ----
def _na():
    out = []
    for pid in ALL:
        if pid not in META:
            out.append({"property_id": pid, "reason": "check not built yet in this round; nothing is claimed for it"})
    return out


NOT_APPLICABLE = _na()
