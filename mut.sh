#!/bin/bash
# dev helper: mut.sh <file-in-repo> <sed-expr> <check-id> [tier] — apply a one-line mutation to /repo, run the check, revert
f=$1; expr=$2; id=$3; tier=${4:-quick}
cd /repo || exit 2
if [ -n "$(git status --porcelain)" ]; then echo "repo dirty"; exit 2; fi
sed -i "$expr" "$f"
if [ -z "$(git status --porcelain)" ]; then echo "MUTATION DID NOT CHANGE ANYTHING"; exit 2; fi
git diff | grep '^[+-][^+-]' | head -6
cd /verif && ./check $id --tier $tier | grep -E "VIOLATION|signature|HARNESS|BUILD|tier=" | head -12
git -C /repo checkout -- .
