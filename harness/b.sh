#!/bin/bash
# dev helper: build harness (verif profile), show errors compactly
export RUST_BACKTRACE=0
cd /verif/harness
RUSTFLAGS="--cfg ldap3_verif --cfg tokio_unstable" cargo build --profile verif 2>&1 | grep -E "^(error|warning: unused)|^ *--> |Finished|^\s+= (note|help)|^[0-9 ]*\|" | head -${1:-40}
