//! Independent BER tree codec (definite lengths only, tag numbers 0..=30).
//! Written from X.690 without reference to lber; used as the executable model
//! on both the request side (strict decoder) and the response side (encoder
//! that can choose any legal definite length form).

use crate::prng::Rng;

pub const UNIV: u8 = 0;
pub const APP: u8 = 1;
pub const CTX: u8 = 2;
pub const PRIV: u8 = 3;

#[derive(Clone, Debug, PartialEq, Eq, Hash)]
pub enum Node {
    P { class: u8, tag: u8, data: Vec<u8> },
    C { class: u8, tag: u8, kids: Vec<Node> },
}

/// How an encoder writes length octets.
#[derive(Clone, Copy, Debug, PartialEq, Eq)]
pub enum LenPolicy {
    /// Shortest form (what DER / a canonical BER encoder emits).
    Minimal,
    /// Per TLV, pick randomly among: minimal, long form where short would do,
    /// long form with 1..=4 extra leading zero octets.
    Random,
}

pub struct Enc<'a> {
    pub policy: LenPolicy,
    pub rng: Option<&'a mut Rng>,
}

impl<'a> Enc<'a> {
    pub fn minimal() -> Enc<'static> {
        Enc { policy: LenPolicy::Minimal, rng: None }
    }
    pub fn random(rng: &'a mut Rng) -> Enc<'a> {
        Enc { policy: LenPolicy::Random, rng: Some(rng) }
    }

    fn write_len(&mut self, out: &mut Vec<u8>, len: usize) {
        let mut extra = 0usize;
        let mut force_long = false;
        if self.policy == LenPolicy::Random {
            if let Some(r) = self.rng.as_mut() {
                match r.below(8) {
                    0 | 1 => force_long = true,
                    2 => {
                        force_long = true;
                        extra = 1 + r.usize(4);
                    }
                    3 => {
                        // X.690 allows up to 126 length octets: well beyond the size of a machine word
                        force_long = true;
                        extra = 5 + r.usize(12);
                    }
                    4 if r.chance(1, 8) => {
                        force_long = true;
                        extra = 100 + r.usize(20);
                    }
                    _ => {}
                }
            }
        }
        if len < 128 && !force_long {
            out.push(len as u8);
            return;
        }
        let mut octs: Vec<u8> = Vec::new();
        let mut l = len;
        while l > 0 {
            octs.push((l & 0xff) as u8);
            l >>= 8;
        }
        if octs.is_empty() {
            octs.push(0);
        }
        let extra = extra.min(126 - octs.len());
        for _ in 0..extra {
            octs.push(0);
        }
        octs.reverse();
        out.push(0x80 | octs.len() as u8);
        out.extend_from_slice(&octs);
    }

    pub fn encode(&mut self, n: &Node, out: &mut Vec<u8>) {
        match n {
            Node::P { class, tag, data } => {
                assert!(*tag <= 30);
                out.push((class << 6) | tag);
                self.write_len(out, data.len());
                out.extend_from_slice(data);
            }
            Node::C { class, tag, kids } => {
                assert!(*tag <= 30);
                out.push((class << 6) | 0x20 | tag);
                let mut body = Vec::new();
                for k in kids {
                    self.encode(k, &mut body);
                }
                self.write_len(out, body.len());
                out.extend_from_slice(&body);
            }
        }
    }

    pub fn to_vec(&mut self, n: &Node) -> Vec<u8> {
        let mut v = Vec::new();
        self.encode(n, &mut v);
        v
    }
}

pub fn encode_min(n: &Node) -> Vec<u8> {
    Enc::minimal().to_vec(n)
}

#[derive(Clone, Debug, PartialEq, Eq)]
pub enum DecErr {
    /// More bytes are needed to complete the outermost TLV header or body.
    Truncated,
    /// Malformed (indefinite length, high tag number, inner overrun, ...).
    Bad(&'static str),
}

#[derive(Clone, Copy, Debug, Default)]
pub struct DecStats {
    /// Every length was in its shortest form.
    pub all_minimal: bool,
    pub tlvs: usize,
    pub max_depth: usize,
}

/// Parse header at `b`: returns (class, constructed, tag, header_len, body_len, minimal).
pub fn header(b: &[u8]) -> Result<(u8, bool, u8, usize, usize, bool), DecErr> {
    if b.is_empty() {
        return Err(DecErr::Truncated);
    }
    let id = b[0];
    let class = id >> 6;
    let cons = id & 0x20 != 0;
    let tag = id & 0x1f;
    if tag == 31 {
        return Err(DecErr::Bad("high tag number"));
    }
    if b.len() < 2 {
        return Err(DecErr::Truncated);
    }
    let l0 = b[1];
    if l0 < 128 {
        return Ok((class, cons, tag, 2, l0 as usize, true));
    }
    let n = (l0 & 0x7f) as usize;
    if n == 0 {
        return Err(DecErr::Bad("indefinite length"));
    }
    if n == 127 {
        return Err(DecErr::Bad("reserved length octet"));
    }
    if b.len() < 2 + n {
        return Err(DecErr::Truncated);
    }
    let mut len: u128 = 0;
    for &o in &b[2..2 + n] {
        len = (len << 8) | o as u128;
        if len > (1u128 << 62) {
            return Err(DecErr::Bad("length too large"));
        }
    }
    let len = len as usize;
    let minimal = len >= 128 && b[2] != 0;
    Ok((class, cons, tag, 2 + n, len, minimal))
}

fn dec(b: &[u8], depth: usize, st: &mut DecStats) -> Result<(Node, usize), DecErr> {
    let (class, cons, tag, hl, bl, minimal) = header(b)?;
    st.tlvs += 1;
    st.max_depth = st.max_depth.max(depth);
    if !minimal {
        st.all_minimal = false;
    }
    if b.len() < hl + bl {
        return Err(DecErr::Truncated);
    }
    let body = &b[hl..hl + bl];
    if !cons {
        return Ok((Node::P { class, tag, data: body.to_vec() }, hl + bl));
    }
    let mut kids = Vec::new();
    let mut off = 0;
    while off < body.len() {
        match dec(&body[off..], depth + 1, st) {
            Ok((k, used)) => {
                kids.push(k);
                off += used;
            }
            // inside a complete outer TLV, running out of bytes is malformed
            Err(DecErr::Truncated) => return Err(DecErr::Bad("inner element overruns its container")),
            Err(e) => return Err(e),
        }
    }
    Ok((Node::C { class, tag, kids }, hl + bl))
}

/// Decode one TLV from the front of `b`; returns the node, bytes consumed and stats.
pub fn decode(b: &[u8]) -> Result<(Node, usize, DecStats), DecErr> {
    let mut st = DecStats { all_minimal: true, tlvs: 0, max_depth: 0 };
    let (n, used) = dec(b, 0, &mut st)?;
    Ok((n, used, st))
}

/// Decode exactly one TLV occupying the whole slice.
pub fn decode_exact(b: &[u8]) -> Result<(Node, DecStats), DecErr> {
    let (n, used, st) = decode(b)?;
    if used != b.len() {
        return Err(DecErr::Bad("trailing bytes"));
    }
    Ok((n, st))
}

/// If the buffer starts with a complete outer TLV (header + announced length
/// present), return its total length.
pub fn outer_complete(b: &[u8]) -> Option<usize> {
    match header(b) {
        Ok((_, _, _, hl, bl, _)) => {
            if b.len() >= hl + bl {
                Some(hl + bl)
            } else {
                None
            }
        }
        Err(_) => None,
    }
}

// ---- helpers to build and take apart nodes ----

impl Node {
    pub fn class(&self) -> u8 {
        match self {
            Node::P { class, .. } | Node::C { class, .. } => *class,
        }
    }
    pub fn tag(&self) -> u8 {
        match self {
            Node::P { tag, .. } | Node::C { tag, .. } => *tag,
        }
    }
    pub fn is_cons(&self) -> bool {
        matches!(self, Node::C { .. })
    }
    pub fn is(&self, class: u8, tag: u8, cons: bool) -> bool {
        self.class() == class && self.tag() == tag && self.is_cons() == cons
    }
    pub fn prim(&self, class: u8, tag: u8) -> Result<&[u8], String> {
        match self {
            Node::P { class: c, tag: t, data } if *c == class && *t == tag => Ok(data),
            _ => Err(format!("expected primitive [{} {}], got {}", class, tag, self.brief())),
        }
    }
    pub fn cons(&self, class: u8, tag: u8) -> Result<&[Node], String> {
        match self {
            Node::C { class: c, tag: t, kids } if *c == class && *t == tag => Ok(kids),
            _ => Err(format!("expected constructed [{} {}], got {}", class, tag, self.brief())),
        }
    }
    pub fn brief(&self) -> String {
        match self {
            Node::P { class, tag, data } => format!("P[{} {}] len {}", class, tag, data.len()),
            Node::C { class, tag, kids } => format!("C[{} {}] kids {}", class, tag, kids.len()),
        }
    }
    pub fn depth(&self) -> usize {
        match self {
            Node::P { .. } => 1,
            Node::C { kids, .. } => 1 + kids.iter().map(|k| k.depth()).max().unwrap_or(0),
        }
    }
}

pub fn octets(data: &[u8]) -> Node {
    Node::P { class: UNIV, tag: 4, data: data.to_vec() }
}
pub fn ctx_prim(tag: u8, data: &[u8]) -> Node {
    Node::P { class: CTX, tag, data: data.to_vec() }
}
pub fn seq(kids: Vec<Node>) -> Node {
    Node::C { class: UNIV, tag: 16, kids }
}
pub fn set(kids: Vec<Node>) -> Node {
    Node::C { class: UNIV, tag: 17, kids }
}
pub fn app_cons(tag: u8, kids: Vec<Node>) -> Node {
    Node::C { class: APP, tag, kids }
}
pub fn ctx_cons(tag: u8, kids: Vec<Node>) -> Node {
    Node::C { class: CTX, tag, kids }
}

/// Shortest two's-complement content octets of v (X.690 8.3).
pub fn int_content(v: i64) -> Vec<u8> {
    let b = v.to_be_bytes();
    let mut i = 0;
    while i < 7 {
        if (b[i] == 0x00 && b[i + 1] & 0x80 == 0) || (b[i] == 0xff && b[i + 1] & 0x80 != 0) {
            i += 1;
        } else {
            break;
        }
    }
    b[i..].to_vec()
}

/// Sign-extending decode of INTEGER content (any length 1..; longer than 8 octets only if
/// the excess is pure sign extension).
pub fn int_value(c: &[u8]) -> Option<i64> {
    if c.is_empty() {
        return None;
    }
    let neg = c[0] & 0x80 != 0;
    let mut v: i128 = if neg { -1 } else { 0 };
    for &o in c {
        v = (v << 8) | o as i128;
        if v > i64::MAX as i128 * 4 || v < i64::MIN as i128 * 4 {
            return None;
        }
    }
    if v > i64::MAX as i128 || v < i64::MIN as i128 {
        return None;
    }
    Some(v as i64)
}

pub fn integer(v: i64) -> Node {
    Node::P { class: UNIV, tag: 2, data: int_content(v) }
}
pub fn enumerated(v: i64) -> Node {
    Node::P { class: UNIV, tag: 10, data: int_content(v) }
}
pub fn boolean(v: bool) -> Node {
    Node::P { class: UNIV, tag: 1, data: vec![if v { 0xff } else { 0 }] }
}

pub fn hex(b: &[u8]) -> String {
    let mut s = String::with_capacity(b.len() * 2);
    for x in b {
        s.push_str(&format!("{:02x}", x));
    }
    s
}

pub fn unhex(s: &str) -> Vec<u8> {
    let s: Vec<u8> = s.bytes().filter(|c| c.is_ascii_hexdigit()).collect();
    s.chunks(2)
        .map(|p| u8::from_str_radix(std::str::from_utf8(p).unwrap(), 16).unwrap())
        .collect()
}
