//! Strict RFC 4514 distinguished-name string parser (reference model for dn_escape).

#[derive(Clone, Debug, PartialEq, Eq)]
pub struct Ava {
    pub ty: String,
    pub value: Vec<u8>,
}

fn hexval(b: u8) -> Option<u8> {
    match b {
        b'0'..=b'9' => Some(b - b'0'),
        b'a'..=b'f' => Some(b - b'a' + 10),
        b'A'..=b'F' => Some(b - b'A' + 10),
        _ => None,
    }
}

/// Characters that may never appear unescaped anywhere in a string value.
fn never_raw(b: u8) -> bool {
    matches!(b, 0 | b'"' | b'+' | b',' | b';' | b'<' | b'>' | b'\\')
}

/// Split on an unescaped separator byte.
fn split_unescaped(s: &[u8], sep: u8) -> Vec<&[u8]> {
    let mut out = vec![];
    let mut start = 0;
    let mut i = 0;
    while i < s.len() {
        if s[i] == b'\\' {
            i += 2;
            continue;
        }
        if s[i] == sep {
            out.push(&s[start..i]);
            start = i + 1;
        }
        i += 1;
    }
    out.push(&s[start.min(s.len())..]);
    out
}

fn parse_value(v: &[u8]) -> Result<Vec<u8>, String> {
    if v.first() == Some(&b'#') {
        // hexstring = SHARP 1*hexpair : a BER-encoded value, not a string
        return Err("value starts with unescaped '#': hexstring form, not the intended string".into());
    }
    // tokenise into (byte(s), was_escaped)
    let mut toks: Vec<(Vec<u8>, bool)> = vec![];
    let mut i = 0;
    while i < v.len() {
        let b = v[i];
        if b == b'\\' {
            if i + 1 >= v.len() {
                return Err("dangling backslash".into());
            }
            let c = v[i + 1];
            if matches!(c, b'\\' | b'"' | b'+' | b',' | b';' | b'<' | b'>' | b' ' | b'#' | b'=') {
                toks.push((vec![c], true));
                i += 2;
            } else if let Some(h) = hexval(c) {
                if i + 2 >= v.len() {
                    return Err("runt hex pair".into());
                }
                let l = hexval(v[i + 2]).ok_or("bad hex pair")?;
                toks.push((vec![h << 4 | l], true));
                i += 3;
            } else {
                return Err(format!("bad escape \\{}", c as char));
            }
        } else {
            if never_raw(b) {
                return Err(format!("unescaped special {:#x}", b));
            }
            toks.push((vec![b], false));
            i += 1;
        }
    }
    if let Some((b, esc)) = toks.first() {
        if !esc && (b[0] == b' ' || b[0] == b'#') {
            return Err("unescaped leading space or '#'".into());
        }
    }
    if let Some((b, esc)) = toks.last() {
        if !esc && b[0] == b' ' {
            return Err("unescaped trailing space".into());
        }
    }
    Ok(toks.into_iter().flat_map(|(b, _)| b).collect())
}

fn valid_type(t: &[u8]) -> bool {
    if t.is_empty() {
        return false;
    }
    if t[0].is_ascii_alphabetic() {
        t.iter().all(|b| b.is_ascii_alphanumeric() || *b == b'-')
    } else {
        t.split(|&b| b == b'.').all(|p| !p.is_empty() && p.iter().all(|b| b.is_ascii_digit()))
    }
}

pub fn parse(dn: &[u8]) -> Result<Vec<Vec<Ava>>, String> {
    if dn.is_empty() {
        return Ok(vec![]);
    }
    let mut out = vec![];
    for rdn in split_unescaped(dn, b',') {
        let mut avas = vec![];
        for ava in split_unescaped(rdn, b'+') {
            let eq = ava.iter().position(|&b| b == b'=').ok_or("AVA without '='")?;
            let (t, v) = (&ava[..eq], &ava[eq + 1..]);
            if !valid_type(t) {
                return Err(format!("bad attribute type {:?}", String::from_utf8_lossy(t)));
            }
            avas.push(Ava { ty: String::from_utf8_lossy(t).into_owned(), value: parse_value(v)? });
        }
        out.push(avas);
    }
    Ok(out)
}
