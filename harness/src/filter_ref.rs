//! Reference RFC 4515 filter parser / printer / generator and RFC 4511 Filter <-> BER.
//! Independent of the library's nom grammar.

use crate::ber::{self, Node, CTX, UNIV};
use crate::prng::Rng;

#[derive(Clone, Debug, PartialEq, Eq, Hash)]
pub enum Filter {
    And(Vec<Filter>),
    Or(Vec<Filter>),
    Not(Box<Filter>),
    Eq(Vec<u8>, Vec<u8>),
    Ge(Vec<u8>, Vec<u8>),
    Le(Vec<u8>, Vec<u8>),
    Approx(Vec<u8>, Vec<u8>),
    Sub { attr: Vec<u8>, initial: Option<Vec<u8>>, any: Vec<Vec<u8>>, fin: Option<Vec<u8>> },
    Present(Vec<u8>),
    Ext { rule: Option<Vec<u8>>, attr: Option<Vec<u8>>, value: Vec<u8>, dn: bool },
}

// ---------------- BER (RFC 4511 4.5.1) ----------------

impl Filter {
    pub fn to_node(&self) -> Node {
        fn ava(tag: u8, a: &[u8], v: &[u8]) -> Node {
            Node::C { class: CTX, tag, kids: vec![ber::octets(a), ber::octets(v)] }
        }
        match self {
            Filter::And(v) => Node::C { class: CTX, tag: 0, kids: v.iter().map(|f| f.to_node()).collect() },
            Filter::Or(v) => Node::C { class: CTX, tag: 1, kids: v.iter().map(|f| f.to_node()).collect() },
            Filter::Not(f) => Node::C { class: CTX, tag: 2, kids: vec![f.to_node()] },
            Filter::Eq(a, v) => ava(3, a, v),
            Filter::Ge(a, v) => ava(5, a, v),
            Filter::Le(a, v) => ava(6, a, v),
            Filter::Approx(a, v) => ava(8, a, v),
            Filter::Sub { attr, initial, any, fin } => {
                let mut subs = vec![];
                if let Some(i) = initial {
                    subs.push(ber::ctx_prim(0, i));
                }
                for a in any {
                    subs.push(ber::ctx_prim(1, a));
                }
                if let Some(f) = fin {
                    subs.push(ber::ctx_prim(2, f));
                }
                Node::C { class: CTX, tag: 4, kids: vec![ber::octets(attr), ber::seq(subs)] }
            }
            Filter::Present(a) => ber::ctx_prim(7, a),
            Filter::Ext { rule, attr, value, dn } => {
                let mut k = vec![];
                if let Some(r) = rule {
                    k.push(ber::ctx_prim(1, r));
                }
                if let Some(a) = attr {
                    k.push(ber::ctx_prim(2, a));
                }
                k.push(ber::ctx_prim(3, value));
                if *dn {
                    k.push(ber::ctx_prim(4, &[0xff]));
                }
                Node::C { class: CTX, tag: 9, kids: k }
            }
        }
    }

    /// Strict decoder: exactly the RFC 4511 structure, nothing extra.
    pub fn from_node(n: &Node) -> Result<Filter, String> {
        fn ava(k: &[Node]) -> Result<(Vec<u8>, Vec<u8>), String> {
            if k.len() != 2 {
                return Err(format!("AVA with {} elements", k.len()));
            }
            Ok((k[0].prim(UNIV, 4)?.to_vec(), k[1].prim(UNIV, 4)?.to_vec()))
        }
        if n.class() != CTX {
            return Err(format!("filter choice with class {}", n.class()));
        }
        match (n.tag(), n) {
            (0, Node::C { kids, .. }) => Ok(Filter::And(kids.iter().map(Filter::from_node).collect::<Result<_, _>>()?)),
            (1, Node::C { kids, .. }) => Ok(Filter::Or(kids.iter().map(Filter::from_node).collect::<Result<_, _>>()?)),
            (2, Node::C { kids, .. }) => {
                if kids.len() != 1 {
                    return Err("not with != 1 element".into());
                }
                Ok(Filter::Not(Box::new(Filter::from_node(&kids[0])?)))
            }
            (3, Node::C { kids, .. }) => ava(kids).map(|(a, v)| Filter::Eq(a, v)),
            (5, Node::C { kids, .. }) => ava(kids).map(|(a, v)| Filter::Ge(a, v)),
            (6, Node::C { kids, .. }) => ava(kids).map(|(a, v)| Filter::Le(a, v)),
            (8, Node::C { kids, .. }) => ava(kids).map(|(a, v)| Filter::Approx(a, v)),
            (4, Node::C { kids, .. }) => {
                if kids.len() != 2 {
                    return Err("substring filter with != 2 elements".into());
                }
                let attr = kids[0].prim(UNIV, 4)?.to_vec();
                let subs = kids[1].cons(UNIV, 16)?;
                if subs.is_empty() {
                    return Err("substring filter with empty substrings sequence".into());
                }
                let mut initial = None;
                let mut any = vec![];
                let mut fin = None;
                for (i, s) in subs.iter().enumerate() {
                    match s {
                        Node::P { class: CTX, tag: 0, data } => {
                            if i != 0 {
                                return Err("initial not first".into());
                            }
                            initial = Some(data.clone());
                        }
                        Node::P { class: CTX, tag: 1, data } => {
                            if fin.is_some() {
                                return Err("any after final".into());
                            }
                            any.push(data.clone());
                        }
                        Node::P { class: CTX, tag: 2, data } => {
                            if i + 1 != subs.len() {
                                return Err("final not last".into());
                            }
                            fin = Some(data.clone());
                        }
                        o => return Err(format!("bad substring element {}", o.brief())),
                    }
                }
                Ok(Filter::Sub { attr, initial, any, fin })
            }
            (7, Node::P { data, .. }) => Ok(Filter::Present(data.clone())),
            (9, Node::C { kids, .. }) => {
                let mut rule = None;
                let mut attr = None;
                let mut value = None;
                let mut dn = false;
                let mut last = 0u8;
                for k in kids {
                    match k {
                        Node::P { class: CTX, tag, data } if (1..=4).contains(tag) && *tag > last => {
                            last = *tag;
                            match tag {
                                1 => rule = Some(data.clone()),
                                2 => attr = Some(data.clone()),
                                3 => value = Some(data.clone()),
                                _ => {
                                    if data.len() != 1 {
                                        return Err("dnAttributes not one octet".into());
                                    }
                                    if data[0] == 0 {
                                        return Err("dnAttributes FALSE encoded explicitly (DEFAULT)".into());
                                    }
                                    if data[0] != 0xff {
                                        return Err("dnAttributes TRUE not FF".into());
                                    }
                                    dn = true;
                                }
                            }
                        }
                        o => return Err(format!("bad/misordered extensible element {}", o.brief())),
                    }
                }
                match value {
                    Some(value) => Ok(Filter::Ext { rule, attr, value, dn }),
                    None => Err("extensible match without matchValue".into()),
                }
            }
            _ => Err(format!("unknown filter choice {}", n.brief())),
        }
    }

    pub fn depth(&self) -> usize {
        match self {
            Filter::And(v) | Filter::Or(v) => 1 + v.iter().map(|f| f.depth()).max().unwrap_or(0),
            Filter::Not(f) => 1 + f.depth(),
            _ => 1,
        }
    }
}

// ---------------- lexical helpers ----------------

pub fn is_special(b: u8) -> bool {
    b == 0 || b == b'(' || b == b')' || b == b'*' || b == b'\\'
}

fn is_keychar(b: u8) -> bool {
    b.is_ascii_alphanumeric() || b == b'-'
}

pub fn valid_descr(s: &[u8]) -> bool {
    !s.is_empty() && s[0].is_ascii_alphabetic() && s.iter().all(|&b| is_keychar(b))
}

fn valid_number(s: &[u8]) -> bool {
    !s.is_empty() && s.iter().all(|b| b.is_ascii_digit()) && (s.len() == 1 || s[0] != b'0')
}

pub fn valid_numericoid(s: &[u8]) -> bool {
    let parts: Vec<&[u8]> = s.split(|&b| b == b'.').collect();
    parts.len() >= 2 && parts.iter().all(|p| valid_number(p))
}

pub fn valid_oid(s: &[u8]) -> bool {
    valid_descr(s) || valid_numericoid(s)
}

pub fn valid_attrdesc(s: &[u8]) -> bool {
    let mut parts = s.split(|&b| b == b';');
    let ty = parts.next().unwrap_or(b"");
    if !valid_oid(ty) {
        return false;
    }
    parts.all(|o| !o.is_empty() && o.iter().all(|&b| is_keychar(b)))
}

fn hexval(b: u8) -> Option<u8> {
    match b {
        b'0'..=b'9' => Some(b - b'0'),
        b'a'..=b'f' => Some(b - b'a' + 10),
        b'A'..=b'F' => Some(b - b'A' + 10),
        _ => None,
    }
}

/// Unescape an assertion value: `\xx` -> byte, raw specials are errors.
pub fn unescape_value(s: &[u8]) -> Result<Vec<u8>, String> {
    let mut out = Vec::with_capacity(s.len());
    let mut i = 0;
    while i < s.len() {
        let b = s[i];
        if b == b'\\' {
            if i + 2 >= s.len() {
                return Err("runt escape".into());
            }
            match (hexval(s[i + 1]), hexval(s[i + 2])) {
                (Some(h), Some(l)) => out.push(h << 4 | l),
                _ => return Err("malformed escape".into()),
            }
            i += 3;
        } else if b == 0 || b == b'(' || b == b')' || b == b'*' {
            return Err(format!("raw special byte {:#x} in value", b));
        } else {
            out.push(b);
            i += 1;
        }
    }
    Ok(out)
}

// ---------------- reference parser ----------------

/// Outcome of the reference parser.
#[derive(Clone, Debug, PartialEq, Eq)]
pub enum RefParse {
    Ok(Filter),
    /// Not in the grammar.
    Reject(String),
    /// In a corner where RFC 4515's ABNF is ambiguous (a matching rule literally named "dn");
    /// either behaviour of the library is tolerated.
    Ambiguous,
}

pub fn parse(s: &[u8]) -> RefParse {
    let r = if s.first() == Some(&b'(') {
        match parse_filter(s, 0, 0) {
            Ok((f, used)) => {
                if used == s.len() {
                    Ok(f)
                } else {
                    Err("trailing text after filter".to_string())
                }
            }
            Err(e) => Err(e),
        }
    } else {
        // documented extension: a bare item
        if s.iter().any(|&b| b == b'(' || b == b')') {
            Err("parenthesis in bare item".to_string())
        } else {
            parse_item(s)
        }
    };
    match r {
        Ok(f) => RefParse::Ok(f),
        Err(e) if e == "AMBIGUOUS" => RefParse::Ambiguous,
        Err(e) => RefParse::Reject(e),
    }
}

fn parse_filter(s: &[u8], pos: usize, depth: usize) -> Result<(Filter, usize), String> {
    if depth > 200 {
        return Err("too deep".into());
    }
    if s.get(pos) != Some(&b'(') {
        return Err("expected (".into());
    }
    let p = pos + 1;
    let (f, end) = match s.get(p) {
        Some(b'&') | Some(b'|') => {
            let is_and = s[p] == b'&';
            let mut q = p + 1;
            let mut list = vec![];
            while s.get(q) == Some(&b'(') {
                let (f, e) = parse_filter(s, q, depth + 1)?;
                list.push(f);
                q = e;
            }
            (if is_and { Filter::And(list) } else { Filter::Or(list) }, q)
        }
        Some(b'!') => {
            let (f, e) = parse_filter(s, p + 1, depth + 1)?;
            (Filter::Not(Box::new(f)), e)
        }
        _ => {
            // item: up to the next parenthesis
            let mut q = p;
            while q < s.len() && s[q] != b')' && s[q] != b'(' {
                q += 1;
            }
            (parse_item(&s[p..q])?, q)
        }
    };
    if s.get(end) != Some(&b')') {
        return Err("expected )".into());
    }
    Ok((f, end + 1))
}

fn parse_item(t: &[u8]) -> Result<Filter, String> {
    let eq = t.iter().position(|&b| b == b'=').ok_or("no = in item")?;
    let (l, v) = (&t[..eq], &t[eq + 1..]);
    if l.last() == Some(&b':') {
        // extensible
        let l = &l[..l.len() - 1];
        let parts: Vec<&[u8]> = l.split(|&b| b == b':').collect();
        let attr = parts[0];
        let rest = &parts[1..];
        let value = if v.contains(&b'*') { return Err("raw * in extensible value".into()) } else { unescape_value(v)? };
        if attr.is_empty() {
            // [dnattrs] matchingrule
            match rest.len() {
                1 => {
                    if rest[0] == b"dn" {
                        return Err("AMBIGUOUS".into());
                    }
                    if !valid_oid(rest[0]) {
                        return Err("bad matching rule".into());
                    }
                    Ok(Filter::Ext { rule: Some(rest[0].to_vec()), attr: None, value, dn: false })
                }
                2 => {
                    if rest[0] != b"dn" {
                        return Err("expected :dn".into());
                    }
                    if !valid_oid(rest[1]) {
                        return Err("bad matching rule".into());
                    }
                    if rest[1] == b"dn" {
                        return Err("AMBIGUOUS".into());
                    }
                    Ok(Filter::Ext { rule: Some(rest[1].to_vec()), attr: None, value, dn: true })
                }
                _ => Err("extensible without attr needs a matching rule".into()),
            }
        } else {
            if !valid_attrdesc(attr) {
                return Err("bad attribute description".into());
            }
            let a = Some(attr.to_vec());
            match rest.len() {
                0 => Ok(Filter::Ext { rule: None, attr: a, value, dn: false }),
                1 => {
                    if rest[0] == b"dn" {
                        Ok(Filter::Ext { rule: None, attr: a, value, dn: true })
                    } else if valid_oid(rest[0]) {
                        Ok(Filter::Ext { rule: Some(rest[0].to_vec()), attr: a, value, dn: false })
                    } else {
                        Err("bad matching rule".into())
                    }
                }
                2 => {
                    if rest[0] != b"dn" {
                        return Err("expected :dn".into());
                    }
                    if rest[1] == b"dn" {
                        return Err("AMBIGUOUS".into());
                    }
                    if !valid_oid(rest[1]) {
                        return Err("bad matching rule".into());
                    }
                    Ok(Filter::Ext { rule: Some(rest[1].to_vec()), attr: a, value, dn: true })
                }
                _ => Err("too many extensible components".into()),
            }
        }
    } else {
        let (attr, op) = match l.last() {
            Some(b'~') => (&l[..l.len() - 1], b'~'),
            Some(b'>') => (&l[..l.len() - 1], b'>'),
            Some(b'<') => (&l[..l.len() - 1], b'<'),
            _ => (l, b'='),
        };
        if !valid_attrdesc(attr) {
            return Err("bad or empty attribute description".into());
        }
        let a = attr.to_vec();
        if op != b'=' {
            if v.contains(&b'*') {
                return Err("raw * in value".into());
            }
            let val = unescape_value(v)?;
            return Ok(match op {
                b'~' => Filter::Approx(a, val),
                b'>' => Filter::Ge(a, val),
                _ => Filter::Le(a, val),
            });
        }
        if v == b"*" {
            return Ok(Filter::Present(a));
        }
        if !v.contains(&b'*') {
            return Ok(Filter::Eq(a, unescape_value(v)?));
        }
        let pieces: Vec<&[u8]> = v.split(|&b| b == b'*').collect();
        let n = pieces.len();
        let mut initial = None;
        let mut any = vec![];
        let mut fin = None;
        for (i, p) in pieces.iter().enumerate() {
            let u = unescape_value(p)?;
            if i == 0 {
                if !p.is_empty() {
                    initial = Some(u);
                }
            } else if i + 1 == n {
                if !p.is_empty() {
                    fin = Some(u);
                }
            } else {
                if p.is_empty() {
                    return Err("adjacent asterisks".into());
                }
                any.push(u);
            }
        }
        Ok(Filter::Sub { attr: a, initial, any, fin })
    }
}

// ---------------- printers ----------------

fn push_escaped(out: &mut Vec<u8>, b: u8, upper: bool) {
    let d = if upper { b"0123456789ABCDEF" } else { b"0123456789abcdef" };
    out.push(b'\\');
    out.push(d[(b >> 4) as usize]);
    out.push(d[(b & 15) as usize]);
}

/// Value printer. `choice`: None = canonical (escape only what must be escaped, lowercase),
/// Some(rng) = random legal escaping per byte.
fn print_value(out: &mut Vec<u8>, v: &[u8], rng: &mut Option<&mut Rng>) {
    for &b in v {
        if is_special(b) {
            let up = rng.as_mut().map(|r| r.bool()).unwrap_or(false);
            push_escaped(out, b, up);
        } else {
            let esc = rng.as_mut().map(|r| r.chance(1, 4)).unwrap_or(false);
            if esc {
                let up = rng.as_mut().map(|r| r.bool()).unwrap_or(false);
                push_escaped(out, b, up);
            } else {
                out.push(b);
            }
        }
    }
}

fn print_into(out: &mut Vec<u8>, f: &Filter, rng: &mut Option<&mut Rng>, top: bool) {
    // documented extension: top-level item may omit the parentheses
    let bare = top && !matches!(f, Filter::And(_) | Filter::Or(_) | Filter::Not(_)) && rng.as_mut().map(|r| r.chance(1, 5)).unwrap_or(false);
    if !bare {
        out.push(b'(');
    }
    match f {
        Filter::And(v) | Filter::Or(v) => {
            out.push(if matches!(f, Filter::And(_)) { b'&' } else { b'|' });
            for x in v {
                print_into(out, x, rng, false);
            }
        }
        Filter::Not(x) => {
            out.push(b'!');
            print_into(out, x, rng, false);
        }
        Filter::Eq(a, v) | Filter::Ge(a, v) | Filter::Le(a, v) | Filter::Approx(a, v) => {
            out.extend_from_slice(a);
            out.extend_from_slice(match f {
                Filter::Eq(..) => b"=" as &[u8],
                Filter::Ge(..) => b">=",
                Filter::Le(..) => b"<=",
                _ => b"~=",
            });
            print_value(out, v, rng);
        }
        Filter::Sub { attr, initial, any, fin } => {
            out.extend_from_slice(attr);
            out.push(b'=');
            if let Some(i) = initial {
                print_value(out, i, rng);
            }
            out.push(b'*');
            for a in any {
                print_value(out, a, rng);
                out.push(b'*');
            }
            if let Some(x) = fin {
                print_value(out, x, rng);
            }
        }
        Filter::Present(a) => {
            out.extend_from_slice(a);
            out.extend_from_slice(b"=*");
        }
        Filter::Ext { rule, attr, value, dn } => {
            if let Some(a) = attr {
                out.extend_from_slice(a);
            }
            if *dn {
                out.extend_from_slice(b":dn");
            }
            if let Some(r) = rule {
                out.push(b':');
                out.extend_from_slice(r);
            }
            out.extend_from_slice(b":=");
            print_value(out, value, rng);
        }
    }
    if !bare {
        out.push(b')');
    }
}

pub fn print_canonical(f: &Filter) -> Vec<u8> {
    let mut out = vec![];
    print_into(&mut out, f, &mut None, true);
    out
}

/// Random rendering that is valid UTF-8 (every byte >= 0x80 is escaped): usable through &str APIs.
pub fn print_random_ascii(f: &Filter, rng: &mut Rng) -> String {
    let raw = print_random(f, rng);
    let mut out = Vec::with_capacity(raw.len());
    for b in raw {
        if b >= 0x80 {
            push_escaped(&mut out, b, rng.bool());
        } else {
            out.push(b);
        }
    }
    String::from_utf8(out).expect("ascii")
}

pub fn print_random(f: &Filter, rng: &mut Rng) -> Vec<u8> {
    let mut out = vec![];
    print_into(&mut out, f, &mut Some(rng), true);
    out
}

/// Is the AST expressible / well-formed per RFC 4511+4515 (non-empty attrs, non-empty substring
/// pieces, at least one substring piece, ext has rule or attr)?
pub fn well_formed(f: &Filter) -> Result<(), String> {
    match f {
        Filter::And(v) | Filter::Or(v) => v.iter().try_for_each(well_formed),
        Filter::Not(x) => well_formed(x),
        Filter::Eq(a, _) | Filter::Ge(a, _) | Filter::Le(a, _) | Filter::Approx(a, _) | Filter::Present(a) => {
            if a.is_empty() {
                Err("empty attribute description".into())
            } else {
                Ok(())
            }
        }
        Filter::Sub { attr, initial, any, fin } => {
            if attr.is_empty() {
                return Err("empty attribute description".into());
            }
            if initial.is_none() && any.is_empty() && fin.is_none() {
                return Err("substring filter without substrings".into());
            }
            if initial.as_ref().map(|i| i.is_empty()).unwrap_or(false)
                || fin.as_ref().map(|i| i.is_empty()).unwrap_or(false)
                || any.iter().any(|a| a.is_empty())
            {
                return Err("empty substring piece".into());
            }
            Ok(())
        }
        Filter::Ext { rule, attr, .. } => {
            if rule.is_none() && attr.is_none() {
                return Err("extensible match with neither rule nor type".into());
            }
            if attr.as_ref().map(|a| a.is_empty()).unwrap_or(false) || rule.as_ref().map(|a| a.is_empty()).unwrap_or(false) {
                return Err("empty attribute description / rule".into());
            }
            Ok(())
        }
    }
}

/// "Equal up to escaping": map every `\xx` whose byte is not special to the raw byte, and
/// every other `\xx` to lowercase; a bare top-level item gets its parentheses.
pub fn normalize_escaping(s: &[u8]) -> Option<Vec<u8>> {
    let mut out = Vec::with_capacity(s.len() + 2);
    let bare = s.first() != Some(&b'(');
    if bare {
        out.push(b'(');
    }
    let mut i = 0;
    while i < s.len() {
        if s[i] == b'\\' {
            if i + 2 >= s.len() {
                return None;
            }
            let (h, l) = (hexval(s[i + 1])?, hexval(s[i + 2])?);
            let b = h << 4 | l;
            if is_special(b) {
                push_escaped(&mut out, b, false);
            } else {
                out.push(b);
            }
            i += 3;
        } else {
            out.push(s[i]);
            i += 1;
        }
    }
    if bare {
        out.push(b')');
    }
    Some(out)
}

// ---------------- generator ----------------

pub fn gen_descr(rng: &mut Rng) -> Vec<u8> {
    // include names that extend the keyword "dn"
    if rng.chance(1, 6) {
        return rng.pick(&[&b"dn"[..], b"dnx", b"dn-1", b"d", b"dnSubtreeMatch", b"dnQualifier", b"DN"]).to_vec();
    }
    let n = 1 + rng.usize(8);
    let mut s = vec![*rng.pick(b"abcdxyzABCOQ")];
    for _ in 1..n {
        s.push(*rng.pick(b"abcdnxyzABC0123456789-"));
    }
    s
}

pub fn gen_numericoid(rng: &mut Rng) -> Vec<u8> {
    let arcs = 2 + rng.usize(6);
    let mut s = vec![];
    for i in 0..arcs {
        if i > 0 {
            s.push(b'.');
        }
        let v = match rng.below(4) {
            0 => 0,
            1 => rng.below(10),
            2 => rng.below(1000),
            _ => rng.below(100_000_000),
        };
        s.extend_from_slice(v.to_string().as_bytes());
    }
    s
}

pub fn gen_oid(rng: &mut Rng) -> Vec<u8> {
    if rng.chance(1, 4) {
        gen_numericoid(rng)
    } else {
        gen_descr(rng)
    }
}

pub fn gen_attrdesc(rng: &mut Rng) -> Vec<u8> {
    let mut s = gen_oid(rng);
    // an attribute description literally "dn" before ":dn" is fine; keep it
    let nopt = match rng.below(6) {
        0 => 1,
        1 => 2,
        _ => 0,
    };
    for _ in 0..nopt {
        s.push(b';');
        let n = 1 + rng.usize(6);
        for _ in 0..n {
            s.push(*rng.pick(b"abcxyzbinary0123456789-"));
        }
    }
    s
}

pub fn gen_value(rng: &mut Rng, allow_empty: bool) -> Vec<u8> {
    let n = match rng.below(8) {
        0 => 0,
        1 => 1,
        2 => 2,
        3 => rng.usize(6),
        4 => rng.usize(40),
        _ => 1 + rng.usize(10),
    };
    let n = if n == 0 && !allow_empty { 1 } else { n };
    (0..n)
        .map(|_| match rng.below(6) {
            0 => *rng.pick(b"\0()*\\"),
            1 => rng.next() as u8,
            2 => *rng.pick(b" =:~<>&|!;,+\"#"),
            3 => 0x80 | (rng.next() as u8),
            _ => *rng.pick(b"abcdefghijklmnopqrstuvwxyz0123456789"),
        })
        .collect()
}

pub fn gen_rule(rng: &mut Rng) -> Vec<u8> {
    loop {
        let r = gen_oid(rng);
        if r != b"dn" {
            return r;
        }
    }
}

pub fn gen_item(rng: &mut Rng) -> Filter {
    match rng.below(9) {
        0 => Filter::Eq(gen_attrdesc(rng), gen_value(rng, true)),
        1 => Filter::Ge(gen_attrdesc(rng), gen_value(rng, true)),
        2 => Filter::Le(gen_attrdesc(rng), gen_value(rng, true)),
        3 => Filter::Approx(gen_attrdesc(rng), gen_value(rng, true)),
        4 => Filter::Present(gen_attrdesc(rng)),
        5 | 6 => loop {
            let initial = if rng.bool() { Some(gen_value(rng, false)) } else { None };
            let fin = if rng.bool() { Some(gen_value(rng, false)) } else { None };
            let nany = match rng.below(4) {
                0 | 1 => 0,
                2 => 1,
                _ => 1 + rng.usize(4),
            };
            let any: Vec<Vec<u8>> = (0..nany).map(|_| gen_value(rng, false)).collect();
            if initial.is_none() && fin.is_none() && any.is_empty() {
                continue; // that is the presence filter
            }
            break Filter::Sub { attr: gen_attrdesc(rng), initial, any, fin };
        },
        _ => {
            let dn = rng.bool();
            match rng.below(3) {
                0 => Filter::Ext { rule: Some(gen_rule(rng)), attr: None, value: gen_value(rng, true), dn },
                1 => Filter::Ext { rule: None, attr: Some(gen_attrdesc(rng)), value: gen_value(rng, true), dn },
                _ => Filter::Ext { rule: Some(gen_rule(rng)), attr: Some(gen_attrdesc(rng)), value: gen_value(rng, true), dn },
            }
        }
    }
}

pub fn gen_filter(rng: &mut Rng, depth: usize, width: usize) -> Filter {
    if depth == 0 || rng.chance(2, 5) {
        return gen_item(rng);
    }
    match rng.below(5) {
        0 | 1 => {
            let n = rng.usize(width + 1);
            Filter::And((0..n).map(|_| gen_filter(rng, depth - 1, width)).collect())
        }
        2 | 3 => {
            let n = rng.usize(width + 1);
            Filter::Or((0..n).map(|_| gen_filter(rng, depth - 1, width)).collect())
        }
        _ => Filter::Not(Box::new(gen_filter(rng, depth - 1, width))),
    }
}
