use serde_json::{json, Value};
use std::time::Instant;
use vh::report::{install_panic_hook, Ctx, Tier};

fn main() {
    let args: Vec<String> = std::env::args().collect();
    let mut id = String::new();
    let mut tier = Tier::Quick;
    let mut seed: u64 = 1;
    let mut out: Option<String> = None;
    let mut replay: Option<String> = None;
    let mut lane: Option<String> = None;
    let mut threads = std::thread::available_parallelism().map(|n| n.get()).unwrap_or(4);
    let mut scale = 1.0f64;
    let mut tiny = false;
    let mut child: Option<Vec<String>> = None;
    let mut i = 1;
    while i < args.len() {
        match args[i].as_str() {
            "--tier" => {
                i += 1;
                tier = if args[i] == "thorough" { Tier::Thorough } else { Tier::Quick };
            }
            "--seed" => {
                i += 1;
                seed = args[i].parse().unwrap_or(1);
            }
            "--out" => {
                i += 1;
                out = Some(args[i].clone());
            }
            "--replay" => {
                i += 1;
                replay = Some(args[i].clone());
            }
            "--lane" => {
                i += 1;
                lane = Some(args[i].clone());
            }
            "--threads" => {
                i += 1;
                threads = args[i].parse().unwrap_or(threads);
            }
            "--scale" => {
                i += 1;
                scale = args[i].parse().unwrap_or(1.0);
            }
            "--tiny" => tiny = true,
            "--child" => {
                child = Some(args[i + 1..].to_vec());
                break;
            }
            s if id.is_empty() => id = s.to_string(),
            s => {
                eprintln!("unknown argument {}", s);
                std::process::exit(2);
            }
        }
        i += 1;
    }
    if let Some(c) = child {
        // a child must not outlive the lane process that started it (a lane that is left behind by its
        // wall-clock guard, or killed by the driver's time limit, would otherwise leave spinning orphans)
        unsafe {
            libc::prctl(libc::PR_SET_PDEATHSIG, libc::SIGKILL);
        }
        std::process::exit(vh::lanes::child_main(&c));
    }
    install_panic_hook();
    let ctx = Ctx { tier, seed, threads, start: Instant::now(), scale, tiny, shard: None, lane_cap_s: None };
    if let Some(path) = replay {
        let text = std::fs::read_to_string(&path).expect("replay file");
        let v: Value = serde_json::from_str(&text).expect("replay json");
        let rep = vh::lanes::replay(&ctx, &id, &v);
        println!("{}", serde_json::to_string_pretty(&rep).unwrap());
        let n = rep["violations"].as_array().map(|a| a.len()).unwrap_or(0);
        std::process::exit(if n > 0 { 1 } else { 0 });
    }
    vh::report::start_spin_monitor(out.clone(), id.clone(), if tier == Tier::Quick { "quick".into() } else { "thorough".into() }, seed);
    let lanes = vh::lanes::run(&ctx, &id, lane.as_deref());
    let doc = json!({
        "property_id": id,
        "tier": if tier == Tier::Quick { "quick" } else { "thorough" },
        "seed": seed,
        "wall_s": ctx.start.elapsed().as_secs_f64(),
        "lanes": lanes,
    });
    let text = serde_json::to_string_pretty(&doc).unwrap();
    match out {
        Some(p) => std::fs::write(p, text).expect("write out"),
        None => println!("{}", text),
    }
}
