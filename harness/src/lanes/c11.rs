//! C11 — hostile or corrupt server bytes cannot crash or wedge the connection.
use crate::ber::{self, Node};
use crate::gen;
use crate::lanes::c03::plan_response;
use crate::msg::{resp_node, Auth, Req, Res, Resp};
use crate::prng::{fnv, Rng};
use crate::report::{case_rng, guarded, par_cases, Ctx, Report};
use crate::world::{self, connect, runtime, Caught};
use bytes::BytesMut;
use ldap3::Scope;
use serde_json::{json, Value};

// ---------------- corpus and mutations ----------------

fn corpus_message(rng: &mut Rng, id: i64) -> Node {
    let op = match rng.below(9) {
        0 => Req::Bind { version: 3, dn: vec![], auth: Auth::Simple(vec![]) },
        1 => Req::Search { base: vec![], scope: 0, deref: 0, size: 0, time: 0, types_only: false, filter: crate::filter_ref::Filter::Present(b"a".to_vec()), attrs: vec![] },
        2 => Req::Modify { dn: vec![], mods: vec![] },
        3 => Req::Add { dn: vec![], attrs: vec![] },
        4 => Req::Del(vec![]),
        5 => Req::ModDn { dn: vec![], rdn: vec![], delold: false, newsup: None },
        6 => Req::Compare { dn: vec![], attr: vec![], val: vec![] },
        _ => Req::Extended { name: vec![], val: None },
    };
    let plan = plan_response(rng, id, &op);
    let (r, c) = plan[rng.usize(plan.len())].clone();
    let c = if c.is_none() && rng.bool() { gen::gen_resp_controls(rng) } else { c };
    resp_node(id, &r, c.as_deref())
}

/// Paths to all nodes of a tree.
fn paths(n: &Node, cur: &mut Vec<usize>, out: &mut Vec<Vec<usize>>) {
    out.push(cur.clone());
    if let Node::C { kids, .. } = n {
        for (i, k) in kids.iter().enumerate() {
            cur.push(i);
            paths(k, cur, out);
            cur.pop();
        }
    }
}

fn node_at<'a>(n: &'a mut Node, path: &[usize]) -> &'a mut Node {
    let mut cur = n;
    for &i in path {
        cur = match cur {
            Node::C { kids, .. } => &mut kids[i],
            _ => unreachable!(),
        };
    }
    cur
}

/// One structural mutation of a tree. Returns a label.
fn mutate_tree(root: &mut Node, rng: &mut Rng) -> &'static str {
    let mut ps = vec![];
    paths(root, &mut vec![], &mut ps);
    let p = ps[rng.usize(ps.len())].clone();
    let kind = rng.below(9);
    if kind <= 1 && !p.is_empty() {
        // delete / duplicate within the parent
        let (parent, idx) = (&p[..p.len() - 1], p[p.len() - 1]);
        if let Node::C { kids, .. } = node_at(root, parent) {
            if kind == 0 {
                kids.remove(idx);
                return "element-deleted";
            } else {
                let c = kids[idx].clone();
                kids.insert(idx, c);
                return "element-duplicated";
            }
        }
    }
    let n = node_at(root, &p);
    match kind {
        2 => {
            match n {
                Node::P { class, .. } | Node::C { class, .. } => *class = (*class + 1 + rng.below(3) as u8) % 4,
            }
            "class-changed"
        }
        3 => {
            match n {
                Node::P { tag, .. } | Node::C { tag, .. } => *tag = rng.below(31) as u8,
            }
            "tag-changed"
        }
        4 => {
            // constructed <-> primitive
            let new = match &*n {
                Node::P { class, tag, data } => Node::C { class: *class, tag: *tag, kids: if data.is_empty() { vec![] } else { vec![ber::octets(data)] } },
                Node::C { class, tag, kids } => {
                    let mut d = vec![];
                    for k in kids {
                        d.extend_from_slice(&ber::encode_min(k));
                    }
                    Node::P { class: *class, tag: *tag, data: d }
                }
            };
            *n = new;
            "constructed-primitive-swapped"
        }
        5 => {
            match n {
                Node::P { data, .. } => data.clear(),
                Node::C { kids, .. } => kids.clear(),
            }
            "emptied"
        }
        6 => {
            if let Node::P { data, .. } = n {
                // widen / make negative / non-UTF-8
                *data = match rng.below(4) {
                    0 => vec![0xff; 1 + rng.usize(9)],
                    1 => vec![0x01, 0, 0, 0, 0, rng.next() as u8],
                    2 => vec![0x80],
                    _ => rng.bytes(rng.clone().usize(12)),
                };
                "primitive-content-replaced"
            } else {
                "noop"
            }
        }
        7 => {
            if let Node::C { kids, .. } = n {
                kids.reverse();
            }
            "children-reversed"
        }
        _ => {
            if let Node::C { kids, .. } = n {
                kids.push(Node::P { class: rng.below(4) as u8, tag: rng.below(31) as u8, data: rng.bytes(rng.clone().usize(5)) });
            }
            "element-appended"
        }
    }
}

/// Offsets of every length field: (offset of first length octet, number of length octets).
fn length_fields(b: &[u8], base: usize, out: &mut Vec<(usize, usize)>) {
    let mut off = 0;
    while off < b.len() {
        match ber::header(&b[off..]) {
            Ok((_, cons, _, hl, bl, _)) => {
                out.push((base + off + 1, hl - 1));
                if off + hl + bl > b.len() {
                    return;
                }
                if cons {
                    length_fields(&b[off + hl..off + hl + bl], base + off + hl, out);
                }
                off += hl + bl;
            }
            Err(_) => return,
        }
    }
}

/// Byte-level mutation of an encoded message. Returns a label.
fn mutate_bytes(b: &mut Vec<u8>, rng: &mut Rng) -> &'static str {
    let mut lf = vec![];
    length_fields(b, 0, &mut lf);
    match rng.below(8) {
        0 | 1 | 2 if !lf.is_empty() => {
            // inner or outer length +-1 / +-big
            let (off, n) = lf[rng.usize(lf.len())];
            let last = off + n - 1;
            let outer = off == 1;
            match rng.below(4) {
                0 => b[last] = b[last].wrapping_add(1),
                1 => b[last] = b[last].wrapping_sub(1),
                2 => b[last] = b[last].wrapping_add(*rng.pick(&[2u8, 16, 100, 127])),
                _ => {
                    if n == 1 {
                        b[off] = *rng.pick(&[0x7fu8, 0x80, 0x81, 0x84, 0x88, 0xff]);
                    } else {
                        b[off + 1] = rng.next() as u8;
                    }
                }
            }
            if outer { "outer-length-changed" } else { "inner-length-changed" }
        }
        3 => {
            let k = rng.usize(b.len() + 1);
            b.truncate(k);
            "truncated"
        }
        4 if !b.is_empty() => {
            let k = rng.usize(b.len());
            b[k] ^= 1 << rng.below(8);
            "bit-flipped"
        }
        5 if !b.is_empty() => {
            let k = rng.usize(b.len());
            b[k] = rng.next() as u8;
            "byte-replaced"
        }
        6 => {
            let k = rng.usize(b.len() + 1);
            let ins = rng.bytes(1 + rng.clone().usize(4));
            for (i, x) in ins.iter().enumerate() {
                b.insert(k + i, *x);
            }
            "bytes-inserted"
        }
        _ => {
            if b.len() > 2 {
                let k = rng.usize(b.len() - 1);
                b.remove(k);
            }
            "byte-deleted"
        }
    }
}

pub fn hostile_input(rng: &mut Rng, id: i64) -> (Vec<u8>, String) {
    match rng.below(10) {
        0 => {
            let l = rng.len_biased(64);
            (rng.bytes(l), "random-bytes".into())
        }
        1 => {
            // random bytes behind a plausible header
            let l = rng.usize(40);
            let mut v = vec![0x30, l as u8];
            v.extend_from_slice(&rng.bytes(l));
            (v, "random-sequence-body".into())
        }
        2 | 3 | 4 => {
            let mut n = corpus_message(rng, id);
            let label = mutate_tree(&mut n, rng);
            let mut label = label.to_string();
            if rng.chance(1, 4) {
                label = format!("{}+{}", label, mutate_tree(&mut n, rng));
            }
            (ber::encode_min(&n), format!("tree:{}", label))
        }
        5 if rng.chance(1, 6) => {
            // a valid message whose messageID INTEGER is padded beyond the eight octets a machine word holds: the value
            // is 2^(8k) * junk + id, outside 0..maxInt, so this is not an LDAPMessage (and certainly not one for `id`)
            let n = corpus_message(rng, id);
            let n = match n {
                Node::C { class, tag, mut kids } => {
                    let k = 9 + rng.usize(8);
                    let mut data = vec![0u8; k];
                    data[0] = 1 + rng.below(0x7e) as u8;
                    let idb = ber::int_content(id);
                    let off = k - idb.len();
                    data[off..].copy_from_slice(&idb);
                    if !kids.is_empty() {
                        kids[0] = Node::P { class: 0, tag: 2, data };
                    }
                    Node::C { class, tag, kids }
                }
                other => other,
            };
            (ber::encode_min(&n), "oversized-message-id".into())
        }
        5 | 6 | 7 => {
            let n = corpus_message(rng, id);
            let mut b = ber::encode_min(&n);
            let label = mutate_bytes(&mut b, rng);
            (b, format!("bytes:{}", label))
        }
        8 => {
            // hand-picked classics
            let v: &[&[u8]] = &[
                &[0x30, 0x00],
                &[0x30, 0x05, 0x04, 0x64, 0x01, 0x02, 0x03],
                &[0x30, 0x03, 0x02, 0x01, 0x01],
                &[0x30, 0x05, 0x02, 0x01, 0x01, 0x61, 0x00],
                &[0x30, 0x0c, 0x02, 0x01, 0x01, 0x61, 0x07, 0x0a, 0x01, 0x00, 0x04, 0x00, 0x04, 0x00, 0xa0],
                &[0x30, 0x84, 0x7f, 0xff, 0xff, 0xff],
                &[0x30, 0x88, 0xff, 0xff, 0xff, 0xff, 0xff, 0xff, 0xff, 0xff],
                &[0x30, 0x80, 0x02, 0x01, 0x01, 0x00, 0x00],
                &[0x02, 0x01, 0x01],
                &[0x04, 0x00],
                &[0x30, 0x06, 0x02, 0x00, 0x61, 0x02, 0x0a, 0x00],
                &[0x30, 0x0a, 0x02, 0x01, 0x02, 0x65, 0x05, 0x0a, 0x01, 0x00, 0x04, 0x00],
                &[0x30, 0x09, 0x02, 0x01, 0x02, 0x65, 0x04, 0x0a, 0x00, 0x04, 0x00],
                &[0x30, 0x0e, 0x02, 0x01, 0x01, 0x61, 0x07, 0x0a, 0x01, 0x00, 0x04, 0x00, 0x04, 0x00, 0xa0, 0x00],
                &[0x30, 0x14, 0x02, 0x01, 0x01, 0x61, 0x07, 0x0a, 0x01, 0x00, 0x04, 0x00, 0x04, 0x00, 0xa0, 0x06, 0x30, 0x04, 0x04, 0x00, 0x01, 0x00],
                &[0x30, 0x13, 0x02, 0x01, 0x01, 0x61, 0x07, 0x0a, 0x01, 0x00, 0x04, 0x00, 0x04, 0x00, 0xa0, 0x05, 0x30, 0x03, 0x21, 0x01, 0xff],
                &[0x30, 0x07, 0x02, 0x01, 0x02, 0x04, 0x02, 0x41, 0x41],
                &[0x30, 0x0c, 0x02, 0x01, 0x02, 0x67, 0x07, 0x0a, 0x01, 0x00, 0x04, 0x00, 0x04, 0x00],
            ];
            (v[rng.usize(v.len())].to_vec(), "classic".into())
        }
        _ => {
            // moderately deep nesting
            let depth = 2 + rng.usize(60);
            let mut n = Node::P { class: 0, tag: 4, data: vec![] };
            for _ in 0..depth {
                n = Node::C { class: 0, tag: 16, kids: vec![n] };
            }
            (ber::encode_min(&n), "nested".into())
        }
    }
}

// ---------------- decoder lane (hook H4) ----------------

fn judge_decoder(input: &[u8], label: &str, rep: &mut Report, replay: Value) {
    let mut buf = BytesMut::from(input);
    let r = guarded(|| ldap3::verif_decode(&mut buf).map(|o| o.is_some()).map_err(|e| e.to_string()));
    let cls = label.split(':').last().unwrap_or(label).to_string();
    match r {
        Err(p) => {
            rep.violation(format!("C11:decoder-panic@{}", p.site()), format!("input {} ({}): {:?}", ber::hex(&input[..input.len().min(80)]), label, p), replay);
        }
        Ok(Ok(false)) => {
            // "need more bytes": legitimate only while the outer frame is incomplete
            let tagnum = input.first().map(|b| b & 0x1f).unwrap_or(0);
            if tagnum != 31 {
                if let Some(total) = ber::outer_complete(input) {
                    rep.violation(
                        format!("C11:wedge:complete-frame-neither-delivered-nor-rejected:{}", wedge_class(input)),
                        format!("the outer TLV announces {} bytes and {} are buffered, yet the decoder asks for more; input {} ({})", total, input.len(), ber::hex(&input[..input.len().min(80)]), label),
                        replay,
                    );
                }
            }
            if &buf[..] != input {
                rep.count("buffer_changed_on_need_more", 1);
            }
            rep.count("need_more", 1);
        }
        Ok(Ok(true)) => {
            if let Some(t) = ber::outer_complete(input) {
                if let Err(ber::DecErr::Bad("inner element overruns its container")) = ber::decode_exact(&input[..t]) {
                    rep.violation("C11:malformed-frame-delivered:inner-element-overruns-its-container", format!("input {} ({}): delivered as a message although an inner element does not fit into its container", ber::hex(&input[..input.len().min(80)]), label), replay);
                }
            }
            rep.count("delivered", 1)
        }
        Ok(Err(_)) => rep.count("rejected", 1),
    }
    rep.count(&format!("input_{}", cls), 1);
}

fn wedge_class(input: &[u8]) -> &'static str {
    // why would a complete frame look incomplete? an inner element overrunning its container
    match ber::decode(input) {
        Err(ber::DecErr::Bad("inner element overruns its container")) => "inner-length-exceeds-outer",
        Err(_) => "other-malformed",
        Ok(_) => "well-formed",
    }
}

/// Run a lane in child processes (one shard each). Hostile input may abort the whole process
/// (allocation failure, stack overflow) where no catch_unwind helps; a child killed by a signal
/// is itself the violation, and the other shards' reports are still collected.
fn sharded(ctx: &Ctx, lane: &str) -> Report {
    let exe = std::env::current_exe().expect("exe");
    let shards = ctx.threads.clamp(1, 16) as u64;
    let dir = std::env::temp_dir();
    let mut kids = vec![];
    for s in 0..shards {
        let out = dir.join(format!("vh-c11-{}-{}-{}.json", std::process::id(), lane, s));
        let _ = std::fs::remove_file(&out);
        let child = std::process::Command::new(&exe)
            .args(["--child", "c11-shard", lane, if ctx.quick() { "quick" } else { "thorough" }, &ctx.seed.to_string(), &s.to_string(), &shards.to_string(), out.to_str().unwrap(), &ctx.scale.to_string()])
            .stdout(std::process::Stdio::null())
            .stderr(std::process::Stdio::piped())
            .spawn();
        kids.push((s, out, child));
    }
    let mut rep = Report::new();
    for (s, out, child) in kids {
        let outp = match child {
            Ok(c) => c.wait_with_output(),
            Err(e) => {
                rep.inconclusive(format!("cannot spawn shard {}: {}", s, e));
                continue;
            }
        };
        use std::os::unix::process::ExitStatusExt;
        match outp {
            Ok(o) => {
                if let Some(sig) = o.status.signal() {
                    let err = String::from_utf8_lossy(&o.stderr);
                    let last: String = err.lines().rev().take(3).collect::<Vec<_>>().join(" | ").chars().take(300).collect();
                    rep.violation(
                        format!("C11:process-killed-by-signal-{}-while-handling-hostile-input:{}", sig, lane),
                        format!("lane {} shard {}/{} (seed {}): the process died with signal {} ({}); no catch_unwind can intercept this", lane, s, shards, ctx.seed, sig, last),
                        json!({"lane":lane,"shard":s,"shards":shards}),
                    );
                } else if let Ok(text) = std::fs::read_to_string(&out) {
                    if let Ok(v) = serde_json::from_str::<Value>(&text) {
                        rep.merge(Report::from_json(&v));
                    } else {
                        rep.harness_error(format!("shard {} wrote an unreadable report", s));
                    }
                } else {
                    rep.harness_error(format!("shard {} exited with {:?} without a report", s, o.status.code()));
                }
            }
            Err(e) => rep.inconclusive(format!("shard {}: {}", s, e)),
        }
        let _ = std::fs::remove_file(&out);
    }
    rep
}

pub fn shard_child(args: &[String]) -> i32 {
    // lane tier seed shard nshards out scale
    if args.len() < 7 {
        return 2;
    }
    crate::report::install_panic_hook();
    let ctx = Ctx {
        tier: if args[1] == "thorough" { crate::report::Tier::Thorough } else { crate::report::Tier::Quick },
        seed: args[2].parse().unwrap_or(1),
        threads: 1,
        start: std::time::Instant::now(),
        scale: args[6].parse().unwrap_or(1.0),
        tiny: false,
        shard: Some((args[3].parse().unwrap_or(0), args[4].parse().unwrap_or(1))),
        lane_cap_s: Some((std::env::var("VERIF_THOROUGH_SECS").ok().and_then(|v| v.parse::<u64>().ok()).unwrap_or(600) / 3).max(20)),
    };
    if args[0] == "decoder" {
        let out = args[5].clone();
        std::thread::spawn(move || loop {
            std::thread::sleep(std::time::Duration::from_millis(500));
            let stuck = match &*CURRENT.lock().unwrap() {
                Some((i, t0, input, label)) if t0.elapsed().as_secs() >= 20 => Some((*i, input.clone(), label.clone())),
                _ => None,
            };
            if let Some((i, input, label)) = stuck {
                let mut rep = Report::new();
                rep.violation(
                    "C11:decoder:busy-for-20s-on-one-complete-input(neither-delivered-nor-rejected)",
                    format!("{} octets ({}): {}{}", input.len(), label, ber::hex(&input[..input.len().min(160)]), if input.len() > 160 { "..." } else { "" }),
                    json!({"lane":"decoder","case":i,"input_hex":ber::hex(&input[..input.len().min(300)])}),
                );
                rep.case(Some(fnv(&input)));
                let _ = std::fs::write(&out, serde_json::to_string(&rep.to_json("decoder")).unwrap_or_default());
                std::process::exit(0);
            }
        });
    }
    let rep = match args[0].as_str() {
        "decoder" => decoder_inner(&ctx),
        _ => driver_inner(&ctx),
    };
    let j = rep.to_json(&args[0]);
    if std::fs::write(&args[5], serde_json::to_string(&j).unwrap_or_default()).is_err() {
        return 3;
    }
    0
}

pub fn decoder(ctx: &Ctx) -> Report {
    if ctx.tiny {
        return decoder_inner(ctx);
    }
    sharded(ctx, "decoder")
}

/// The input a shard child is decoding right now, for the wall-clock monitor of `shard_child`: a decode that
/// is still running after 20 s on at most a megabyte of input will not end in any useful time.
static CURRENT: std::sync::Mutex<Option<(u64, std::time::Instant, Vec<u8>, String)>> = std::sync::Mutex::new(None);

fn decoder_inner(ctx: &Ctx) -> Report {
    let n = ctx.n(4_000_000, 2_000_000_000);
    let watched = ctx.shard.is_some();
    par_cases(ctx, "decoder", n, ctx.secs(30, 900), |i, rng, rep| {
        let (input, label) = hostile_input(rng, 1 + rng.clone().below(1000) as i64);
        if watched {
            *CURRENT.lock().unwrap() = Some((i, std::time::Instant::now(), input.clone(), label.clone()));
        }
        judge_decoder(&input, &label, rep, json!({"lane":"decoder","case":i,"input_hex":ber::hex(&input[..input.len().min(300)])}));
        if watched {
            *CURRENT.lock().unwrap() = None;
        }
        if i < 3 {
            rep.sample(json!({"lane":"decoder","case":i,"input_hex":ber::hex(&input[..input.len().min(80)]),"kind":label}));
        }
        rep.case(Some(fnv(&input)));
    })
}

// ---------------- driver lane ----------------

#[derive(Debug, Default)]
pub struct DriverObs {
    pub bind: String,
    pub stream: Vec<String>,
    pub driver: String,
    pub driver_panic: Option<String>,
    pub caller_panics: Vec<String>,
    /// had the pending bind already been resolved after the hostile frame and a quiescence barrier,
    /// i.e. before anything else (valid follow-up, EOF) was sent?
    pub bind_resolved_before_anything_else: bool,
    /// events (items, end, error) the search stream had seen before / after the hostile frame
    pub stream_events_before: usize,
    pub stream_events_after: usize,
}

pub fn envelope_class(input: &[u8]) -> &'static str {
    // narrow definition of "not an LDAPMessage envelope"
    match ber::decode_exact(input) {
        // an inner element that runs past the end of its container: the bytes cannot be read as BER
        // at all, whatever the outer header says
        Err(ber::DecErr::Bad("inner element overruns its container")) => "not-an-envelope",
        Err(_) => "malformed-ber",
        Ok((n, _)) => match &n {
            Node::C { class: 0, tag: 16, kids } => {
                if kids.len() < 2 {
                    return "not-an-envelope";
                }
                match &kids[0] {
                    Node::P { class: 0, tag: 2, data } => match ber::int_value(data) {
                        Some(v) if (0..=i32::MAX as i64).contains(&v) => "envelope",
                        _ => "not-an-envelope",
                    },
                    _ => "not-an-envelope",
                }
            }
            _ => "not-an-envelope",
        },
    }
}

fn run_driver_case(i: u64, rng: &mut Rng, rep: &mut Report, forced: Option<Vec<u8>>, verbose: bool) {
    let (obs, input, label, target_id) = observe_driver_case(rng, forced);
    judge_driver_case(i, rep, &obs, &input, &label, target_id, verbose)
}

/// Runs one hostile frame against a connection with a bind pending on ID 1 and a search on ID 2 and
/// reports what driver and callers did (also used by C04, which judges the callers).
pub fn observe_driver_case(rng: &mut Rng, forced: Option<Vec<u8>>) -> (DriverObs, Vec<u8>, String, i64) {
    let target_id = if rng.bool() { 1 } else { 2 };
    let (input, label) = match forced {
        Some(f) => (f, "replayed".to_string()),
        None => hostile_input(rng, target_id),
    };
    let pre_entries = rng.usize(3);
    let follow_with_valid = rng.bool();
    let rt = runtime(rng.next());
    let input2 = input.clone();
    let obs = rt.block_on(async move {
        let c = connect();
        let mut server = c.server;
        let mut l1 = c.ldap.clone();
        let mut l2 = c.ldap.clone();
        drop(c.ldap);
        // ID 1: a pending bind; ID 2: a pending search
        let t1 = tokio::spawn(async move {
            match world::watchdog(Caught::new(l1.simple_bind("cn=x", "pw"))).await {
                Ok(Ok(Ok(r))) => format!("Ok(rc={})", r.rc),
                Ok(Ok(Err(e))) => format!("Err({})", world::err_class(&e)),
                Ok(Err(p)) => format!("Panic({})", p.site()),
                Err(()) => "Hung".into(),
            }
        });
        let w1 = server.request().await;
        let stream_events = std::sync::Arc::new(std::sync::atomic::AtomicUsize::new(0));
        let se2 = stream_events.clone();
        let t2 = tokio::spawn(async move {
            let mut evs = vec![];
            let bump = move || {
                se2.fetch_add(1, std::sync::atomic::Ordering::SeqCst);
            };
            let st = world::watchdog(Caught::new(l2.streaming_search("dc=x", Scope::Subtree, "(a=b)", vec!["*"]))).await;
            let mut st = match st {
                Ok(Ok(Ok(s))) => s,
                Ok(Ok(Err(e))) => return vec![format!("start:Err({})", world::err_class(&e))],
                Ok(Err(p)) => return vec![format!("start:Panic({})", p.site())],
                Err(()) => return vec!["start:Hung".into()],
            };
            loop {
                match world::watchdog(Caught::new(st.next())).await {
                    Ok(Ok(Ok(Some(_)))) => {
                        bump();
                        evs.push("item".to_string())
                    }
                    Ok(Ok(Ok(None))) => {
                        evs.push("end".into());
                        break;
                    }
                    Ok(Ok(Err(e))) => {
                        evs.push(format!("Err({})", world::err_class(&e)));
                        break;
                    }
                    Ok(Err(p)) => {
                        evs.push(format!("Panic({})", p.site()));
                        break;
                    }
                    Err(()) => {
                        evs.push("Hung".into());
                        break;
                    }
                }
            }
            match world::watchdog(Caught::new(st.finish())).await {
                Ok(Ok(r)) => evs.push(format!("finish(rc={})", r.rc)),
                Ok(Err(p)) => evs.push(format!("finish:Panic({})", p.site())),
                Err(()) => evs.push("finish:Hung".into()),
            }
            evs
        });
        let w2 = server.request().await;
        let _ = (w1, w2);
        for k in 0..pre_entries {
            server.send(&ber::encode_min(&resp_node(2, &Resp::Entry { dn: format!("e={}", k).into_bytes(), attrs: vec![] }, None)));
        }
        world::settle().await;
        let ev_before = stream_events.load(std::sync::atomic::Ordering::SeqCst);
        server.send(&input2);
        world::settle().await;
        let resolved_early = t1.is_finished();
        let ev_after = stream_events.load(std::sync::atomic::Ordering::SeqCst) + if t2.is_finished() { 1 } else { 0 };
        if follow_with_valid {
            server.send(&ber::encode_min(&resp_node(1, &Resp::Bind { res: Res::ok("ok"), sasl: None }, None)));
            server.send(&ber::encode_min(&resp_node(2, &Resp::Done(Res::ok("done")), None)));
            world::settle().await;
        }
        server.eof();
        let bind = t1.await.unwrap_or_else(|_| "task-died".into());
        let stream = t2.await.unwrap_or_else(|_| vec!["task-died".into()]);
        let d = world::watchdog(c.driver).await;
        let mut o = DriverObs { bind, stream, bind_resolved_before_anything_else: resolved_early, stream_events_before: ev_before, stream_events_after: ev_after, ..Default::default() };
        match d {
            Ok(Ok(Ok(Ok(())))) => o.driver = "Ok".into(),
            Ok(Ok(Ok(Err(e)))) => o.driver = format!("Err({})", e),
            Ok(Ok(Err(p))) => {
                o.driver = "Panic".into();
                o.driver_panic = Some(p.site());
            }
            Ok(Err(_)) => o.driver = "task-died".into(),
            Err(()) => o.driver = "Hung".into(),
        }
        o
    });
    (obs, input, label, target_id)
}

fn judge_driver_case(i: u64, rep: &mut Report, obs: &DriverObs, input: &[u8], label: &str, target_id: i64, verbose: bool) {
    let replay = json!({"lane":"driver","case":i,"input_hex":ber::hex(&input[..input.len().min(600)])});
    let cls = label.split(':').last().unwrap_or(&label).to_string();
    if let Some(site) = &obs.driver_panic {
        rep.violation(format!("C11:driver-panic@{}", site), format!("frame {} ({}) with a bind pending on ID 1 and a search on ID 2: drive() panicked; bind {:?} stream {:?}", ber::hex(&input[..input.len().min(80)]), label, obs.bind, obs.stream), replay.clone());
    }
    if obs.driver == "Hung" {
        rep.violation("C11:driver-never-returns", format!("frame {} ({})", ber::hex(&input[..input.len().min(80)]), label), replay.clone());
    }
    let hung = obs.bind == "Hung" || obs.stream.iter().any(|s| s.contains("Hung"));
    if hung && obs.driver_panic.is_none() {
        rep.violation("C11:pending-operation-never-resolved", format!("frame {} ({}): bind {:?} stream {:?} driver {}", ber::hex(&input[..input.len().min(80)]), label, obs.bind, obs.stream, obs.driver), replay.clone());
    }
    // non-envelope input must end the connection with an error every pending operation observes
    let complete = ber::outer_complete(&input).map(|t| t == input.len()).unwrap_or(false);
    if complete && envelope_class(&input) == "not-an-envelope" && obs.driver_panic.is_none() {
        let bind_err = obs.bind.starts_with("Err(");
        let stream_err = obs.stream.iter().any(|s| s.starts_with("Err(") || s.starts_with("start:Err("));
        if !obs.bind_resolved_before_anything_else {
            // the frame is complete by its own outer length: it has to be rejected now, not when (if ever) more bytes arrive
            rep.violation("C11:wedge:complete-non-envelope-frame-not-rejected-until-more-input-arrives", format!("frame {} ({}): the pending bind was still waiting after the frame and a quiescence barrier; later: driver {} bind {}", ber::hex(&input[..input.len().min(80)]), label, obs.driver, obs.bind), replay.clone());
        }
        if !obs.driver.starts_with("Err(") || !bind_err || !stream_err {
            rep.violation("C11:non-envelope-input-did-not-end-the-connection-with-an-error", format!("frame {} ({}): driver {} bind {} stream {:?}", ber::hex(&input[..input.len().min(80)]), label, obs.driver, obs.bind, obs.stream), replay.clone());
        }
        rep.count("non_envelope_frames", 1);
    }
    if complete && envelope_class(&input) == "envelope" && obs.driver_panic.is_none() {
        let id = match ber::decode_exact(&input) {
            Ok((Node::C { kids, .. }, _)) => match kids.first() {
                Some(Node::P { data, .. }) => ber::int_value(data).unwrap_or(-1),
                _ => -1,
            },
            _ => -1,
        };
        let swallowed = match id {
            1 => !obs.bind_resolved_before_anything_else,
            2 => !obs.bind_resolved_before_anything_else && obs.stream_events_after <= obs.stream_events_before,
            _ => false,
        };
        if swallowed {
            rep.violation("C11:complete-frame-for-a-pending-operation-neither-delivered-nor-rejected", format!("frame {} ({}) addressed to the pending {}: after a quiescence barrier the operation had seen nothing and the connection was still up; later: driver {} bind {} stream {:?}", ber::hex(&input[..input.len().min(80)]), label, if id == 1 { "bind" } else { "search" }, obs.driver, obs.bind, obs.stream), replay.clone());
        }
        rep.count("well_formed_envelopes_for_a_pending_operation", if id == 1 || id == 2 { 1 } else { 0 });
    }
    for s in std::iter::once(&obs.bind).chain(obs.stream.iter()) {
        if s.contains("Panic(") {
            rep.count("caller_side_panics_observed(not judged: the property speaks of the driver)", 1);
            rep.distinct("caller_side_panic_sites", fnv(s.as_bytes()));
        }
    }
    rep.count(&format!("driver_{}", obs.driver.split('(').next().unwrap_or("?")), 1);
    rep.count(&format!("input_{}", cls), 1);
    if verbose {
        println!("input {} ({}) -> {:?}", ber::hex(&input), label, obs);
    }
    if i < 3 {
        rep.sample(json!({"lane":"driver","case":i,"frame_hex":ber::hex(&input[..input.len().min(80)]),"kind":label,"driver":obs.driver,"bind":obs.bind,"stream":obs.stream}));
    }
    rep.case(Some(fnv(&input) ^ target_id as u64));
}

pub fn driver(ctx: &Ctx) -> Report {
    if ctx.tiny {
        return driver_inner(ctx);
    }
    sharded(ctx, "driver")
}

fn driver_inner(ctx: &Ctx) -> Report {
    let n = ctx.n(300_000, 200_000_000);
    par_cases(ctx, "driver", n, ctx.secs(40, 900), |i, rng, rep| run_driver_case(i, rng, rep, None, false))
}

// ---------------- stack lane (subprocess) ----------------

/// Child: decode (and drop) a nested input of the given depth on a thread with tokio's default
/// 2 MiB worker stack; then push it through a real connection driver. Exit 0 = survived.
pub fn stack_child(depth: usize, shape: &str) -> i32 {
    // lengths bottom-up, then headers outermost first (linear time)
    let ident: u8 = match shape {
        "ctx" => 0xa0,
        "set" => 0x31,
        _ => 0x30,
    };
    let mut headers: Vec<Vec<u8>> = Vec::with_capacity(depth);
    let mut inner_len = 0usize;
    for _ in 0..depth {
        let mut hdr = vec![ident];
        if inner_len < 128 {
            hdr.push(inner_len as u8);
        } else {
            let mut o = vec![];
            let mut x = inner_len;
            while x > 0 {
                o.push((x & 0xff) as u8);
                x >>= 8;
            }
            o.reverse();
            hdr.push(0x80 | o.len() as u8);
            hdr.extend_from_slice(&o);
        }
        inner_len += hdr.len();
        headers.push(hdr);
    }
    let mut bytes: Vec<u8> = Vec::with_capacity(inner_len);
    for h in headers.iter().rev() {
        bytes.extend_from_slice(h);
    }
    let total = bytes.len();
    let b2 = bytes.clone();
    let h = std::thread::Builder::new().stack_size(2 << 20).spawn(move || {
        let mut buf = BytesMut::from(&b2[..]);
        let r = ldap3::verif_decode(&mut buf);
        match r {
            Ok(Some(_)) => 0,
            Ok(None) => 3,
            Err(_) => 0,
        }
    });
    let code = match h {
        Ok(h) => h.join().unwrap_or(4),
        Err(_) => return 5,
    };
    // through a real driver on a (default 2 MiB worker stack) multi-thread runtime
    let rt = match tokio::runtime::Builder::new_multi_thread().worker_threads(1).enable_time().build() {
        Ok(rt) => rt,
        Err(_) => return 5,
    };
    let code2 = rt.block_on(async move {
        let (client, mut server) = crate::pipe::pair();
        let (conn, mut ldap) = ldap3::LdapConnAsync::verif_from_io(Box::new(client));
        let d = tokio::spawn(async move { conn.drive().await.is_ok() });
        let op = tokio::spawn(async move { ldap.simple_bind("", "").await.is_ok() });
        let _ = server.request().await;
        server.send(&bytes);
        server.eof();
        let _ = op.await;
        let _ = d.await;
        0
    });
    eprintln!("depth {} shape {} bytes {} -> {} {}", depth, shape, total, code, code2);
    if code == 3 { 3 } else { 0 }
}

pub fn stack(ctx: &Ctx) -> Report {
    let mut rep = Report::new();
    let exe = std::env::current_exe().expect("exe");
    let depths: Vec<usize> = if ctx.tiny { vec![10, 100] } else if ctx.quick() { vec![10, 100, 1000, 3000, 10_000, 50_000, 200_000] } else { vec![10, 100, 300, 1000, 2000, 3000, 5000, 10_000, 30_000, 100_000, 200_000, 250_000] };
    let mut wedged = 0;
    for shape in ["seq", "ctx", "set"] {
        let mut first_fail: Option<(usize, String)> = None;
        for &d in &depths {
            // (a probe that is still running after a minute is killed: what keeps it busy is for the decoder lane
            // to name; here it only means "no stack verdict for this depth")
            let out = std::process::Command::new("timeout").args(["-s", "KILL", "60"]).arg(&exe).args(["--child", "c11-stack", &d.to_string(), shape]).output();
            rep.count("stack_probes", 1);
            if let Ok(o) = &out {
                use std::os::unix::process::ExitStatusExt;
                if o.status.code() == Some(137) || (o.status.signal() == Some(9)) {
                    wedged += 1;
                    rep.inconclusive(format!("stack probe depth {} shape {} was still running after 60 s and was killed", d, shape));
                    rep.case(None);
                    if wedged >= 2 {
                        rep.inconclusive("two stack probes in a row did not end: the remaining probes were skipped".to_string());
                        return rep;
                    }
                    continue;
                }
            }
            match out {
                Err(e) => {
                    rep.inconclusive(format!("cannot spawn child: {}", e));
                    continue;
                }
                Ok(o) => {
                    use std::os::unix::process::ExitStatusExt;
                    if let Some(sig) = o.status.signal() {
                        if first_fail.is_none() {
                            first_fail = Some((d, format!("killed by signal {} ({})", sig, String::from_utf8_lossy(&o.stderr).lines().last().unwrap_or("").chars().take(120).collect::<String>())));
                        }
                    } else if o.status.code() == Some(3) {
                        rep.violation("C11:wedge:nested-frame-complete-but-decoder-waits", format!("depth {} shape {}", d, shape), json!({"lane":"stack","depth":d,"shape":shape}));
                    } else if o.status.code() == Some(5) {
                        rep.inconclusive("child could not create thread/runtime");
                    }
                    rep.max("max_depth_probed", d as u64);
                }
            }
            rep.case(Some(fnv(format!("{}{}", shape, d).as_bytes())));
        }
        if let Some((d, why)) = first_fail {
            rep.violation("C11:stack-overflow:nested-input-kills-the-process", format!("shape {}: nesting depth {} (about {} KB of input): child {}", shape, d, d * 4 / 1024, why), json!({"lane":"stack","depth":d,"shape":shape}));
        }
    }
    rep.sample(json!({"lane":"stack","depths":depths,"shapes":["seq","ctx","set"],"note":"each probe is a child process decoding and driving a nested TLV on 2 MiB thread stacks"}));
    rep
}

pub fn replay(ctx: &Ctx, v: &Value) -> Report {
    let mut rep = Report::new();
    let lane = v["lane"].as_str().unwrap_or("decoder");
    match lane {
        "stack" => {
            let d = v["depth"].as_u64().unwrap_or(1000) as usize;
            let shape = v["shape"].as_str().unwrap_or("seq");
            let exe = std::env::current_exe().expect("exe");
            let out = std::process::Command::new(&exe).args(["--child", "c11-stack", &d.to_string(), shape]).output();
            println!("{:?}", out.map(|o| o.status));
        }
        "driver" => {
            let i = v["case"].as_u64().unwrap_or(0);
            let mut rng = case_rng(ctx.seed, "driver", i);
            let forced = v["input_hex"].as_str().map(ber::unhex);
            // keep rng in step with the original case: target id draw + generation happen first
            let _ = forced.as_ref();
            run_driver_case(i, &mut rng, &mut rep, None, true);
        }
        _ => {
            if let Some(h) = v["input_hex"].as_str() {
                let input = ber::unhex(h);
                judge_decoder(&input, "replayed", &mut rep, v.clone());
                rep.case(Some(fnv(&input)));
            }
        }
    }
    rep
}

// ---------------- hostile answers while a connection is being set up ----------------

/// The driver also runs while `LdapConnSettings::set_starttls(true)` negotiates (its single-operation
/// mode).  A server that answers the StartTLS request with bytes that are not a well-formed
/// LDAPMessage and then stays silent, socket open, must make connection setup fail (the pending
/// StartTLS operation observes the decoding error); it may not leave setup waiting.  Real loopback
/// TCP; "still pending" is believed only after a second attempt, alone, with a 40 s guard.
pub fn starttls_garbage(ctx: &Ctx) -> Report {
    use crate::lanes::starttls::{run, Got, Refusal};
    use crate::msg::Res;
    let mut rep = Report::new();
    let rt = tokio::runtime::Builder::new_multi_thread().worker_threads(2).enable_all().build().expect("rt");
    let mut rng = case_rng(ctx.seed, "starttls_garbage", 0);
    let mut answers: Vec<(Vec<u8>, String)> = vec![
        (vec![0x30, 0x0c, 0x02, 0x01, 0x01, 0x78, 0x0a, 0x0a, 0x01, 0x00, 0x04, 0x00, 0x04, 0x00], "inflated inner length".into()),
        (vec![0x04, 0x03, 0x01, 0x02, 0x03], "not a SEQUENCE".into()),
        (vec![0x30, 0x00], "empty envelope".into()),
        (vec![0x30, 0x03, 0x02, 0x01, 0x01], "message ID only".into()),
        (vec![0x30, 0x05, 0x02, 0x01, 0xff, 0x78, 0x00], "negative message ID".into()),
        (vec![0x30, 0x80, 0x02, 0x01, 0x01, 0x00, 0x00], "indefinite length".into()),
        (vec![0x16, 0x03, 0x01, 0x00, 0x02, 0xff, 0xff], "a TLS record instead of an answer".into()),
    ];
    let extra = if ctx.tiny { 0 } else { ctx.n(10, 400) };
    for _ in 0..extra {
        let (b, label) = hostile_input(&mut rng, 1);
        // only inputs that are complete by their own outer length and not an envelope: anything else
        // legitimately keeps the decoder waiting for more bytes
        if crate::ber::outer_complete(&b).is_some() && envelope_class(&b) == "not-an-envelope" {
            answers.push((b, label));
        }
    }
    let mut hung = false;
    for (k, (bytes, label)) in answers.iter().enumerate() {
        if hung {
            break;
        }
        let refusal = Refusal { strays: vec![], res: Res::code(0, ""), name: None, split: k % 2 == 1, raw_answer: Some(bytes.clone()) };
        let replay = json!({"lane":"starttls_garbage","answer":crate::ber::hex(&bytes[..bytes.len().min(64)]),"label":label});
        match run(&rt, &refusal) {
            Err(e) => rep.inconclusive(format!("starttls_garbage: {}", e)),
            Ok(None) => rep.inconclusive("starttls_garbage: first attempt expired on the wall clock, the retry passed".to_string()),
            Ok(Some(Got::Hang)) => {
                hung = true;
                rep.violation("C11:starttls-setup:undecodable-answer-leaves-setup-waiting", format!("answer {} ({}), then silence with the socket open: with_settings still pending after 8 s and, alone, after 40 s", crate::ber::hex(&bytes[..bytes.len().min(64)]), label), replay)
            }
            Ok(Some(Got::Established)) => rep.violation("C11:starttls-setup:undecodable-answer-accepted", format!("answer {} ({})", crate::ber::hex(&bytes[..bytes.len().min(64)]), label), replay),
            Ok(Some(Got::OtherErr(e))) if e.contains("panic") => rep.violation("C11:starttls-setup:panic", format!("answer {} ({}): {}", crate::ber::hex(&bytes[..bytes.len().min(64)]), label, e), replay),
            Ok(Some(_)) => rep.count("undecodable_starttls_answers_that_failed_the_setup", 1),
        }
        rep.case(Some(fnv(bytes)));
    }
    rt.shutdown_background();
    rep.sample(json!({"lane":"starttls_garbage","fixed_answers":answers.iter().take(7).map(|a| a.1.clone()).collect::<Vec<_>>()}));
    rep
}

// ---------------- undecodable input on a connection with nothing pending ----------------

/// "Ends the connection" does not depend on somebody waiting: bytes that are complete by their own
/// outer length and not an LDAPMessage, arriving while no operation is outstanding (fresh
/// connection, or between operations), end the driver with an error; the handle reports the
/// connection as closed and the next operation fails at once instead of being sent.
pub fn idle_connection(ctx: &Ctx) -> Report {
    let n = ctx.n(3_000, 1_000_000);
    par_cases(ctx, "idle_connection", n, ctx.secs(10, 200), |i, rng, rep| {
        let (bytes, label) = loop {
            let (b, l) = hostile_input(rng, 1);
            if ber::outer_complete(&b).map(|t| t == b.len()).unwrap_or(false) && envelope_class(&b) == "not-an-envelope" {
                break (b, l);
            }
            if rng.chance(1, 3) {
                break (rng.pick(&[&[0x30u8, 0x00][..], &[0x04, 0x03, 0x01, 0x02, 0x03], &[0x30, 0x03, 0x02, 0x01, 0x01]]).to_vec(), "fixed non-envelope".to_string());
            }
        };
        let warm = rng.bool();
        let eof_instead = rng.chance(1, 6);
        let rt = runtime(rng.next());
        let b2 = bytes.clone();
        let (first, drv, closed, later, wire_after) = rt.block_on(async move {
            let c = connect();
            let mut ldap = c.ldap;
            let mut server = c.server;
            let tx = server.tx();
            let srv = tokio::spawn(async move {
                let mut n = 0usize;
                while let Some(w) = server.request().await {
                    n += 1;
                    if let Ok(m) = w.msg {
                        if let Some(r) = crate::msg::reply_for(&m.op, Res::ok("t:ok")) {
                            server.send(&ber::encode_min(&resp_node(m.id, &r, None)));
                        }
                    }
                }
                n
            });
            let mut first = String::from("-");
            if warm {
                first = match world::watchdog(ldap.delete("op=1")).await {
                    Ok(Ok(r)) => format!("Ok({})", r.rc),
                    Ok(Err(e)) => format!("Err({})", world::err_class(&e)),
                    Err(()) => "Hung".into(),
                };
            }
            world::settle().await;
            // nothing is outstanding now
            if eof_instead {
                tx.eof();
            } else {
                tx.send(&b2);
            }
            world::settle().await;
            world::settle().await;
            let closed = ldap.is_closed() && c.driver.is_finished();
            let later = match world::watchdog(ldap.delete("op=2")).await {
                Ok(Ok(r)) => format!("Ok({})", r.rc),
                Ok(Err(e)) => format!("Err({})", world::err_class(&e)),
                Err(()) => "Hung".into(),
            };
            // the driver must be over without the handle having to go away first
            let drv = match tokio::time::timeout(std::time::Duration::from_secs(3600), c.driver).await {
                Ok(d) => format!("{:?}", d),
                Err(_) => "STILL-RUNNING".to_string(),
            };
            drop(ldap);
            let n = srv.await.unwrap_or(0);
            (first, drv, closed, later, n)
        });
        let replay = json!({"lane":"idle_connection","case":i});
        let what = if eof_instead { "end-of-stream".to_string() } else { format!("{} ({})", ber::hex(&bytes[..bytes.len().min(40)]), label) };
        let desc = format!("{} {} on a connection with nothing outstanding{}: driver {}, connection over before the next operation {}, next operation {}, requests the server saw {}", if eof_instead { "EOF" } else { "undecodable input" }, what, if warm { " (after one completed operation)" } else { "" }, drv, closed, later, wire_after);
        if warm && first != "Ok(0)" {
            rep.inconclusive(format!("idle_connection case {}: warm-up operation {}", i, first));
            rep.case(None);
            return;
        }
        if drv == "STILL-RUNNING" {
            rep.violation(if eof_instead { "C11:idle-connection:driver-keeps-running-after-end-of-stream" } else { "C11:idle-connection:undecodable-input-does-not-end-the-connection" }, desc.clone(), replay.clone());
        } else if drv.contains("Panic") || drv.starts_with("Err(") {
            rep.violation("C11:idle-connection:driver-panic", desc.clone(), replay.clone());
        } else if !eof_instead && drv.starts_with("Ok(Ok(Ok(") {
            rep.violation("C11:idle-connection:undecodable-input-ends-the-connection-without-an-error", desc.clone(), replay.clone());
        }
        if !closed && drv != "STILL-RUNNING" {
            rep.violation(if eof_instead { "C11:idle-connection:end-of-stream-noticed-only-when-the-next-operation-is-issued" } else { "C11:idle-connection:undecodable-input-ends-the-connection-only-when-the-next-operation-is-issued" }, desc.clone(), replay.clone());
        }
        if later.starts_with("Ok(") || later == "Hung" {
            rep.violation(format!("C11:idle-connection:operation-after-the-connection-ended:{}", if later == "Hung" { "hangs" } else { "is-answered" }), desc, replay);
        }
        rep.count(if eof_instead { "idle_eof" } else { "idle_undecodable_input" }, 1);
        rep.case(Some(fnv(&bytes) ^ warm as u64));
    })
}
