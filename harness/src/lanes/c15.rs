//! C15 — SearchEntry::construct keeps every attribute value and classifies it correctly.
use crate::ber::{self, Enc, Node};
use crate::prng::{fnv, Rng};
use crate::report::{case_rng, guarded, par_cases, Ctx, Report};
use ldap3::{ResultEntry, SearchEntry};
use serde_json::{json, Value};
use std::collections::HashMap;

#[derive(Clone, Debug)]
pub struct Entry {
    pub dn: String,
    pub attrs: Vec<(String, Vec<Vec<u8>>)>,
}

const INVALID: &[&[u8]] = &[
    b"\xff", b"\x80", b"\xc0\x80", b"\xc1\xbf", b"\xe0\x80\x80", b"\xed\xa0\x80", b"\xed\xbf\xbf", b"\xf0\x80\x80\x80",
    b"\xf4\x90\x80\x80", b"\xf8\x88\x80\x80\x80", b"\xe2\x82", b"\xf0\x9f\x98", b"abc\xfe", b"\xc3", b"a\x80b", b"\x00\xff",
];

fn gen_valid(rng: &mut Rng) -> Vec<u8> {
    match rng.below(6) {
        0 => vec![],
        1 => b"\0".to_vec(),
        2 => "\u{10ffff}\u{7ff}\u{800}\u{ffff}\u{10000}".as_bytes().to_vec(),
        _ => rng.ustring(10).into_bytes(),
    }
}

fn gen_invalid(rng: &mut Rng) -> Vec<u8> {
    let mut v = if rng.bool() { rng.ustring(4).into_bytes() } else { vec![] };
    let inv: &[u8] = *rng.pick(INVALID);
    v.extend_from_slice(inv);
    if rng.bool() {
        v.extend_from_slice(rng.ustring(3).as_bytes());
    }
    if std::str::from_utf8(&v).is_ok() {
        v.push(0xff);
    }
    v
}

pub fn gen_entry(rng: &mut Rng, pattern: Option<&[bool]>) -> Entry {
    let dn = match rng.below(4) {
        0 => String::new(),
        _ => format!("cn={},dc=x", rng.ustring(8)),
    };
    let nattrs = if pattern.is_some() { 1 + rng.usize(3) } else { rng.usize(9) };
    let mut attrs = vec![];
    let forced = rng.usize(nattrs.max(1));
    for i in 0..nattrs {
        // (the index keeps names distinct; it goes before the options so that real option names such as
        // ";binary" occur: classification depends on the values only, never on the attribute description)
        let name = format!("{}{}{}", ["cn", "jpegPhoto", "userCertificate", "1.2.3.", "x-é", ""][rng.usize(6)], i, ["", "", ";binary", ";lang-en;BINARY", ";x-opt"][rng.usize(5)]);
        let vals: Vec<Vec<u8>> = match pattern {
            Some(p) if i == forced => p.iter().map(|&valid| if valid { gen_valid(rng) } else { gen_invalid(rng) }).collect(),
            _ => {
                let nv = rng.usize(7);
                let mode = rng.below(4);
                (0..nv)
                    .map(|_| match mode {
                        0 => gen_valid(rng),
                        1 => gen_invalid(rng),
                        _ => {
                            if rng.bool() {
                                gen_valid(rng)
                            } else {
                                gen_invalid(rng)
                            }
                        }
                    })
                    .collect()
            }
        };
        attrs.push((name, vals));
    }
    Entry { dn, attrs }
}

pub fn entry_node(e: &Entry) -> Node {
    ber::app_cons(
        4,
        vec![
            ber::octets(e.dn.as_bytes()),
            ber::seq(
                e.attrs
                    .iter()
                    .map(|(n, vs)| ber::seq(vec![ber::octets(n.as_bytes()), ber::set(vs.iter().map(|v| ber::octets(v)).collect())]))
                    .collect(),
            ),
        ],
    )
}

fn pattern_sig(vals: &[Vec<u8>]) -> String {
    vals.iter().map(|v| if std::str::from_utf8(v).is_ok() { 'v' } else { 'x' }).collect()
}

pub fn check_entry(e: &Entry, rng: &mut Rng, rep: &mut Report, replay: Value) {
    let node = entry_node(e);
    let mut er = rng.fork();
    let bytes = Enc::random(&mut er).to_vec(&node);
    let st = match lber::parse::parse_tag(&bytes) {
        Ok((rest, st)) if rest.is_empty() => st,
        other => {
            rep.violation("C15:lber-cannot-parse-well-formed-entry", format!("{:?}", other.map(|_| ())), replay);
            return;
        }
    };
    let se = match guarded(|| SearchEntry::construct(ResultEntry::new(st))) {
        Ok(se) => se,
        Err(p) => {
            rep.violation(format!("C15:construct-panic@{}", p.site()), format!("entry {:?}: {:?}", e, p), replay);
            return;
        }
    };
    compare_entry(e, &se, rep, replay);
    rep.case(Some(fnv(&bytes)));
}

pub fn compare_entry(e: &Entry, se: &SearchEntry, rep: &mut Report, replay: Value) {
    if se.dn != e.dn {
        rep.violation("C15:dn-differs", format!("{:?} vs {:?}", se.dn, e.dn), replay.clone());
    }
    let mut want_text: HashMap<String, Vec<String>> = HashMap::new();
    let mut want_bin: HashMap<String, Vec<Vec<u8>>> = HashMap::new();
    for (n, vs) in &e.attrs {
        if vs.iter().all(|v| std::str::from_utf8(v).is_ok()) {
            want_text.insert(n.clone(), vs.iter().map(|v| String::from_utf8(v.clone()).unwrap()).collect());
        } else {
            want_bin.insert(n.clone(), vs.clone());
        }
    }
    for (n, vs) in &e.attrs {
        let pat = pattern_sig(vs);
        let in_text = se.attrs.get(n);
        let in_bin = se.bin_attrs.get(n);
        match (want_text.get(n), in_text, in_bin) {
            (Some(w), Some(g), None) => {
                if w != g {
                    rep.violation("C15:text-attribute-values-differ", format!("attr {:?} pattern {} want {:?} got {:?}", n, pat, w, g), replay.clone());
                }
            }
            (None, None, Some(g)) => {
                let mut a = want_bin[n].clone();
                let mut b = g.clone();
                a.sort();
                b.sort();
                if a != b {
                    let cls = if b.len() < a.len() { "lost" } else if b.len() > a.len() { "duplicated" } else { "altered" };
                    rep.violation(format!("C15:binary-attribute-values-{}", cls), format!("attr {:?} pattern {} want {:?} got {:?}", n, pat, want_bin[n], g), replay.clone());
                }
            }
            (w, t, b) => {
                let cls = match (w.is_some(), t.is_some(), b.is_some()) {
                    (_, true, true) => "in-both-maps",
                    (_, false, false) => "in-neither-map",
                    (true, false, true) => "utf8-attribute-in-binary-map",
                    _ => "non-utf8-attribute-in-text-map",
                };
                rep.violation(format!("C15:{}", cls), format!("attr {:?} pattern {} values {:?}", n, pat, vs), replay.clone());
            }
        }
        rep.distinct("value_patterns", fnv(pat.as_bytes()));
    }
    if se.attrs.len() + se.bin_attrs.len() != e.attrs.len() {
        rep.violation("C15:attribute-count-differs", format!("{} + {} vs {}", se.attrs.len(), se.bin_attrs.len(), e.attrs.len()), replay);
    }
}

/// The same oracle on entries that travelled through a connection (search() on the in-memory
/// transport), among them entries far larger than any read buffer: what construct() is given is what the
/// server sent.
pub fn through_connection(ctx: &Ctx) -> Report {
    use crate::msg::{resp_node, Res, Resp};
    use crate::world::{connect, runtime};
    let n = ctx.n(3_000, 1_000_000);
    par_cases(ctx, "through_connection", n, ctx.secs(20, 300), |i, rng, rep| {
        let count = 1 + rng.usize(4);
        let mut entries: Vec<Entry> = (0..count).map(|_| gen_entry(rng, None)).collect();
        // one entry in three carries a large value (photo / certificate sized, up to ~300 KB)
        if rng.chance(1, 3) && !ctx.tiny {
            let k = rng.usize(count);
            let big = *rng.pick(&[17_000usize, 40_000, 70_000, 300_000]);
            let v: Vec<u8> = if rng.bool() { vec![b'a'; big] } else { let mut b = vec![0xffu8; big]; b[0] = 0xd8; b };
            entries[k].attrs.push((format!("jpegPhoto{}", 99), vec![v]));
        }
        // one case in four has a wide entry: an attribute with hundreds of values (a group's members)
        // or an entry with more than a hundred attributes
        let mut wide = 0u64;
        if rng.chance(1, 4) && !ctx.tiny {
            let k = rng.usize(count);
            if rng.bool() {
                let nv = 96 + rng.usize(400);
                entries[k].attrs.push(("member".to_string(), (0..nv).map(|j| format!("uid=u{},ou=people,dc=x", j).into_bytes()).collect()));
                wide = nv as u64;
            } else {
                let na = 96 + rng.usize(150);
                for j in 0..na {
                    entries[k].attrs.push((format!("wideAttr{}", j), vec![format!("v{}", j).into_bytes()]));
                }
                wide = na as u64;
            }
        }
        for (k, e) in entries.iter_mut().enumerate() {
            e.dn = format!("cn=e{},dc=x", k);
        }
        let rt = runtime(rng.next());
        let ents = entries.clone();
        let mut erng = rng.fork();
        let start_id: i32 = match rng.below(3) { 0 => 0, 1 => *rng.pick(&[126, 127, 254, 255, 32_766, 32_767, 65_534, 8_388_607, 16_777_214, i32::MAX - 1]), _ => rng.below(i32::MAX as u64 - 2) as i32 };
        let out = rt.block_on(async move {
            let c = connect();
            let mut ldap = c.ldap;
            // the entries answer an operation anywhere in the life of a connection
            ldap.verif_set_last_id(start_id);
            let mut server = c.server;
            let srv = tokio::spawn(async move {
                if let Some(w) = server.request().await {
                    if let Ok(m) = w.msg {
                        for e in &ents {
                            let n = ber::seq(vec![ber::integer(m.id), entry_node(e)]);
                            let bytes = Enc::random(&mut erng).to_vec(&n);
                            // any segmentation of the byte stream: small messages also byte by byte
                            let mode = match erng.below(4) {
                                0 => crate::pipe::Chunking::Whole,
                                1 if bytes.len() < 4096 => crate::pipe::Chunking::Bytewise,
                                _ => crate::pipe::Chunking::Random,
                            };
                            server.send_chunked(&bytes, mode, &mut erng);
                        }
                        server.send(&ber::encode_min(&resp_node(m.id, &Resp::Done(Res::ok("done")), None)));
                    }
                }
                server.wait_closed().await;
            });
            let r = crate::world::watchdog(ldap.search("dc=x", ldap3::Scope::Subtree, "(a=b)", vec!["*"])).await;
            drop(ldap);
            srv.abort();
            let _ = c.driver.await;
            r
        });
        let replay = json!({"lane":"through_connection","case":i});
        match out {
            Ok(Ok(res)) => {
                if res.0.len() != entries.len() {
                    rep.violation("C15:through-connection:entry-count-differs", format!("{} returned, {} sent", res.0.len(), entries.len()), replay.clone());
                }
                for (e, re) in entries.iter().zip(res.0.into_iter()) {
                    match guarded(|| SearchEntry::construct(re)) {
                        Ok(se) => compare_entry(e, &se, rep, replay.clone()),
                        Err(p) => rep.violation(format!("C15:construct-panic@{}", p.site()), format!("{:?}", p), replay.clone()),
                    }
                }
            }
            Ok(Err(e)) => rep.violation("C15:through-connection:search-failed", format!("{} (largest value {} bytes)", e, entries.iter().flat_map(|e| e.attrs.iter()).flat_map(|a| a.1.iter()).map(|v| v.len()).max().unwrap_or(0)), replay.clone()),
            Err(()) => rep.violation("C15:through-connection:search-hangs", String::new(), replay.clone()),
        }
        rep.max("max_values_or_attributes_in_a_wide_entry", wide);
        rep.max("max_value_bytes", entries.iter().flat_map(|e| e.attrs.iter()).flat_map(|a| a.1.iter()).map(|v| v.len()).max().unwrap_or(0) as u64);
        rep.case(Some(fnv(format!("{:?}", entries.iter().map(|e| (e.dn.clone(), e.attrs.len())).collect::<Vec<_>>()).as_bytes()) ^ i));
    })
}

pub fn random(ctx: &Ctx) -> Report {
    let n = ctx.n(2_000_000, 1_000_000_000);
    par_cases(ctx, "random", n, ctx.secs(20, 400), |i, rng, rep| {
        let e = gen_entry(rng, None);
        if i < 2 {
            rep.sample(json!({"lane":"random","case":i,"entry":format!("{:?}", e).chars().take(400).collect::<String>()}));
        }
        check_entry(&e, rng, rep, json!({"lane":"random","case":i}));
    })
}

/// Every valid/invalid pattern of up to 6 values for one attribute.
pub fn patterns(ctx: &Ctx) -> Report {
    let maxv = if ctx.tiny { 3 } else { 6 };
    let mut pats: Vec<Vec<bool>> = vec![];
    for l in 0..=maxv {
        for m in 0..(1u32 << l) {
            pats.push((0..l).map(|b| m >> b & 1 == 1).collect());
        }
    }
    let reps = ctx.n(400, 100_000);
    let total = pats.len() as u64 * reps;
    let mut rep = par_cases(ctx, "patterns", total, ctx.secs(30, 300), |i, rng, rep| {
        let p = &pats[(i % pats.len() as u64) as usize];
        let e = gen_entry(rng, Some(p));
        check_entry(&e, rng, rep, json!({"lane":"patterns","case":i}));
    });
    rep.exhaustive.push(format!("all {} valid/invalid-UTF-8 orderings of 0..={} values of one attribute, x{} random fillings", pats.len(), maxv, reps));
    rep.sample(json!({"lane":"patterns","patterns":pats.len(),"example":"[valid, invalid, valid] -> whole attribute must land in bin_attrs with 3 values"}));
    rep
}

pub fn replay(ctx: &Ctx, v: &Value) -> Report {
    let mut rep = Report::new();
    let lane = v["lane"].as_str().unwrap_or("random");
    if let Some(i) = v["case"].as_u64() {
        let mut rng = case_rng(ctx.seed, lane, i);
        if lane == "random" {
            let e = gen_entry(&mut rng, None);
            println!("entry: {:?}", e);
            check_entry(&e, &mut rng, &mut rep, v.clone());
        } else {
            let maxv = 6;
            let mut pats: Vec<Vec<bool>> = vec![];
            for l in 0..=maxv {
                for m in 0..(1u32 << l) {
                    pats.push((0..l).map(|b| m >> b & 1 == 1).collect());
                }
            }
            let p = &pats[(i % pats.len() as u64) as usize];
            let e = gen_entry(&mut rng, Some(p));
            println!("entry: {:?}", e);
            check_entry(&e, &mut rng, &mut rep, v.clone());
        }
    }
    rep
}
