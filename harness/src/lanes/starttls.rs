//! Shared real-socket scenario: a server that answers the StartTLS extended request of
//! `LdapConnSettings::set_starttls(true)` with a refusal (any result code but 0), optionally
//! preceded by messages addressed to nobody.  Used by C01 (strays must not disturb the
//! operation), C03 (the refusal handed to the caller is what the server sent) and C18.
//!
//! Real time and a real TCP socket are needed (the establishment code opens its own socket), so
//! the verdict "still pending" is only believed after a second, much longer attempt.
use crate::ber;
use crate::msg::{resp_node, Res, Resp};
use std::time::Duration;

#[derive(Clone, Debug)]
pub enum Stray {
    /// unsolicited notification (message ID 0), an ExtendedResponse with this result code
    Unsolicited(u32),
    /// a single-operation response under `starttls id + delta`
    UnknownId(i64, u32),
    /// a search entry under `starttls id + delta`
    EntryForUnknownId(i64),
}

#[derive(Clone, Debug)]
pub struct Refusal {
    pub strays: Vec<Stray>,
    pub res: Res,
    pub name: Option<String>,
    /// split the refusal itself into two writes
    pub split: bool,
    /// answer with these bytes instead of the encoded refusal (for answers that are not LDAPMessages)
    pub raw_answer: Option<Vec<u8>>,
}

#[derive(Clone, Debug, PartialEq, Eq)]
pub enum Got {
    Hang,
    Established,
    Result { rc: u32, matched: String, text: String, refs: Vec<String> },
    OtherErr(String),
}

pub async fn refused_starttls(r: &Refusal, guard_s: u64) -> Result<Got, String> {
    use tokio::io::{AsyncReadExt, AsyncWriteExt};
    use tokio::net::TcpListener;
    let l = TcpListener::bind("127.0.0.1:0").await.map_err(|e| format!("setup: {}", e))?;
    let port = l.local_addr().map_err(|e| format!("setup: {}", e))?.port();
    let rr = r.clone();
    let srv = tokio::spawn(async move {
        let (mut s, _) = match l.accept().await {
            Ok(x) => x,
            Err(_) => return,
        };
        let mut buf: Vec<u8> = vec![];
        let mut tmp = [0u8; 1024];
        let id = loop {
            if let Some(t) = ber::outer_complete(&buf) {
                match crate::msg::decode_request(&buf[..t]) {
                    Ok(m) => break m.id,
                    Err(_) => return,
                }
            }
            match s.read(&mut tmp).await {
                Ok(0) | Err(_) => return,
                Ok(n) => buf.extend_from_slice(&tmp[..n]),
            }
        };
        for st in &rr.strays {
            let b = match st {
                Stray::Unsolicited(rc) => ber::encode_min(&resp_node(0, &Resp::Extended { res: Res::code(*rc, "stray"), name: Some("1.3.6.1.4.1.99999.1".into()), value: None }, None)),
                Stray::UnknownId(d, rc) => ber::encode_min(&resp_node(id + d, &Resp::Del(Res::code(*rc, "stray")), None)),
                Stray::EntryForUnknownId(d) => ber::encode_min(&resp_node(id + d, &Resp::Entry { dn: b"cn=stray".to_vec(), attrs: vec![] }, None)),
            };
            let _ = s.write_all(&b).await;
            let _ = s.flush().await;
            tokio::time::sleep(Duration::from_millis(20)).await;
        }
        let b = match &rr.raw_answer {
            Some(raw) => raw.clone(),
            None => ber::encode_min(&resp_node(id, &Resp::Extended { res: rr.res.clone(), name: rr.name.clone(), value: None }, None)),
        };
        if rr.split {
            let h = b.len() / 2;
            let _ = s.write_all(&b[..h]).await;
            let _ = s.flush().await;
            tokio::time::sleep(Duration::from_millis(20)).await;
            let _ = s.write_all(&b[h..]).await;
        } else {
            let _ = s.write_all(&b).await;
        }
        let _ = s.flush().await;
        // stay around with the socket open: only the refusal may end the establishment
        let mut sink = [0u8; 4096];
        let _ = tokio::time::timeout(Duration::from_secs(guard_s + 2), async {
            loop {
                match s.read(&mut sink).await {
                    Ok(0) | Err(_) => break,
                    Ok(_) => {}
                }
            }
        })
        .await;
    });
    let settings = ldap3::LdapConnSettings::new().set_starttls(true).set_no_tls_verify(true);
    let url = format!("ldap://127.0.0.1:{}", port);
    let res = tokio::time::timeout(Duration::from_secs(guard_s), ldap3::LdapConnAsync::with_settings(settings, &url)).await;
    srv.abort();
    Ok(match res {
        Err(_) => Got::Hang,
        Ok(Ok(_)) => Got::Established,
        Ok(Err(ldap3::LdapError::LdapResult { result })) => Got::Result { rc: result.rc, matched: result.matched, text: result.text, refs: result.refs },
        Ok(Err(e)) => Got::OtherErr(format!("{:?}", e).chars().take(160).collect()),
    })
}

/// Run with an 8 s guard; a hang is re-tried alone with 40 s.  `Ok(None)` = inconclusive.
pub fn run(rt: &tokio::runtime::Runtime, r: &Refusal) -> Result<Option<Got>, String> {
    let first = rt.block_on(refused_starttls(r, 8))?;
    if first == Got::Hang {
        let second = rt.block_on(refused_starttls(r, 40))?;
        if second != Got::Hang {
            return Ok(None);
        }
        return Ok(Some(Got::Hang));
    }
    Ok(Some(first))
}
