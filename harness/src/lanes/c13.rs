//! C13 — completed operations leave nothing behind.
use crate::ber;
use crate::gen;
use crate::msg::{reply_for, resp_node, Req, ReqMsg, Res, Resp, RespCtl, CritEnc};
use crate::pipe::PipeCtl;
use crate::pipe::{ServerEnd, Tx};
use crate::prng::{fnv, Rng};
use crate::report::{case_rng, par_cases, Ctx, Report};
use crate::world::{self, connect, invoke, runtime, Call, Caught, Outcome};
use ldap3::adapters::{Adapter, EntriesOnly, PagedResults};
use ldap3::{Ldap, Scope};
use serde_json::{json, Value};
use std::sync::atomic::Ordering::SeqCst;
use std::time::Duration;

pub const PAGED_OID: &str = "1.2.840.113556.1.4.319";

/// Behaviour requested through the DN: "op=<n>,b=<behaviour>".
fn behaviour(field: &[u8]) -> String {
    let s = String::from_utf8_lossy(field);
    s.split(',').find_map(|p| p.strip_prefix("b=").map(|x| x.to_string())).unwrap_or_else(|| "normal".into())
}

pub fn paged_value(size: i64, cookie: &[u8]) -> Vec<u8> {
    ber::encode_min(&ber::seq(vec![ber::integer(size), ber::octets(cookie)]))
}

pub fn parse_paged(val: &[u8]) -> Option<(i64, Vec<u8>)> {
    let (n, _) = ber::decode_exact(val).ok()?;
    let k = n.cons(0, 16).ok()?;
    if k.len() != 2 {
        return None;
    }
    Some((ber::int_value(k[0].prim(0, 2).ok()?)?, k[1].prim(0, 4).ok()?.to_vec()))
}

fn entry(id: i64, k: usize) -> Vec<u8> {
    ber::encode_min(&resp_node(id, &Resp::Entry { dn: format!("e={}.{},dc=x", id, k).into_bytes(), attrs: vec![] }, None))
}

fn send_later(tx: &Tx, bytes: Vec<u8>, ms: u64) {
    let tx = tx.clone();
    tokio::spawn(async move {
        tokio::time::sleep(Duration::from_millis(ms)).await;
        tx.send(&bytes);
    });
}

/// The behaviour-driven server shared by C13 / C12 / C16-style lanes.
pub async fn behaviour_server(mut server: ServerEnd) -> Vec<ReqMsg> {
    let tx = server.tx();
    let mut seen = vec![];
    while let Some(w) = server.request().await {
        let m = match w.msg {
            Ok(m) => m,
            Err(_) => continue,
        };
        seen.push(m.clone());
        let b = m.op.token_field().map(behaviour).unwrap_or_else(|| "normal".into());
        let id = m.id;
        match &m.op {
            Req::Abandon(_) | Req::Unbind => {}
            Req::Search { .. } => {
                let done = |text: &str, ctl: Option<Vec<RespCtl>>| ber::encode_min(&resp_node(id, &Resp::Done(Res::ok(text)), ctl.as_deref()));
                if let Some(n) = b.strip_prefix("items") {
                    let n: usize = n.parse().unwrap_or(0);
                    let mut bytes = vec![];
                    for k in 0..n {
                        bytes.extend_from_slice(&entry(id, k));
                    }
                    bytes.extend_from_slice(&done("done", None));
                    tx.send(&bytes);
                } else if let Some(spec) = b.strip_prefix("hold") {
                    // holdN:K[:Lms] -> K entries now, the other N-K and Done after L ms (default: never)
                    let parts: Vec<&str> = spec.split(':').collect();
                    let n: usize = parts.first().and_then(|x| x.parse().ok()).unwrap_or(0);
                    let k: usize = parts.get(1).and_then(|x| x.parse().ok()).unwrap_or(0).min(n);
                    let mut bytes = vec![];
                    for j in 0..k {
                        bytes.extend_from_slice(&entry(id, j));
                    }
                    tx.send(&bytes);
                    if let Some(l) = parts.get(2).and_then(|x| x.parse::<u64>().ok()) {
                        let mut rest = vec![];
                        for j in k..n {
                            rest.extend_from_slice(&entry(id, j));
                        }
                        rest.extend_from_slice(&done("done", None));
                        send_later(&tx, rest, l);
                    }
                } else if let Some(spec) = b.strip_prefix("ph") {
                    // phN: like pagedN, but every page after the first is left incomplete (entries, no Done)
                    let n: usize = spec.parse().unwrap_or(0);
                    let ctl = m.controls.as_ref().and_then(|cs| cs.iter().find(|c| c.oid == PAGED_OID.as_bytes()));
                    if let Some((size, cookie)) = ctl.and_then(|c| c.val.as_ref()).and_then(|v| parse_paged(v)) {
                        let off: usize = String::from_utf8_lossy(&cookie).parse().unwrap_or(0);
                        let size = size.max(1) as usize;
                        let end = (off + size).min(n);
                        let mut bytes = vec![];
                        for k in off..end {
                            bytes.extend_from_slice(&entry(id, k));
                        }
                        if off == 0 {
                            let next_cookie = if end < n { end.to_string().into_bytes() } else { vec![] };
                            let c = RespCtl { oid: PAGED_OID.into(), crit: CritEnc::Absent, val: Some(paged_value(n as i64, &next_cookie)) };
                            bytes.extend_from_slice(&done(if end < n { "page" } else { "done" }, Some(vec![c])));
                        }
                        tx.send(&bytes);
                    }
                } else if let Some(spec) = b.strip_prefix("paged") {
                    // pagedNxP: result set of N entries; page size from the request control
                    let n: usize = spec.split('x').next().and_then(|x| x.parse().ok()).unwrap_or(0);
                    let ctl = m.controls.as_ref().and_then(|cs| cs.iter().find(|c| c.oid == PAGED_OID.as_bytes()));
                    match ctl.and_then(|c| c.val.as_ref()).and_then(|v| parse_paged(v)) {
                        Some((size, cookie)) => {
                            let off: usize = String::from_utf8_lossy(&cookie).parse().unwrap_or(0);
                            let size = size.max(1) as usize;
                            let end = (off + size).min(n);
                            let mut bytes = vec![];
                            for k in off..end {
                                bytes.extend_from_slice(&entry(id, k));
                            }
                            let next_cookie = if end < n { end.to_string().into_bytes() } else { vec![] };
                            let c = RespCtl { oid: PAGED_OID.into(), crit: CritEnc::Absent, val: Some(paged_value(n as i64, &next_cookie)) };
                            bytes.extend_from_slice(&done(if end < n { "page" } else { "done" }, Some(vec![c])));
                            tx.send(&bytes);
                        }
                        None => tx.send(&done("nopaging", None)),
                    }
                } else if b == "silent" {
                } else {
                    tx.send(&done("done", None));
                }
            }
            op => {
                let reply = |text: &str| reply_for(op, Res::ok(text)).map(|r| ber::encode_min(&resp_node(id, &r, None))).unwrap_or_default();
                if b == "silent" {
                } else if let Some(l) = b.strip_prefix("late") {
                    send_later(&tx, reply("late"), l.parse().unwrap_or(500));
                } else if b == "interm" {
                    // a legal but unusual answer: an IntermediateResponse first, then the final response
                    let im = Resp::Intermediate { name: Some("1.2.3.4".into()), value: Some(b"progress".to_vec()) };
                    let mut bytes = ber::encode_min(&resp_node(id, &im, None));
                    bytes.extend_from_slice(&reply("ok"));
                    tx.send(&bytes);
                } else if b == "unsol" {
                    // unsolicited notification, a response to an unknown ID, then the real answer
                    let n0 = Resp::Extended { res: Res::code(52, "NOBODY:unsolicited"), name: Some("1.3.6.1.4.1.1466.20036".into()), value: None };
                    let mut bytes = ber::encode_min(&resp_node(0, &n0, None));
                    bytes.extend_from_slice(&ber::encode_min(&resp_node(77_777_777, &Resp::Modify(Res::code(1, "NOBODY:unknown")), None)));
                    bytes.extend_from_slice(&ber::encode_min(&resp_node(88_888_888, &Resp::Entry { dn: b"NOBODY".to_vec(), attrs: vec![] }, None)));
                    bytes.extend_from_slice(&reply("ok"));
                    tx.send(&bytes);
                } else {
                    tx.send(&reply("ok"));
                }
            }
        }
    }
    seen
}

#[derive(Clone, Debug)]
pub enum Step {
    Single,
    /// single operation answered with an IntermediateResponse followed by the final response
    SingleWithIntermediate,
    Unsolicited,
    SearchAll(usize),
    StreamFull(usize),
    /// (items total, sent before hold, read before finish, late ms)
    StreamEarly(usize, usize, usize, Option<u64>),
    Paged(usize, i32, bool),
    /// (result set size, page size, items to read before finish(), behind EntriesOnly): pages after
    /// the first are left incomplete by the server, finish() is called while such a page is in flight
    PagedEarly(usize, i32, usize, bool),
    TimeoutSingle(bool),
    /// (items, sent before the stall, whether the rest arrives late (700 ms) or never)
    TimeoutStream(usize, usize, bool),
    /// search() (which never calls finish()) timing out mid-stream; the server stays silent afterwards
    TimeoutSearchCall(usize, usize),
    /// stream that times out and is then dropped without finish()... excluded by the property; not generated
    /// abandon issued with a zero timeout (its caller gives up at once) against an in-flight operation
    AbandonInflightZeroTimeout,
    /// (kind 0 = single op, 1 = start of a streaming search, 2 = search() call; whether the server answers
    /// once it finally gets the request): the peer has stopped reading, so the driver is stuck writing the
    /// request when the caller's timeout fires; the writes are released 300 ms later
    TimeoutWhileWriteStalled(u8, bool),
    /// a sent single operation times out while the driver is stuck writing ANOTHER handle's request;
    /// its reply (after this many ms, before the 100 ms deadline) and its ID-scrub notice are both
    /// waiting when the driver gets going again, to be handled in whichever order it picks
    TimeoutBehindStalledWrite(u64),
    /// an operation (0 single, 1 start of a streaming search, 2 search() call) whose future is dropped by
    /// its caller (an application-level timeout around the call, no `with_timeout`) while the request is
    /// still queued behind another handle's stuck write: the driver finds it stale when it gets there
    GivenUpBeforeTheDriverSawIt(u8),
    /// a single operation whose future is dropped by its caller (application-level timeout, no `with_timeout`)
    /// after the request went out; the server's answer arrives later (ms) and finds nobody
    DroppedAfterItWasSent(u64),
    AbandonFinished,
    AbandonTimedOut,
    AbandonInflight,
    AbandonInflightStream(usize, usize),
    /// like AbandonInflightStream, but the search runs behind EntriesOnly (false) or as a collecting
    /// search() call (true)
    AbandonInflightAdapted(usize, usize, bool),
}

impl Step {
    pub fn kind(&self) -> &'static str {
        match self {
            Step::Single => "single-op",
            Step::SingleWithIntermediate => "single-op-answered-with-an-intermediate-response-first",
            Step::Unsolicited => "single-op-with-unsolicited-responses",
            Step::SearchAll(_) => "search()-read-to-end(adapted)",
            Step::StreamFull(_) => "direct-stream-read-to-end",
            Step::StreamEarly(..) => "direct-stream-finished-early",
            Step::Paged(_, _, false) => "paged-search",
            Step::Paged(_, _, true) => "paged-search-behind-entries-only",
            Step::PagedEarly(..) => "paged-search-finished-early-on-a-later-page",
            Step::TimeoutSingle(_) => "single-op-timeout",
            Step::TimeoutStream(_, _, true) => "stream-timeout-rest-arrives-late",
            Step::TimeoutStream(_, _, false) => "stream-timeout-server-silent-afterwards",
            Step::TimeoutSearchCall(..) => "search()-timeout-server-silent-afterwards",
            Step::AbandonInflightZeroTimeout => "abandon-with-zero-timeout-of-inflight-op",
            Step::TimeoutWhileWriteStalled(0, _) => "single-op-timeout-while-the-request-is-being-written",
            Step::TimeoutWhileWriteStalled(1, _) => "stream-start-timeout-while-the-request-is-being-written",
            Step::TimeoutWhileWriteStalled(..) => "search()-timeout-while-the-request-is-being-written",
            Step::TimeoutBehindStalledWrite(_) => "single-op-timeout-whose-reply-and-id-scrub-reach-the-busy-driver-together",
            Step::GivenUpBeforeTheDriverSawIt(0) => "single-op-dropped-by-its-caller-before-the-driver-saw-the-request",
            Step::GivenUpBeforeTheDriverSawIt(1) => "stream-start-dropped-by-its-caller-before-the-driver-saw-the-request",
            Step::GivenUpBeforeTheDriverSawIt(_) => "search()-dropped-by-its-caller-before-the-driver-saw-the-request",
            Step::DroppedAfterItWasSent(_) => "single-op-dropped-by-its-caller-after-the-request-went-out",
            Step::AbandonFinished => "abandon-of-finished-op",
            Step::AbandonTimedOut => "abandon-of-timed-out-op",
            Step::AbandonInflight => "abandon-of-inflight-op",
            Step::AbandonInflightStream(..) => "abandon-of-inflight-stream",
            Step::AbandonInflightAdapted(_, _, false) => "abandon-of-inflight-stream-behind-entries-only",
            Step::AbandonInflightAdapted(_, _, true) => "abandon-of-inflight-search()-call",
        }
    }
}

pub fn gen_step(rng: &mut Rng) -> Step {
    match rng.below(18) {
        17 => Step::DroppedAfterItWasSent(*rng.pick(&[60u64, 200, 700])),
        16 => Step::GivenUpBeforeTheDriverSawIt(rng.below(3) as u8),
        15 => Step::TimeoutBehindStalledWrite(*rng.pick(&[0u64, 20, 50, 99, 100, 150, 299])),
        14 => Step::TimeoutWhileWriteStalled(rng.below(3) as u8, rng.bool()),
        13 => {
            let p = 1 + rng.usize(5);
            let n = p + 1 + rng.usize(10);
            // read the whole first page and 0..=min(p, n-p) items of the second
            let j = p + rng.usize(p.min(n - p) + 1);
            Step::PagedEarly(n, p as i32, j, rng.bool())
        }
        0 => if rng.chance(1, 3) { Step::SingleWithIntermediate } else { Step::Single },
        1 => Step::Unsolicited,
        2 => Step::SearchAll(rng.usize(8)),
        3 => Step::StreamFull(rng.usize(8)),
        4 => {
            let n = 1 + rng.usize(8);
            let k = rng.usize(n + 1);
            let j = rng.usize(k + 1);
            Step::StreamEarly(n, k, j, if rng.bool() { Some(300) } else { None })
        }
        5 => Step::Paged(rng.usize(25), 1 + rng.below(8) as i32, false),
        6 => Step::Paged(rng.usize(25), 1 + rng.below(8) as i32, true),
        7 => Step::TimeoutSingle(rng.bool()),
        8 => {
            let n = 1 + rng.usize(6);
            match rng.below(3) {
                0 => Step::TimeoutStream(n, rng.usize(n + 1), true),
                1 => Step::TimeoutStream(n, rng.usize(n + 1), false),
                _ => Step::TimeoutSearchCall(n, rng.usize(n + 1)),
            }
        }
        9 => Step::AbandonFinished,
        10 => Step::AbandonTimedOut,
        11 => if rng.bool() { Step::AbandonInflight } else { Step::AbandonInflightZeroTimeout },
        _ => {
            let n = 1 + rng.usize(6);
            match rng.below(3) {
                0 => Step::AbandonInflightStream(n, rng.usize(n + 1)),
                1 => Step::AbandonInflightAdapted(n, rng.usize(n + 1), false),
                _ => Step::AbandonInflightAdapted(n, rng.usize(n + 1), true),
            }
        }
    }
}

#[derive(Clone, Debug, Default)]
pub struct StepObs {
    pub outcome: String,
    pub abandon_target: Option<i32>,
    pub waiter: Option<String>,
}

async fn read_all(ldap: &mut Ldap, adapters: Vec<Box<dyn Adapter<'static, String, Vec<String>>>>, base: &str, upto: Option<usize>) -> String {
    let st = ldap.streaming_search_with(adapters, base, Scope::Subtree, "(a=b)", vec!["*".to_string()]).await;
    let mut st = match st {
        Ok(s) => s,
        Err(e) => return format!("start-err:{}", world::err_class(&e)),
    };
    let mut n = 0;
    let mut end = "";
    loop {
        if let Some(u) = upto {
            if n >= u {
                break;
            }
        }
        match st.next().await {
            Ok(Some(_)) => n += 1,
            Ok(None) => {
                end = ":end";
                break;
            }
            Err(e) => {
                let r = st.finish().await;
                return format!("items={}:err:{}:finish-rc={}", n, world::err_class(&e), r.rc);
            }
        }
    }
    let r = st.finish().await;
    format!("items={}{}:finish-rc={}:{}", n, end, r.rc, r.text)
}

pub async fn run_step(ldap: &mut Ldap, other: &mut Ldap, step: &Step, tok: u64, last_finished: &mut i32, ctl: &PipeCtl) -> StepObs {
    let mut obs = StepObs::default();
    match step {
        Step::Single | Step::Unsolicited | Step::SingleWithIntermediate => {
            let b = if matches!(step, Step::Unsolicited) { "unsol" } else if matches!(step, Step::SingleWithIntermediate) { "interm" } else { "normal" };
            let o = invoke(ldap, &Call::Delete { dn: format!("op={},b={}", tok, b) }).await;
            *last_finished = ldap.last_id();
            obs.outcome = format!("{}:{}", o.class(), o.text().unwrap_or(""));
        }
        Step::SearchAll(n) => {
            let o = Caught::new(ldap.search(&format!("op={},b=items{}", tok, n), Scope::Subtree, "(a=b)", vec!["*"])).await;
            obs.outcome = match o {
                Ok(Ok(r)) => format!("items={}:rc={}", r.0.len(), r.1.rc),
                Ok(Err(e)) => format!("err:{}", world::err_class(&e)),
                Err(p) => format!("panic:{}", p.site()),
            };
        }
        Step::StreamFull(n) => {
            obs.outcome = read_all(ldap, vec![], &format!("op={},b=items{}", tok, n), None).await;
        }
        Step::StreamEarly(n, k, j, late) => {
            let b = match late {
                Some(l) => format!("hold{}:{}:{}", n, k, l),
                None => format!("hold{}:{}", n, k),
            };
            if tok % 2 == 1 {
                // a timeout that never gets the chance to fire: the early finish() is all that ends this Search
                ldap.with_timeout(Duration::from_secs(3600));
            }
            obs.outcome = read_all(ldap, vec![], &format!("op={},b={}", tok, b), Some(*j)).await;
        }
        Step::Paged(n, p, behind) => {
            let adapters: Vec<Box<dyn Adapter<'static, String, Vec<String>>>> = if *behind { vec![Box::new(EntriesOnly::new()), Box::new(PagedResults::new(*p))] } else { vec![Box::new(PagedResults::new(*p))] };
            obs.outcome = read_all(ldap, adapters, &format!("op={},b=paged{}x{}", tok, n, p), None).await;
        }
        Step::PagedEarly(n, p, j, behind) => {
            let adapters: Vec<Box<dyn Adapter<'static, String, Vec<String>>>> = if *behind { vec![Box::new(EntriesOnly::new()), Box::new(PagedResults::new(*p))] } else { vec![Box::new(PagedResults::new(*p))] };
            if tok % 2 == 1 {
                ldap.with_timeout(Duration::from_secs(3600));
            }
            obs.outcome = read_all(ldap, adapters, &format!("op={},b=ph{}", tok, n), Some(*j)).await;
        }
        Step::TimeoutSingle(late) => {
            // a zero timeout fires before the driver has even seen the request
            ldap.with_timeout(Duration::from_millis(if tok % 3 == 0 { 0 } else { 100 }));
            let o = invoke(ldap, &Call::Delete { dn: format!("op={},b={}", tok, if *late { "late400" } else { "silent" }) }).await;
            obs.outcome = o.class();
        }
        Step::TimeoutStream(n, k, late) => {
            ldap.with_timeout(Duration::from_millis(if tok % 3 == 0 { 0 } else { 100 }));
            let b = if *late { format!("hold{}:{}:700", n, k) } else { format!("hold{}:{}", n, k) };
            obs.outcome = read_all(ldap, vec![], &format!("op={},b={}", tok, b), None).await;
        }
        Step::TimeoutSearchCall(n, k) => {
            ldap.with_timeout(Duration::from_millis(100));
            let o = Caught::new(ldap.search(&format!("op={},b=hold{}:{}", tok, n, k), Scope::Subtree, "(a=b)", vec!["*"])).await;
            obs.outcome = match o {
                Ok(Ok(r)) => format!("items={}:rc={}", r.0.len(), r.1.rc),
                Ok(Err(e)) => format!("err:{}", world::err_class(&e)),
                Err(p) => format!("panic:{}", p.site()),
            };
        }
        Step::TimeoutWhileWriteStalled(kind, answered) => {
            // the peer stops reading: the very next write of the driver waits
            ctl.stall_writes_after(0);
            let release = ctl.clone();
            let rel = tokio::spawn(async move {
                tokio::time::sleep(Duration::from_millis(300)).await;
                release.release_writes();
            });
            ldap.with_timeout(Duration::from_millis(100));
            let b = if *answered { "items2" } else { "silent" };
            obs.outcome = match kind {
                0 => invoke(ldap, &Call::Delete { dn: format!("op={},b={}", tok, if *answered { "normal" } else { "silent" }) }).await.class(),
                1 => read_all(ldap, vec![], &format!("op={},b={}", tok, b), None).await,
                _ => match Caught::new(ldap.search(&format!("op={},b={}", tok, b), Scope::Subtree, "(a=b)", vec!["*"])).await {
                    Ok(Ok(r)) => format!("items={}:rc={}", r.0.len(), r.1.rc),
                    Ok(Err(e)) => format!("err:{}", world::err_class(&e)),
                    Err(p) => format!("panic:{}", p.site()),
                },
            };
            let _ = rel.await;
        }
        Step::TimeoutBehindStalledWrite(d) => {
            let mut l2 = ldap.clone();
            l2.with_timeout(Duration::from_millis(100));
            let dn = format!("op={},b=late{}", tok, d);
            let a = tokio::spawn(async move { world::watchdog(invoke(&mut l2, &Call::Delete { dn })).await.unwrap_or(Outcome::Hung).class() });
            // the request is on the wire; now the peer stops reading and another handle's request gets stuck
            world::settle().await;
            ctl.stall_writes_after(0);
            let mut l3 = other.clone();
            let dn = format!("op={},b=normal", tok);
            let b = tokio::spawn(async move { world::watchdog(invoke(&mut l3, &Call::Delete { dn })).await.unwrap_or(Outcome::Hung).class() });
            tokio::time::sleep(Duration::from_millis(300)).await;
            ctl.release_writes();
            let ao = a.await.unwrap_or_else(|_| "task-died".into());
            let bo = b.await.unwrap_or_else(|_| "task-died".into());
            obs.outcome = format!("{}+{}", ao, bo);
            if bo != "Ok" {
                obs.outcome = format!("HUNG-or-failed:{}", obs.outcome);
            }
        }
        Step::GivenUpBeforeTheDriverSawIt(kind) => {
            // the peer stops reading; another handle's request gets stuck in the driver's write
            ctl.stall_writes_after(0);
            let mut l3 = other.clone();
            let dn = format!("op={},b=normal", tok);
            let b = tokio::spawn(async move { world::watchdog(invoke(&mut l3, &Call::Delete { dn })).await.unwrap_or(Outcome::Hung).class() });
            world::settle().await;
            let mut l2 = ldap.clone();
            let gave_up = match kind {
                0 => tokio::time::timeout(Duration::from_millis(50), invoke(&mut l2, &Call::Delete { dn: format!("op={},b=normal", tok) })).await.is_err(),
                1 => tokio::time::timeout(Duration::from_millis(50), l2.streaming_search(&format!("op={},b=items2", tok), Scope::Subtree, "(a=b)", vec!["*"])).await.is_err(),
                _ => tokio::time::timeout(Duration::from_millis(50), l2.search(&format!("op={},b=items2", tok), Scope::Subtree, "(a=b)", vec!["*"])).await.is_err(),
            };
            tokio::time::sleep(Duration::from_millis(250)).await;
            ctl.release_writes();
            let bo = b.await.unwrap_or_else(|_| "task-died".into());
            obs.outcome = format!("gave-up={}+{}", gave_up, bo);
            if bo != "Ok" {
                obs.outcome = format!("HUNG-or-failed:{}", obs.outcome);
            }
        }
        Step::DroppedAfterItWasSent(late) => {
            let mut l2 = ldap.clone();
            let gave_up = tokio::time::timeout(Duration::from_millis(50), invoke(&mut l2, &Call::Delete { dn: format!("op={},b=late{}", tok, late) })).await.is_err();
            obs.outcome = format!("gave-up={}", gave_up);
        }
        Step::AbandonInflightZeroTimeout => {
            let mut l2 = ldap.clone();
            let dn = format!("op={},b=silent", tok);
            let waiter = tokio::spawn(async move { world::watchdog(invoke(&mut l2, &Call::Delete { dn })).await.unwrap_or(Outcome::Hung) });
            world::settle().await;
            let id = ldap.verif_id_table().0;
            // the abandon's own caller gives up immediately; the request is queued all the same
            other.with_timeout(Duration::from_millis(0));
            let _ = invoke(other, &Call::Abandon(id)).await;
            world::settle().await;
            obs.abandon_target = Some(id);
            obs.outcome = "Ok".into();
            obs.waiter = Some(waiter.await.map(|o| o.class()).unwrap_or_else(|_| "task-died".into()));
        }
        Step::AbandonFinished => {
            let id = if *last_finished > 0 { *last_finished } else { 1 };
            let o = invoke(other, &Call::Abandon(id)).await;
            obs.abandon_target = Some(id);
            obs.outcome = o.class();
        }
        Step::AbandonTimedOut => {
            ldap.with_timeout(Duration::from_millis(100));
            let o1 = invoke(ldap, &Call::Delete { dn: format!("op={},b=silent", tok) }).await;
            let id = ldap.last_id();
            let o = invoke(other, &Call::Abandon(id)).await;
            obs.abandon_target = Some(id);
            obs.outcome = format!("{}+{}", o1.class(), o.class());
        }
        Step::AbandonInflight => {
            let mut l2 = ldap.clone();
            let dn = format!("op={},b=silent", tok);
            let waiter = tokio::spawn(async move { world::watchdog(invoke(&mut l2, &Call::Delete { dn })).await.unwrap_or(Outcome::Hung) });
            world::settle().await;
            let id = ldap.verif_id_table().0;
            let o = invoke(other, &Call::Abandon(id)).await;
            obs.abandon_target = Some(id);
            obs.outcome = o.class();
            obs.waiter = Some(waiter.await.map(|o| o.class()).unwrap_or_else(|_| "task-died".into()));
        }
        Step::AbandonInflightAdapted(n, k, collect) => {
            let mut l2 = ldap.clone();
            let base = format!("op={},b=hold{}:{}", tok, n, k);
            let collect = *collect;
            let waiter = tokio::spawn(async move {
                if collect {
                    match world::watchdog(Caught::new(l2.search(&base, Scope::Subtree, "(a=b)", vec!["*"]))).await {
                        Ok(Ok(Ok(r))) => format!("Ok(entries={},rc={})", r.0.len(), r.1.rc),
                        Ok(Ok(Err(e))) => format!("Err({})", world::err_class(&e)),
                        Ok(Err(p)) => format!("panic:{}", p.site()),
                        Err(()) => "Hung".into(),
                    }
                } else {
                    let adapters: Vec<Box<dyn Adapter<'static, String, Vec<String>>>> = vec![Box::new(EntriesOnly::new())];
                    let mut st = match l2.streaming_search_with(adapters, &base, Scope::Subtree, "(a=b)", vec!["*".to_string()]).await {
                        Ok(s) => s,
                        Err(e) => return format!("start-err:{}", world::err_class(&e)),
                    };
                    let mut n = 0;
                    loop {
                        match world::watchdog(st.next()).await {
                            Ok(Ok(Some(_))) => n += 1,
                            Ok(Ok(None)) => break format!("items={}:end", n),
                            Ok(Err(e)) => {
                                let _ = st.finish().await;
                                break format!("items={}:Err({})", n, world::err_class(&e));
                            }
                            Err(()) => break format!("items={}:Hung", n),
                        }
                    }
                }
            });
            world::settle().await;
            // the search is the operation started last
            let id = ldap.verif_id_table().0;
            let o = invoke(other, &Call::Abandon(id)).await;
            obs.abandon_target = Some(id);
            obs.outcome = o.class();
            obs.waiter = Some(waiter.await.unwrap_or_else(|_| "task-died".into()));
        }
        Step::AbandonInflightStream(n, k) => {
            let mut l2 = ldap.clone();
            let base = format!("op={},b=hold{}:{}", tok, n, k);
            let (idtx, idrx) = tokio::sync::oneshot::channel();
            let waiter = tokio::spawn(async move {
                let st = l2.streaming_search(&base, Scope::Subtree, "(a=b)", vec!["*"]).await;
                let mut st = match st {
                    Ok(s) => s,
                    Err(e) => return format!("start-err:{}", world::err_class(&e)),
                };
                let _ = idtx.send(st.ldap_handle().last_id());
                let mut n = 0;
                loop {
                    match world::watchdog(st.next()).await {
                        Ok(Ok(Some(_))) => n += 1,
                        Ok(Ok(None)) => break format!("items={}:end", n),
                        Ok(Err(e)) => {
                            let _ = st.finish().await;
                            break format!("items={}:Err({})", n, world::err_class(&e));
                        }
                        Err(()) => break format!("items={}:Hung", n),
                    }
                }
            });
            let id = idrx.await.unwrap_or(0);
            world::settle().await;
            let o = invoke(other, &Call::Abandon(id)).await;
            obs.abandon_target = Some(id);
            obs.outcome = o.class();
            obs.waiter = Some(waiter.await.unwrap_or_else(|_| "task-died".into()));
        }
    }
    obs
}

fn run_case(i: u64, rng: &mut Rng, rep: &mut Report, nsteps: usize, verbose: bool) {
    let steps: Vec<Step> = (0..nsteps).map(|_| gen_step(rng)).collect();
    let rt = runtime(rng.next());
    let steps2 = steps.clone();
    let (obs, tables, seen, drv) = rt.block_on(async move {
        let c = connect();
        let mut ldap = c.ldap;
        let mut other = ldap.clone();
        let gauges = ldap.verif_gauges();
        let ctl = c.server.ctl();
        let srv = tokio::spawn(behaviour_server(c.server));
        let mut obs = vec![];
        let mut tables = vec![];
        let mut last_finished = 0;
        for (k, s) in steps2.iter().enumerate() {
            let o = world::watchdog(run_step(&mut ldap, &mut other, s, i * 1000 + k as u64, &mut last_finished, &ctl)).await.unwrap_or(StepObs { outcome: "HUNG".into(), ..Default::default() });
            obs.push(o);
            // quiescent point: let late replies arrive, then nothing is outstanding
            tokio::time::sleep(Duration::from_millis(1500)).await;
            let (last, inuse) = ldap.verif_id_table();
            tables.push((last, inuse, gauges.resultmap_len.load(SeqCst), gauges.searchmap_len.load(SeqCst)));
        }
        drop(ldap);
        drop(other);
        let seen = srv.await.unwrap_or_default();
        (obs, tables, seen, c.driver.await)
    });
    let replay = json!({"lane":"histories","case":i,"steps":nsteps});
    let mut prev: (Vec<i32>, usize, usize) = (vec![], 0, 0);
    for (k, s) in steps.iter().enumerate() {
        let (_, inuse, rm, sm) = &tables[k];
        let new_ids: Vec<i32> = inuse.iter().filter(|x| !prev.0.contains(x)).copied().collect();
        if !new_ids.is_empty() {
            rep.violation(format!("C13:id-retained-after:{}", s.kind()), format!("step {} ({:?}) outcome {:?}: IDs {:?} still reserved at the next quiescent point (in use now {:?})", k, s, obs[k].outcome, new_ids, inuse), replay.clone());
        }
        if *rm > prev.1 {
            rep.violation(format!("C13:routing-state-retained-after:{}:result-map", s.kind()), format!("step {} ({:?}): result map size {} -> {}", k, s, prev.1, rm), replay.clone());
        }
        if *sm > prev.2 {
            rep.violation(format!("C13:routing-state-retained-after:{}:search-map", s.kind()), format!("step {} ({:?}): search map size {} -> {}", k, s, prev.2, sm), replay.clone());
        }
        prev = (inuse.clone(), *rm, *sm);
        // abandon semantics
        if let Some(t) = obs[k].abandon_target {
            let named = seen.iter().any(|m| matches!(m.op, Req::Abandon(x) if x == t as i64));
            if !named {
                rep.violation("C13:abandon-request-does-not-name-the-given-id", format!("step {} target {}: abandon requests seen {:?}", k, t, seen.iter().filter_map(|m| if let Req::Abandon(x) = m.op { Some(x) } else { None }).collect::<Vec<_>>()), replay.clone());
            }
            if !obs[k].outcome.ends_with("Ok") {
                rep.violation("C13:abandon-call-failed", format!("step {}: {}", k, obs[k].outcome), replay.clone());
            }
            if let Some(w) = &obs[k].waiter {
                if !(w.contains("Err(")) {
                    rep.violation(format!("C13:abandoned-caller-not-released-with-error:{}", s.kind()), format!("step {}: waiter outcome {}", k, w), replay.clone());
                }
            }
            rep.count("abandons", 1);
        }
        if obs[k].outcome.contains("HUNG") || obs[k].outcome.contains("panic") {
            rep.violation(format!("C13:step-did-not-complete:{}", s.kind()), obs[k].outcome.clone(), replay.clone());
        }
        rep.count(&format!("step_{}", s.kind()), 1);
        if verbose {
            println!("step {} {:?} -> {:?} table {:?}", k, s, obs[k], tables[k]);
        }
    }
    rep.count("quiescent_points_checked", tables.len() as u64);
    let _ = drv;
    if i < 2 {
        rep.sample(json!({"lane":"histories","case":i,"steps":steps.iter().map(|s| s.kind()).collect::<Vec<_>>(),"outcomes":obs.iter().map(|o| o.outcome.clone()).collect::<Vec<_>>(),"final_table":format!("{:?}", tables.last())}));
    }
    rep.case(Some(fnv(format!("{:?}", steps).as_bytes())));
}

pub fn histories(ctx: &Ctx) -> Report {
    let n = ctx.n(40_000, 50_000_000);
    par_cases(ctx, "histories", n, ctx.secs(30, 600), |i, rng, rep| {
        let nsteps = 3 + rng.usize(18);
        run_case(i, rng, rep, nsteps, false)
    })
}

/// Long histories: sizes at successive quiescent points must stay zero (no growth).
/// The operation that connection setup itself runs (StartTLS) is a completed operation like any
/// other: on a freshly established TLS connection, and after further completed operations, no message
/// ID is reserved. Real loopback TCP + TLS (the in-memory transport cannot do StartTLS).
pub fn tls_connections(_ctx: &Ctx) -> Report {
    let mut rep = Report::new();
    if std::env::var("SSL_CERT_FILE").is_err() {
        rep.inconclusive("SSL_CERT_FILE is not set: the TLS connection probe was skipped");
        return rep;
    }
    for (mode, outcome, tables) in crate::lanes::c17::reserved_ids_probe() {
        let replay = json!({"lane":"tls_connections","mode":mode});
        if outcome != "Ok" || tables.len() < 2 {
            rep.inconclusive(format!("{}: establishment {} ({} tables)", mode, outcome, tables.len()));
            continue;
        }
        if !tables[0].is_empty() {
            rep.violation("C13:id-retained-after:connection-setup", format!("{}: IDs {:?} reserved right after establishment", mode, tables[0]), replay.clone());
        }
        if !tables[1].is_empty() {
            rep.violation("C13:id-retained-after:operations-on-a-tls-connection", format!("{}: IDs {:?} reserved after two completed binds", mode, tables[1]), replay.clone());
        }
        rep.count("tls_connections_checked", 1);
        rep.case(Some(fnv(mode.as_bytes())));
    }
    rep.sample(json!({"lane":"tls_connections","modes":["ldap + StartTLS","ldaps"]}));
    rep
}

pub fn long_histories(ctx: &Ctx) -> Report {
    let n = ctx.n(160, 100_000);
    par_cases(ctx, "long_histories", n, ctx.secs(30, 600), |i, rng, rep| run_case(i, rng, rep, if ctx.tiny { 20 } else { 600 }, false))
}

pub fn replay(ctx: &Ctx, v: &Value) -> Report {
    let mut rep = Report::new();
    if let Some(i) = v["case"].as_u64() {
        let mut rng = case_rng(ctx.seed, "histories", i);
        let nsteps = 3 + rng.usize(18);
        run_case(i, &mut rng, &mut rep, nsteps, true);
    }
    let _ = gen::token_of(b"");
    rep
}

/// A Search whose reader gave up (stream dropped without finish(), finished early, collecting call
/// cancelled) while the server went on to send the rest of the result, final result included: once
/// that has arrived and nothing is outstanding, no ID is reserved and no routing entry is left.
pub fn given_up_searches(ctx: &Ctx) -> Report {
    let n = ctx.n(4_000, 2_000_000);
    par_cases(ctx, "given_up_searches", n, ctx.secs(10, 200), |i, rng, rep| {
        let o = crate::lanes::c10::dropped_neighbour_case(rng);
        let replay = json!({"lane":"given_up_searches","case":i});
        if !o.ids_left.is_empty() {
            rep.violation(format!("C13:id-retained-after:search-given-up-by-its-reader-and-completed-by-the-server:{}", o.how), format!("{}: IDs {:?} still reserved with nothing outstanding; driver {}", o.how, o.ids_left, o.driver), replay.clone());
        }
        if o.maps_left != (0, 0) {
            rep.violation(format!("C13:routing-state-retained-after:search-given-up-by-its-reader-and-completed-by-the-server:{}", o.how), format!("{}: result map {} search map {}", o.how, o.maps_left.0, o.maps_left.1), replay);
        }
        rep.count(&format!("given_up_{}", o.how), 1);
        rep.case(Some(fnv(format!("{}{}{}", o.how, o.split, o.b_expected.len()).as_bytes())));
    })
}

/// Operations attempted after the connection has ended are failed operations like any other: none
/// of them may leave a message ID reserved (a caller retrying on a dead handle must not grow the
/// table with every attempt).
pub fn dead_connection(ctx: &Ctx) -> Report {
    let n = ctx.n(2_000, 500_000);
    par_cases(ctx, "dead_connection", n, ctx.secs(10, 150), |i, rng, rep| {
        let warm = rng.usize(3);
        let attempts: Vec<u8> = (0..1 + rng.usize(12)).map(|_| rng.below(6) as u8).collect();
        let how = *rng.pick(&["server-eof", "undecodable-frame", "unbind"]);
        let rt = runtime(rng.next());
        let at2 = attempts.clone();
        let (outs, table, drv) = rt.block_on(async move {
            let c = connect();
            let mut ldap = c.ldap;
            let server = c.server;
            let tx = server.tx();
            let srv = tokio::spawn(behaviour_server(server));
            for k in 0..warm {
                let _ = world::watchdog(invoke(&mut ldap, &Call::Delete { dn: format!("op={},b=normal", k) })).await;
            }
            match how {
                "server-eof" => tx.eof(),
                "undecodable-frame" => tx.send(&[0x30, 0x00]),
                _ => {
                    let _ = world::watchdog(invoke(&mut ldap, &Call::Unbind)).await;
                }
            }
            world::settle().await;
            world::settle().await;
            let mut outs = vec![];
            let mut leaked: Vec<i32> = vec![];
            for (k, a) in at2.iter().enumerate() {
                let dn = format!("op={},b=normal", 100 + k);
                // only attempts made when the handle already reports the connection as closed are judged: an
                // operation that was accepted and then lost its connection is a different matter
                let closed_before = ldap.is_closed();
                let before = ldap.verif_id_table().1;
                let o = match a {
                    0 => world::watchdog(invoke(&mut ldap, &Call::Delete { dn })).await.map(|o| o.class()).unwrap_or_else(|_| "Hung".into()),
                    1 => world::watchdog(invoke(&mut ldap, &Call::Bind { dn, pw: "x".into() })).await.map(|o| o.class()).unwrap_or_else(|_| "Hung".into()),
                    2 => match world::watchdog(ldap.streaming_search(&dn, Scope::Subtree, "(a=b)", vec!["*"])).await {
                        Ok(Ok(mut st)) => {
                            let _ = world::watchdog(st.next()).await;
                            let _ = st.finish().await;
                            "Ok".to_string()
                        }
                        Ok(Err(e)) => format!("Err({})", world::err_class(&e)),
                        Err(()) => "Hung".into(),
                    },
                    3 => match world::watchdog(ldap.search(&dn, Scope::Subtree, "(a=b)", vec!["*"])).await {
                        Ok(Ok(_)) => "Ok".to_string(),
                        Ok(Err(e)) => format!("Err({})", world::err_class(&e)),
                        Err(()) => "Hung".into(),
                    },
                    4 => world::watchdog(invoke(&mut ldap, &Call::Abandon(1))).await.map(|o| o.class()).unwrap_or_else(|_| "Hung".into()),
                    _ => {
                        ldap.with_timeout(Duration::from_millis(50));
                        world::watchdog(invoke(&mut ldap, &Call::Compare { dn, attr: "a".into(), val: b"v".to_vec() })).await.map(|o| o.class()).unwrap_or_else(|_| "Hung".into())
                    }
                };
                world::settle().await;
                if closed_before {
                    for id in ldap.verif_id_table().1 {
                        if !before.contains(&id) {
                            leaked.push(id);
                        }
                    }
                }
                outs.push(format!("{}{}", o, if closed_before { "" } else { "(handle still open)" }));
            }
            world::settle().await;
            let table = leaked;
            drop(ldap);
            let _ = srv.await;
            (outs, table, format!("{:?}", c.driver.await))
        });
        let replay = json!({"lane":"dead_connection","case":i});
        if !table.is_empty() {
            rep.violation(
                format!("C13:id-retained-after:operation-attempted-on-an-ended-connection:{}", how),
                format!("connection ended by {}; {} further attempts ({:?}) -> {:?}; IDs still reserved {:?}; driver {}", how, attempts.len(), attempts, outs, table, drv),
                replay.clone(),
            );
        }
        if outs.iter().any(|o| o.starts_with("Hung")) {
            rep.violation("C13:operation-on-an-ended-connection-hangs", format!("{:?}", outs), replay);
        }
        rep.count(&format!("ended_by_{}", how), 1);
        rep.count("attempts_on_an_ended_connection", attempts.len() as u64);
        rep.case(Some(fnv(format!("{}{:?}{}", how, attempts, warm).as_bytes())));
    })
}
