//! C12 — timeouts fire on time, keep the connection usable and orphan the late reply.
use crate::ber;
use crate::gen;
use crate::msg::{reply_for, resp_node, Req, Res, Resp};
use crate::pipe::ServerEnd;
use crate::prng::{fnv, Rng};
use crate::report::{case_rng, par_cases, Ctx, Report};
use crate::world::{self, connect, runtime, Caught};
use ldap3::{Ldap, Scope};
use serde_json::{json, Value};
use std::collections::HashMap;
use std::sync::atomic::Ordering::SeqCst;
use std::time::Duration;
use tokio::time::Instant;

#[derive(Clone, Debug)]
pub enum OpSpec {
    /// reply delay in ms (None = never)
    Single { delay: Option<u64> },
    /// gaps between consecutive items in ms, then the gap before Done (None = never sent); `kinds[k]`
    /// says what item k is: 0 entry, 1 reference, 2 intermediate response (every received item
    /// restarts the timer, whether or not the caller gets to see it)
    Search { gaps: Vec<u64>, done_gap: Option<u64>, kinds: Vec<u8> },
}

#[derive(Clone, Debug)]
pub struct TimedOp {
    pub token: u64,
    pub timeout: Option<u64>,
    pub spec: OpSpec,
    /// searches only: run through the PagedResults adapter with this page size (the per-item
    /// timeout applies to a paged search exactly as to a plain one)
    pub paged: Option<i32>,
    /// unpaged searches only: go through the collecting entry point `Ldap::search()`; the timeout
    /// governs each wait for an item there as well, and its expiry is an error, not a short result
    pub collect: bool,
    /// plain streaming searches only: the timeout is not given with `with_timeout()` before the call but by a
    /// user-defined adapter in its `start()` (`stream.ldap_handle().with_timeout(..)`, the one place where the
    /// documentation says the handle of a stream may be changed to affect the operation); 2 = the caller
    /// also gave a timeout of 30 s, which the adapter tightens
    pub via_adapter: u8,
}

/// Adapter that does nothing but set the operation's timeout while the search is being started.
#[derive(Clone, Debug)]
pub struct TimeoutSetter(pub Duration);
impl ldap3::adapters::SoloMarker for TimeoutSetter {}

#[async_trait::async_trait]
impl<'a, S, A> ldap3::adapters::Adapter<'a, S, A> for TimeoutSetter
where
    S: AsRef<str> + Send + Sync + 'a,
    A: AsRef<[S]> + Send + Sync + 'a,
{
    async fn start(&mut self, stream: &mut ldap3::SearchStream<'a, S, A>, base: &str, scope: Scope, filter: &str, attrs: A) -> ldap3::result::Result<()> {
        stream.ldap_handle().with_timeout(self.0);
        stream.start(base, scope, filter, attrs).await
    }
    async fn next(&mut self, stream: &mut ldap3::SearchStream<'a, S, A>) -> ldap3::result::Result<Option<ldap3::ResultEntry>> {
        stream.next().await
    }
    async fn finish(&mut self, stream: &mut ldap3::SearchStream<'a, S, A>) -> ldap3::result::LdapResult {
        stream.finish().await
    }
}

fn encode_behaviour(op: &TimedOp) -> String {
    match &op.spec {
        OpSpec::Single { delay } => format!("op={},b=d{}", op.token, delay.map(|d| d.to_string()).unwrap_or_else(|| "x".into())),
        OpSpec::Search { gaps, done_gap, kinds } => {
            let mut parts: Vec<String> = gaps.iter().enumerate().map(|(k, g)| format!("{}{}", g, match kinds.get(k) { Some(1) => "r", Some(2) => "i", _ => "" })).collect();
            parts.push(done_gap.map(|d| d.to_string()).unwrap_or_else(|| "x".into()));
            format!("op={},b=g{}", op.token, parts.join(":"))
        }
    }
}

async fn timing_server(mut server: ServerEnd) -> HashMap<u64, i64> {
    let tx = server.tx();
    let mut ids: HashMap<u64, i64> = HashMap::new();
    while let Some(w) = server.request().await {
        let m = match w.msg {
            Ok(m) => m,
            Err(_) => continue,
        };
        let field = match m.op.token_field() {
            Some(f) => String::from_utf8_lossy(f).into_owned(),
            None => continue,
        };
        let tok = gen::token_of(field.as_bytes()).unwrap_or(0);
        ids.insert(tok, m.id);
        let b = field.split(',').find_map(|p| p.strip_prefix("b=")).unwrap_or("d0").to_string();
        let id = m.id;
        match &m.op {
            Req::Search { .. } if m.controls.as_ref().map(|cs| cs.iter().any(|c| c.oid == crate::lanes::c13::PAGED_OID.as_bytes())).unwrap_or(false) => {
                use crate::lanes::c13::{paged_value, parse_paged, PAGED_OID};
                use crate::msg::{CritEnc, RespCtl};
                let parts: Vec<String> = b.trim_start_matches('g').split(':').map(|s| s.to_string()).collect();
                let (size, cookie) = m.controls.as_ref().and_then(|cs| cs.iter().find(|c| c.oid == PAGED_OID.as_bytes())).and_then(|c| c.val.as_ref()).and_then(|v| parse_paged(v)).unwrap_or((1, vec![]));
                let off: usize = String::from_utf8_lossy(&cookie).parse().unwrap_or(0);
                let size = size.max(1) as usize;
                let tx = tx.clone();
                tokio::spawn(async move {
                    let n_items = parts.len() - 1;
                    let end = (off + size).min(n_items);
                    for k in off..end {
                        let mut d: u64 = match parts[k].parse() {
                            Ok(d) => d,
                            Err(_) => return,
                        };
                        if k == off && off > 0 {
                            // the first half of this gap was spent before the previous page's result
                            d -= d / 2;
                        }
                        if d > 0 {
                            tokio::time::sleep(Duration::from_millis(d)).await;
                        }
                        tx.send(&ber::encode_min(&resp_node(id, &Resp::Entry { dn: format!("e={}.{},dc=x", tok, k).into_bytes(), attrs: vec![] }, None)));
                    }
                    if end < n_items {
                        // page boundary: the page's result (with the cookie for the next page) arrives half-way
                        // through the gap before the next item, so that the wait for it and the wait for the
                        // next page's first item are two waits of their own
                        let half: u64 = match parts[end].parse::<u64>() {
                            Ok(g) => g / 2,
                            Err(_) => return,
                        };
                        if half > 0 {
                            tokio::time::sleep(Duration::from_millis(half)).await;
                        }
                        let c = RespCtl { oid: PAGED_OID.into(), crit: CritEnc::Absent, val: Some(paged_value(0, end.to_string().as_bytes())) };
                        tx.send(&ber::encode_min(&resp_node(id, &Resp::Done(Res::ok("page")), Some(&[c]))));
                    } else {
                        let d: u64 = match parts[n_items].parse() {
                            Ok(d) => d,
                            Err(_) => return, // 'x' = never
                        };
                        if d > 0 {
                            tokio::time::sleep(Duration::from_millis(d)).await;
                        }
                        let c = RespCtl { oid: PAGED_OID.into(), crit: CritEnc::Absent, val: Some(paged_value(0, b"")) };
                        tx.send(&ber::encode_min(&resp_node(id, &Resp::Done(Res::ok(&format!("t:{}:done", tok))), Some(&[c]))));
                    }
                });
            }
            Req::Search { .. } => {
                let parts: Vec<String> = b.trim_start_matches('g').split(':').map(|s| s.to_string()).collect();
                let tx = tx.clone();
                tokio::spawn(async move {
                    let n = parts.len();
                    for (k, p) in parts.iter().enumerate() {
                        let kind = if p.ends_with('r') { 1 } else if p.ends_with('i') { 2 } else { 0 };
                        let d: u64 = match p.trim_end_matches(|c| c == 'r' || c == 'i').parse() {
                            Ok(d) => d,
                            Err(_) => return, // 'x' = never
                        };
                        if d > 0 {
                            tokio::time::sleep(Duration::from_millis(d)).await;
                        }
                        let name = format!("e={}.{},dc=x", tok, k);
                        let bytes = if k + 1 == n {
                            ber::encode_min(&resp_node(id, &Resp::Done(Res::ok(&format!("t:{}:done", tok))), None))
                        } else if kind == 1 {
                            ber::encode_min(&resp_node(id, &Resp::Reference(vec![name]), None))
                        } else if kind == 2 {
                            ber::encode_min(&resp_node(id, &Resp::Intermediate { name: Some(name), value: None }, None))
                        } else {
                            ber::encode_min(&resp_node(id, &Resp::Entry { dn: name.into_bytes(), attrs: vec![] }, None))
                        };
                        tx.send(&bytes);
                    }
                });
            }
            op => {
                if let Some(r) = reply_for(op, Res::ok(&format!("t:{}:reply", tok))) {
                    let bytes = ber::encode_min(&resp_node(id, &r, None));
                    match b.trim_start_matches('d').parse::<u64>() {
                        Ok(0) => tx.send(&bytes),
                        Ok(d) => {
                            let tx = tx.clone();
                            tokio::spawn(async move {
                                tokio::time::sleep(Duration::from_millis(d)).await;
                                tx.send(&bytes);
                            });
                        }
                        Err(_) => {}
                    }
                }
            }
        }
    }
    ids
}

/// One observed event of a client op: (virtual ms since op start, what)
#[derive(Clone, Debug, PartialEq)]
pub enum Ev {
    Ok(String),
    Item(String),
    End,
    Timeout,
    Err(String),
    Finish(u32, String),
}

/// Timeout values at and above this sentinel stand for "effectively forever" durations, which must
/// behave like no timeout at all (and must not, e.g., overflow a deadline computation).
pub const HUGE: u64 = u64::MAX - 2;

fn dur_of(t: u64) -> Duration {
    match t {
        u64::MAX => Duration::MAX,
        x if x == u64::MAX - 1 => Duration::from_secs(u64::MAX),
        x if x == HUGE => Duration::from_secs(i64::MAX as u64),
        ms => Duration::from_millis(ms),
    }
}

/// The timeout as far as the expected timeline is concerned.
fn effective(t: Option<u64>) -> Option<u64> {
    match t {
        Some(x) if x >= HUGE => None,
        other => other,
    }
}

async fn run_op(ldap: &mut Ldap, op: &TimedOp) -> Vec<(u64, Ev)> {
    let t0 = Instant::now();
    let ms = |t0: Instant| t0.elapsed().as_millis() as u64;
    let mut evs = vec![];
    let dn = encode_behaviour(op);
    if op.via_adapter == 2 {
        ldap.with_timeout(Duration::from_secs(30));
    } else if op.via_adapter == 0 {
        if let Some(t) = op.timeout {
            ldap.with_timeout(dur_of(t));
        }
    }
    match &op.spec {
        OpSpec::Single { .. } => {
            let r = Caught::new(ldap.delete(&dn)).await;
            let e = match r {
                Ok(Ok(r)) => Ev::Ok(r.text),
                Ok(Err(ldap3::LdapError::Timeout { .. })) => Ev::Timeout,
                Ok(Err(e)) => Ev::Err(world::err_class(&e).into()),
                Err(p) => Ev::Err(format!("panic:{}", p.site())),
            };
            evs.push((ms(t0), e));
        }
        OpSpec::Search { .. } if op.collect && op.paged.is_none() => {
            let r = Caught::new(ldap.search(&dn, Scope::Subtree, "(a=b)", vec!["*"])).await;
            let e = match r {
                Ok(Ok(ldap3::SearchResult(items, res))) => Ev::Ok(format!("collected:{}:{}:{}", items.len(), res.rc, res.text)),
                Ok(Err(ldap3::LdapError::Timeout { .. })) => Ev::Timeout,
                Ok(Err(e)) => Ev::Err(world::err_class(&e).into()),
                Err(p) => Ev::Err(format!("panic:{}", p.site())),
            };
            evs.push((ms(t0), e));
        }
        OpSpec::Search { .. } => {
            let st = match op.paged {
                None if op.via_adapter > 0 => {
                    let adapters: Vec<Box<dyn ldap3::adapters::Adapter<'static, &str, Vec<&str>>>> = vec![Box::new(TimeoutSetter(dur_of(op.timeout.unwrap_or(0))))];
                    Caught::new(ldap.streaming_search_with(adapters, &dn, Scope::Subtree, "(a=b)", vec!["*"])).await
                }
                None => Caught::new(ldap.streaming_search(&dn, Scope::Subtree, "(a=b)", vec!["*"])).await,
                Some(p) => {
                    let adapters: Vec<Box<dyn ldap3::adapters::Adapter<'static, &str, Vec<&str>>>> = vec![Box::new(ldap3::adapters::PagedResults::new(p))];
                    Caught::new(ldap.streaming_search_with(adapters, &dn, Scope::Subtree, "(a=b)", vec!["*"])).await
                }
            };
            let mut st = match st {
                Ok(Ok(s)) => s,
                Ok(Err(ldap3::LdapError::Timeout { .. })) => {
                    evs.push((ms(t0), Ev::Timeout));
                    return evs;
                }
                Ok(Err(e)) => {
                    evs.push((ms(t0), Ev::Err(world::err_class(&e).into())));
                    return evs;
                }
                Err(p) => {
                    evs.push((ms(t0), Ev::Err(format!("panic:{}", p.site()))));
                    return evs;
                }
            };
            loop {
                match Caught::new(st.next()).await {
                    Ok(Ok(Some(e))) => {
                        let dn = match &world::item_out(&e).node {
                            ber::Node::C { kids, .. } => match kids.first() {
                                Some(ber::Node::P { data, .. }) => String::from_utf8_lossy(data).into_owned(),
                                _ => "?".into(),
                            },
                            _ => "?".into(),
                        };
                        evs.push((ms(t0), Ev::Item(dn)));
                    }
                    Ok(Ok(None)) => {
                        evs.push((ms(t0), Ev::End));
                        break;
                    }
                    Ok(Err(ldap3::LdapError::Timeout { .. })) => {
                        evs.push((ms(t0), Ev::Timeout));
                        // the Search is over: asking again yields nothing, at once (no further wait, and
                        // certainly none of the items that arrive late)
                        let again = match Caught::new(st.next()).await {
                            Ok(Ok(None)) => None,
                            Ok(Ok(Some(_))) => Some("a-late-item".to_string()),
                            Ok(Err(ldap3::LdapError::Timeout { .. })) => Some("another-wait-and-timeout".to_string()),
                            Ok(Err(e)) => Some(format!("error-{}", world::err_class(&e))),
                            Err(p) => Some(format!("panic:{}", p.site())),
                        };
                        if let Some(a) = again {
                            evs.push((ms(t0), Ev::Err(format!("next-after-timeout-returned-{}", a))));
                        }
                        break;
                    }
                    Ok(Err(e)) => {
                        evs.push((ms(t0), Ev::Err(world::err_class(&e).into())));
                        break;
                    }
                    Err(p) => {
                        evs.push((ms(t0), Ev::Err(format!("panic:{}", p.site()))));
                        break;
                    }
                }
            }
            let r = st.finish().await;
            evs.push((ms(t0), Ev::Finish(r.rc, r.text)));
        }
    }
    evs
}

/// Expected events; `None` entries mark a tie (arrival exactly at the deadline): either is fine.
fn expected(op: &TimedOp) -> (Vec<(u64, Ev)>, bool) {
    let tok = op.token;
    let mut evs = vec![];
    let mut tie = false;
    let op = &TimedOp { token: op.token, timeout: effective(op.timeout), spec: op.spec.clone(), paged: op.paged, collect: op.collect, via_adapter: op.via_adapter };
    if op.timeout == Some(0) {
        // deadline "now": no response can have arrived; a search does not even start
        return (vec![(0, Ev::Timeout)], false);
    }
    match &op.spec {
        OpSpec::Single { delay } => match (op.timeout, delay) {
            (None, Some(d)) => evs.push((*d, Ev::Ok(format!("t:{}:reply", tok)))),
            (Some(t), Some(d)) if *d < t => evs.push((*d, Ev::Ok(format!("t:{}:reply", tok)))),
            (Some(t), Some(d)) if *d == t => {
                tie = true;
                evs.push((t, Ev::Timeout));
            }
            (Some(t), _) => evs.push((t, Ev::Timeout)),
            (None, None) => {}
        },
        OpSpec::Search { gaps, done_gap, kinds } => {
            let mut now = 0u64;
            let mut timed_out = false;
            for (k, g) in gaps.iter().enumerate() {
                let boundary = matches!(op.paged, Some(p) if k > 0 && k % (p as usize) == 0);
                if let Some(t) = op.timeout {
                    if boundary {
                        // two waits: g/2 for the previous page's result, the rest for this page's first item
                        let (a, b) = (*g / 2, *g - *g / 2);
                        if a == t || b == t {
                            tie = true;
                        }
                        if a > t {
                            evs.push((now + t, Ev::Timeout));
                            timed_out = true;
                            break;
                        }
                        if b > t {
                            evs.push((now + a + t, Ev::Timeout));
                            timed_out = true;
                            break;
                        }
                        if a == t || b == t {
                            tie = true;
                        }
                    } else {
                        if *g > t {
                            evs.push((now + t, Ev::Timeout));
                            timed_out = true;
                            break;
                        }
                        if *g == t {
                            tie = true;
                        }
                    }
                }
                now += g;
                evs.push((now, Ev::Item(format!("e={}.{},dc=x", tok, k))));
            }
            if !timed_out {
                match (op.timeout, done_gap) {
                    (Some(t), Some(g)) if *g > t => {
                        evs.push((now + t, Ev::Timeout));
                        timed_out = true;
                    }
                    (Some(t), None) => {
                        evs.push((now + t, Ev::Timeout));
                        timed_out = true;
                    }
                    (_, Some(g)) => {
                        if Some(*g) == op.timeout {
                            tie = true;
                        }
                        now += g;
                        evs.push((now, Ev::End));
                    }
                    (None, None) => {}
                }
            }
            if op.collect && op.paged.is_none() {
                // one event: the call's return; only entries are collected, the URIs of the references
                // go into the result
                let n = evs.iter().enumerate().filter(|(k, e)| matches!(e.1, Ev::Item(_)) && kinds.get(*k).copied().unwrap_or(0) == 0).count();
                let last = evs.last().cloned();
                evs.clear();
                match last {
                    Some((t, Ev::Timeout)) => evs.push((t, Ev::Timeout)),
                    Some((t, Ev::End)) => evs.push((t, Ev::Ok(format!("collected:{}:0:t:{}:done", n, tok)))),
                    _ => {}
                }
                return (evs, tie);
            }
            let last = evs.last().map(|e| e.0).unwrap_or(0);
            if timed_out {
                evs.push((last, Ev::Finish(88, "user cancelled".into())));
            } else {
                evs.push((last, Ev::Finish(0, format!("t:{}:done", tok))));
            }
        }
    }
    (evs, tie)
}

pub fn gen_op(rng: &mut Rng, token: u64) -> TimedOp {
    let tvals = [0u64, 1, 10, 50, 100, 1000, 60_000, 3_600_000];
    let mut timeout = if rng.chance(3, 4) { Some(*rng.pick(&tvals)) } else { None };
    let huge = rng.chance(1, 12);
    if huge {
        // delays are generated as for an untimed operation; the sentinel is put in afterwards
        timeout = None;
    }
    let near = |rng: &mut Rng, t: Option<u64>| -> u64 {
        match (t, rng.below(6)) {
            (Some(t), 0) => t,
            (Some(t), 1) => t.saturating_sub(1),
            (Some(t), 2) => t + 1,
            (Some(t), 3) => t / 2,
            (Some(t), 4) => t * 2 + 5,
            _ => *rng.pick(&[0u64, 0, 3, 20, 70, 500, 5000]),
        }
    };
    let spec = if rng.bool() {
        let delay = if timeout.is_some() && rng.chance(1, 5) { None } else { Some(near(rng, timeout)) };
        OpSpec::Single { delay }
    } else {
        let n = rng.usize(7);
        let gaps: Vec<u64> = (0..n).map(|_| near(rng, timeout)).collect();
        let done_gap = if timeout.is_some() && rng.chance(1, 5) { None } else { Some(near(rng, timeout)) };
        let mixed = rng.chance(1, 3);
        let kinds: Vec<u8> = (0..n).map(|_| if mixed { rng.below(3) as u8 } else { 0 }).collect();
        OpSpec::Search { gaps, done_gap, kinds }
    };
    let timeout = if huge { Some(*rng.pick(&[u64::MAX, u64::MAX - 1, HUGE])) } else { timeout };
    let paged = if matches!(&spec, OpSpec::Search { kinds, .. } if kinds.iter().all(|k| *k == 0)) && rng.chance(1, 4) { Some(1 + rng.below(3) as i32) } else { None };
    let collect = matches!(spec, OpSpec::Search { .. }) && paged.is_none() && rng.chance(1, 4);
    let via_adapter = if matches!(spec, OpSpec::Search { .. }) && paged.is_none() && !collect && matches!(timeout, Some(t) if t < HUGE && t > 0) && rng.chance(1, 4) { 1 + rng.below(2) as u8 } else { 0 };
    TimedOp { token, timeout, spec, paged, collect, via_adapter }
}

fn run_case(i: u64, rng: &mut Rng, rep: &mut Report, verbose: bool) {
    let nh = 1 + rng.usize(4);
    let mut programs: Vec<Vec<TimedOp>> = vec![];
    let mut tok = i * 1000;
    for _ in 0..nh {
        let n = 1 + rng.usize(6);
        programs.push((0..n).map(|_| { tok += 1; gen_op(rng, tok) }).collect());
    }
    let rt = runtime(rng.next());
    let progs = programs.clone();
    let reuse_tok = i * 1000 + 999;
    let max_total_delay: u64 = programs
        .iter()
        .flatten()
        .map(|op| match &op.spec {
            OpSpec::Single { delay } => delay.unwrap_or(0),
            OpSpec::Search { gaps, done_gap, .. } => gaps.iter().sum::<u64>() + done_gap.unwrap_or(0),
        })
        .max()
        .unwrap_or(0);
    let (results, ids, table_after, maps_after, reuse, drv) = rt.block_on(async move {
        let c = connect();
        let srv = tokio::spawn(timing_server(c.server));
        let mut tasks = vec![];
        for p in progs {
            let mut l = c.ldap.clone();
            tasks.push(tokio::spawn(async move {
                let mut outs = vec![];
                for op in &p {
                    outs.push(world::watchdog(run_op(&mut l, op)).await.unwrap_or_else(|_| vec![(0, Ev::Err("HUNG".into()))]));
                }
                outs
            }));
        }
        let mut results = vec![];
        for t in tasks {
            results.push(t.await.unwrap_or_default());
        }
        // let every late reply arrive: wait longer than the longest cumulative delay of any operation
        tokio::time::sleep(Duration::from_millis(max_total_delay + 60_000)).await;
        let mut ldap = c.ldap;
        let table_after = ldap.verif_id_table();
        let g = ldap.verif_gauges();
        let maps_after = (g.resultmap_len.load(std::sync::atomic::Ordering::SeqCst), g.searchmap_len.load(std::sync::atomic::Ordering::SeqCst));
        // ID reuse: position the counter just below the ID of the first operation and issue one more
        let mut reuse = None;
        if table_after.1.is_empty() {
            ldap.verif_set_last_id(0);
            let op = TimedOp { token: reuse_tok, timeout: None, spec: OpSpec::Single { delay: Some(0) }, paged: None, collect: false, via_adapter: 0 };
            let evs = world::watchdog(run_op(&mut ldap, &op)).await.unwrap_or_default();
            reuse = Some((ldap.last_id(), evs));
        }
        drop(ldap);
        let ids = srv.await.unwrap_or_default();
        (results, ids, table_after, maps_after, reuse, c.driver.await)
    });
    let replay = json!({"lane":"timeouts","case":i});
    let mut any_timeout = false;
    for (p, outs) in programs.iter().zip(&results) {
        for (op, got) in p.iter().zip(outs) {
            let (want, tie) = expected(op);
            let kind = match op.spec { OpSpec::Single { .. } => "single", OpSpec::Search { .. } => "search" };
            if want.iter().any(|e| e.1 == Ev::Timeout) {
                any_timeout = true;
                rep.count("operations_expected_to_time_out", 1);
            }
            if &want != got {
                if tie {
                    rep.count("tie_at_deadline_not_judged", 1);
                } else {
                    // classify
                    let sig = classify(&want, got, op);
                    rep.violation(format!("C12:{}:{}", kind, sig), format!("op {:?}: want {:?} got {:?}", op, want, got), replay.clone());
                }
            }
            // tokens: nothing returned may carry another operation's token
            for (_, e) in got {
                let s = match e { Ev::Ok(s) | Ev::Item(s) | Ev::Finish(_, s) => s.clone(), _ => String::new() };
                if let Some(t) = s.strip_prefix("t:").or_else(|| s.strip_prefix("e=")) {
                    let n: String = t.chars().take_while(|c| c.is_ascii_digit()).collect();
                    if n != op.token.to_string() {
                        rep.violation(format!("C12:late-or-foreign-reply-delivered:{}", kind), format!("op {} received {:?}", op.token, s), replay.clone());
                    }
                }
            }
            rep.count(&format!("ops_{}", kind), 1);
            if verbose {
                println!("{:?}\n   want {:?}\n   got  {:?}{}", op, want, got, if tie { " (tie)" } else { "" });
            }
        }
    }
    if !table_after.1.is_empty() {
        rep.violation("C12:id-not-released-after-timeout", format!("IDs still reserved after every operation ended and every late reply arrived: {:?}", table_after.1), replay.clone());
    }
    if maps_after != (0, 0) {
        rep.violation("C12:routing-state-retained-after-timeout", format!("after every operation ended and every late reply arrived the driver still holds {} result-map and {} search-map entries", maps_after.0, maps_after.1), replay.clone());
    }
    if let Some((id, evs)) = &reuse {
        if *id != 1 {
            rep.violation("C12:released-id-not-reusable", format!("counter positioned at 0, next operation got ID {}", id), replay.clone());
        }
        if evs.first().map(|e| e.1 != Ev::Ok(format!("t:{}:reply", reuse_tok))).unwrap_or(true) {
            rep.violation("C12:operation-on-reused-id-failed", format!("{:?}", evs), replay.clone());
        }
        rep.count("id_reuse_checked", 1);
    }
    match drv {
        Ok(Ok(Ok(()))) => {}
        other => rep.violation("C12:connection-not-usable-after-timeouts", format!("driver ended with {:?}", other), replay.clone()),
    }
    let _ = ids;
    if i < 2 {
        rep.sample(json!({"lane":"timeouts","case":i,"programs":format!("{:?}", programs).chars().take(500).collect::<String>(),"observed":format!("{:?}", results).chars().take(500).collect::<String>()}));
    }
    rep.case(if any_timeout { Some(fnv(format!("{:?}", programs).as_bytes())) } else { None });
}

fn classify(want: &[(u64, Ev)], got: &[(u64, Ev)], op: &TimedOp) -> String {
    let _ = op;
    for (k, w) in want.iter().enumerate() {
        match got.get(k) {
            None => return "events-missing".into(),
            Some(g) if g == w => continue,
            Some(g) => {
                return match (&w.1, &g.1) {
                    (Ev::Timeout, Ev::Timeout) => if g.0 < w.0 { "timeout-fired-early".into() } else { "timeout-fired-late".into() },
                    (Ev::Timeout, Ev::Ok(s)) if s.starts_with("collected:") => "search()-returned-a-result-instead-of-timeout".into(),
                    (Ev::Timeout, Ev::Ok(_)) | (Ev::Timeout, Ev::Item(_)) | (Ev::Timeout, Ev::End) => "response-after-deadline-accepted-instead-of-timeout".into(),
                    (Ev::Timeout, Ev::Err(e)) => format!("error-{}-instead-of-timeout", e),
                    (Ev::Ok(_), Ev::Timeout) | (Ev::Item(_), Ev::Timeout) | (Ev::End, Ev::Timeout) => "timed-out-although-response-arrived-before-deadline".into(),
                    (Ev::Item(_), Ev::Item(_)) | (Ev::Ok(_), Ev::Ok(_)) | (Ev::End, Ev::End) => if g.0 != w.0 { "response-delivered-at-wrong-time".into() } else { "wrong-response".into() },
                    (Ev::Finish(..), Ev::Finish(..)) => "finish-result-differs".into(),
                    (_, Ev::Err(e)) => format!("operation-failed-with-{}", e),
                    _ => "event-differs".into(),
                };
            }
        }
    }
    "extra-events".into()
}

/// The deadline of an operation does not depend on what the driver is busy with: while the driver is
/// stuck writing another handle's large request (the peer has stopped reading), a timed operation -
/// single, the start of a streaming search, or a search() call - still fails with Timeout at its
/// deadline, and is cleaned up once the peer reads again.
pub fn stalled_driver(ctx: &Ctx) -> Report {
    let n = ctx.n(4_000, 1_000_000);
    par_cases(ctx, "stalled_driver", n, ctx.secs(15, 200), |i, rng, rep| {
        let t_ms = *rng.pick(&[1u64, 10, 50, 100, 250]);
        let kind = rng.below(3);
        let release_after = 300 + rng.below(500);
        let big = 2_000 + rng.usize(100_000);
        let rt = runtime(rng.next());
        let crowd = *rng.pick(&[0usize, 0, 3, 40, 70]);
        let (obs, elapsed, table, maps, later, crowd_bad) = rt.block_on(async move {
            let c = connect();
            let ldap = c.ldap;
            let mut server = c.server;
            let ctl = server.ctl();
            let gauges = ldap.verif_gauges();
            ctl.stall_writes_after(big / 2);
            let mut lx = ldap.clone();
            let x = tokio::spawn(async move { lx.add(&format!("op=9,cn={}", "x".repeat(big)), vec![("a", std::collections::HashSet::from(["v"]))]).await.map(|r| r.rc) });
            crate::world::settle().await;
            let rel = ctl.clone();
            let releaser = tokio::spawn(async move {
                tokio::time::sleep(Duration::from_millis(release_after)).await;
                rel.release_writes();
            });
            // a crowd of other timed operations gives up during the same stall: each of them at its own deadline
            let mut crowd_tasks = vec![];
            for k in 0..crowd {
                let mut lc = ldap.clone();
                crowd_tasks.push(tokio::spawn(async move {
                    lc.with_timeout(Duration::from_millis(t_ms));
                    let t0 = Instant::now();
                    let r = world::watchdog(Caught::new(lc.delete(&format!("op={},b=d0", 100 + k)))).await;
                    let e = t0.elapsed().as_millis() as u64;
                    match r {
                        Ok(Ok(Err(ldap3::LdapError::Timeout { .. }))) if e == t_ms => None,
                        Ok(Ok(Err(ldap3::LdapError::Timeout { .. }))) => Some(format!("timeout after {} ms instead of {}", e, t_ms)),
                        Ok(Ok(Ok(_))) => Some("answered".to_string()),
                        Ok(Ok(Err(e))) => Some(format!("Err({})", world::err_class(&e))),
                        Ok(Err(p)) => Some(format!("Panic({})", p.site())),
                        Err(()) => Some("never-returned".to_string()),
                    }
                }));
            }
            let mut lt = ldap.clone();
            lt.with_timeout(Duration::from_millis(t_ms));
            let t0 = Instant::now();
            let obs = match kind {
                0 => match Caught::new(lt.delete("op=1,b=d0")).await {
                    Ok(Ok(_)) => "Ok".to_string(),
                    Ok(Err(ldap3::LdapError::Timeout { .. })) => "Timeout".into(),
                    Ok(Err(e)) => format!("Err({})", world::err_class(&e)),
                    Err(p) => format!("Panic({})", p.site()),
                },
                1 => match Caught::new(lt.streaming_search("op=1,b=g0:0", Scope::Subtree, "(a=b)", vec!["*"])).await {
                    Ok(Ok(_)) => "Ok".to_string(),
                    Ok(Err(ldap3::LdapError::Timeout { .. })) => "Timeout".into(),
                    Ok(Err(e)) => format!("Err({})", world::err_class(&e)),
                    Err(p) => format!("Panic({})", p.site()),
                },
                _ => match Caught::new(lt.search("op=1,b=g0:0", Scope::Subtree, "(a=b)", vec!["*"])).await {
                    Ok(Ok(_)) => "Ok".to_string(),
                    Ok(Err(ldap3::LdapError::Timeout { .. })) => "Timeout".into(),
                    Ok(Err(e)) => format!("Err({})", world::err_class(&e)),
                    Err(p) => format!("Panic({})", p.site()),
                },
            };
            let elapsed = t0.elapsed().as_millis() as u64;
            let mut crowd_bad: Vec<String> = vec![];
            for t in crowd_tasks {
                if let Ok(Some(b)) = t.await {
                    crowd_bad.push(b);
                }
            }
            let _ = releaser.await;
            // the peer reads again: serve whatever arrives
            let srv = tokio::spawn(timing_server(server));
            let _ = world::watchdog(x).await;
            tokio::time::sleep(Duration::from_secs(5)).await;
            let table = ldap.verif_id_table().1;
            let maps = (gauges.resultmap_len.load(SeqCst), gauges.searchmap_len.load(SeqCst));
            let mut l2 = ldap.clone();
            let later = match world::watchdog(l2.delete("op=2,b=d0")).await {
                Ok(Ok(r)) => format!("Ok({})", r.rc),
                Ok(Err(e)) => format!("Err({})", world::err_class(&e)),
                Err(()) => "Hung".into(),
            };
            drop(ldap);
            drop(l2);
            drop(lt);
            srv.abort();
            let _ = c.driver.await;
            (obs, elapsed, table, maps, later, crowd_bad)
        });
        let what = ["single", "stream-start", "search()"][kind as usize];
        if !crowd_bad.is_empty() {
            rep.violation(format!("C12:stalled-driver:one-of-many-timed-operations:{}", crowd_bad[0].split(|c: char| c == ' ' || c == '(').next().unwrap_or("?")), format!("{} timed deletes ({} ms) during one stall: {} did not time out at their deadline, e.g. {:?}", crowd, t_ms, crowd_bad.len(), &crowd_bad[..crowd_bad.len().min(3)]), json!({"lane":"stalled_driver","case":i}));
        }
        rep.max("max_timed_operations_giving_up_during_one_stall", crowd as u64 + 1);
        let replay = json!({"lane":"stalled_driver","case":i});
        let desc = format!("{} with a {} ms timeout while the driver is stuck writing (released after {} ms): {} after {} ms", what, t_ms, release_after, obs, elapsed);
        if obs != "Timeout" {
            rep.violation(format!("C12:stalled-driver:{}:{}-instead-of-timeout", what, obs.split('(').next().unwrap_or("?").to_lowercase()), desc.clone(), replay.clone());
        } else if elapsed > t_ms {
            rep.violation(format!("C12:stalled-driver:{}:timeout-fired-late", what), desc.clone(), replay.clone());
        } else if elapsed < t_ms {
            rep.violation(format!("C12:stalled-driver:{}:timeout-fired-early", what), desc.clone(), replay.clone());
        }
        if !table.is_empty() {
            rep.violation("C12:id-not-released-after-timeout", format!("{}; IDs still reserved {:?}", desc, table), replay.clone());
        }
        if maps != (0, 0) {
            rep.violation("C12:routing-state-retained-after-timeout", format!("{}; maps {:?}", desc, maps), replay.clone());
        }
        if !later.starts_with("Ok(") {
            rep.violation("C12:connection-not-usable-after-timeouts", format!("{}; later operation {}", desc, later), replay.clone());
        }
        rep.count(&format!("stalled_{}", what), 1);
        if i < 2 {
            rep.sample(json!({"lane":"stalled_driver","case":i,"observed":desc}));
        }
        rep.case(Some(fnv(format!("{}{}{}{}", t_ms, kind, release_after, big).as_bytes())));
    })
}

pub fn timeouts(ctx: &Ctx) -> Report {
    let n = ctx.n(100_000, 200_000_000);
    par_cases(ctx, "timeouts", n, ctx.secs(30, 600), |i, rng, rep| run_case(i, rng, rep, false))
}

pub fn replay(ctx: &Ctx, v: &Value) -> Report {
    let mut rep = Report::new();
    if let Some(i) = v["case"].as_u64() {
        let mut rng = case_rng(ctx.seed, "timeouts", i);
        run_case(i, &mut rng, &mut rep, true);
    }
    rep
}
