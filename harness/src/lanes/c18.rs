//! C18 — connection setup honours the URL and fails cleanly on bad input. Real sockets.
use crate::prng::{fnv, Rng};
use crate::report::{Ctx, Report};
use crate::world::{err_class, Caught};
use ldap3::{LdapConn, LdapConnAsync, LdapConnSettings, StdStream};
use serde_json::json;
use std::collections::HashMap;
use std::os::unix::fs::FileTypeExt;
use std::sync::{Arc, Mutex};
use std::time::{Duration, Instant};
use tokio::io::{AsyncReadExt, AsyncWriteExt};
use tokio::net::{TcpListener, UnixListener};

type Hits = Arc<Mutex<HashMap<String, u32>>>;

fn hit(h: &Hits, name: &str) {
    *h.lock().unwrap().entry(name.to_string()).or_insert(0) += 1;
}

fn take_hits(h: &Hits) -> Vec<String> {
    let mut m = h.lock().unwrap();
    let mut v: Vec<String> = m.iter().filter(|(_, c)| **c > 0).map(|(k, c)| if *c == 1 { k.clone() } else { format!("{}x{}", k, c) }).collect();
    m.clear();
    v.sort();
    v
}

/// Accept loop: records a hit, optionally plays a tiny LDAP role, then closes.
/// mode: "close" = close at once; "silent" = read and never answer (for timeouts).
async fn tcp_listener(l: TcpListener, name: String, hits: Hits, mode: &'static str) {
    loop {
        if let Ok((mut s, _)) = l.accept().await {
            if mode != "firstbyte" {
                hit(&hits, &name);
            }
            let (hits2, name2) = (hits.clone(), name.clone());
            tokio::spawn(async move {
                if mode == "firstbyte" {
                    // what does the client say first? (0x16 = TLS handshake record, 0x30 = an LDAPMessage in the clear)
                    let mut b = [0u8; 1];
                    if let Ok(Ok(1)) = tokio::time::timeout(Duration::from_secs(2), s.read(&mut b)).await {
                        hit(&hits2, &format!("{}:first={:02x}", name2, b[0]));
                    }
                    let _ = s.shutdown().await;
                } else if mode == "slowtls" {
                    // answers the StartTLS request with success after 1.4 s, then never says anything again
                    let mut buf: Vec<u8> = vec![];
                    let mut tmp = [0u8; 512];
                    let id = loop {
                        if let Some(t) = crate::ber::outer_complete(&buf) {
                            break crate::msg::decode_request(&buf[..t]).map(|m| m.id).unwrap_or(1);
                        }
                        match s.read(&mut tmp).await {
                            Ok(0) | Err(_) => return,
                            Ok(n) => buf.extend_from_slice(&tmp[..n]),
                        }
                    };
                    tokio::time::sleep(Duration::from_millis(1400)).await;
                    let ok = crate::msg::Resp::Extended { res: crate::msg::Res::ok("go ahead"), name: Some("1.3.6.1.4.1.1466.20037".into()), value: None };
                    let _ = s.write_all(&crate::ber::encode_min(&crate::msg::resp_node(id, &ok, None))).await;
                    loop {
                        match s.read(&mut tmp).await {
                            Ok(0) | Err(_) => break,
                            Ok(_) => {}
                        }
                    }
                } else if mode == "silent" {
                    let mut buf = [0u8; 512];
                    loop {
                        match s.read(&mut buf).await {
                            Ok(0) | Err(_) => break,
                            Ok(_) => {}
                        }
                    }
                } else {
                    tokio::time::sleep(Duration::from_millis(30)).await;
                    let _ = s.shutdown().await;
                }
            });
        }
    }
}

async fn unix_listener(l: UnixListener, name: String, hits: Hits) {
    loop {
        if let Ok((mut s, _)) = l.accept().await {
            hit(&hits, &name);
            tokio::spawn(async move {
                tokio::time::sleep(Duration::from_millis(30)).await;
                let _ = s.shutdown().await;
            });
        }
    }
}

#[derive(Clone, Debug)]
enum Expect {
    /// Ok(...) and exactly this listener was contacted
    OkVia(String),
    /// this listener contacted; Ok or Err both fine (e.g. ldaps against a non-TLS listener)
    ContactVia(String),
    /// the listener named here (which records the first byte it receives) must see a TLS handshake
    /// record first; the outcome is irrelevant (it does not speak TLS)
    TlsFirst(String),
    /// must be Err with one of these classes, no listener contacted
    Err(Vec<&'static str>),
    /// must be Err (any class); listener contact irrelevant
    AnyErr,
    /// anything but a panic / hang
    NoPanic,
}

#[derive(Clone, Copy, Debug, PartialEq)]
enum Stream {
    None,
    TcpTo(u16),
    Unix,
    Invalid,
}

struct Case {
    url: String,
    starttls: bool,
    timeout_ms: Option<u64>,
    stream: Stream,
    expect: Expect,
    /// upper bound on wall-clock duration (ms) when a timeout is set
    max_ms: Option<u64>,
    note: &'static str,
}

/// `max_ms` values from here on are verdicts, not load indicators: the bound is `max_ms - STRICT`, it has a
/// margin of more than a second over the expected duration, and it must be missed twice in a row.
const STRICT: u64 = 1_000_000;

fn pct_path(p: &str) -> String {
    let mut o = String::new();
    for b in p.bytes() {
        if b.is_ascii_alphanumeric() || b == b'-' || b == b'.' || b == b'_' {
            o.push(b as char);
        } else {
            o.push_str(&format!("%{:02X}", b));
        }
    }
    o
}

fn settings_for(c: &Case, unix_path: &str) -> Result<LdapConnSettings, String> {
    let mut s = LdapConnSettings::new();
    if c.starttls {
        s = s.set_starttls(true);
    }
    if let Some(t) = c.timeout_ms {
        // the two largest values stand for "effectively forever" durations
        s = s.set_conn_timeout(match t {
            u64::MAX => Duration::MAX,
            x if x == u64::MAX - 1 => Duration::from_secs(u64::MAX),
            ms => Duration::from_millis(ms),
        });
    }
    match c.stream {
        Stream::None => {}
        Stream::TcpTo(port) => {
            let st = std::net::TcpStream::connect(("127.0.0.1", port)).map_err(|e| e.to_string())?;
            s = s.set_std_stream(StdStream::Tcp(st));
        }
        Stream::Unix => {
            let st = std::os::unix::net::UnixStream::connect(unix_path).map_err(|e| e.to_string())?;
            s = s.set_std_stream(StdStream::Unix(st));
        }
        Stream::Invalid => s = s.set_std_stream(StdStream::Invalid),
    }
    Ok(s)
}

pub fn table(ctx: &Ctx) -> Report {
    let mut rep = Report::new();
    // a missing host means localhost for the TLS layer too (server certificate issued to localhost)
    if std::env::var("SSL_CERT_FILE").is_ok() {
        for (mode, outcome) in crate::lanes::c17::missing_host_probe() {
            let replay = json!({"lane":"table","case":"missing-host-with-TLS","mode":mode});
            if outcome == "Ok" {
                rep.count("ok_missing_host_with_tls", 1);
            } else if outcome == "Hung" || outcome.starts_with("Setup(") {
                rep.inconclusive(format!("missing host with TLS ({}): {}", mode, outcome));
            } else if outcome.starts_with("Panic(") {
                rep.violation(format!("C18:panic:missing-host-with-TLS:{}", outcome), format!("{}: {}", mode, outcome), replay);
            } else {
                rep.violation("C18:valid-setup-fails:missing-host-with-TLS", format!("{} with a pre-opened stream to a TLS server whose trusted certificate names localhost: {}", mode, outcome), replay);
            }
            rep.case(Some(fnv(mode.as_bytes())));
        }
    } else {
        rep.inconclusive("SSL_CERT_FILE is not set: the missing-host TLS cases were skipped");
    }
    // StartTLS asked for in the settings: setup succeeds only if the server answered the StartTLS
    // request with success (0); any other answer, the referral code 10 included, fails the setup with
    // the server's result
    {
        use crate::lanes::starttls::{run, Got, Refusal};
        use crate::msg::Res;
        let rt = tokio::runtime::Builder::new_multi_thread().worker_threads(2).enable_all().build().expect("rt");
        for rc in [10u32, 2, 52] {
            let replay = json!({"lane":"table","case":"starttls-answered-with-a-non-success-code","rc":rc});
            let refusal = Refusal { strays: vec![], res: Res { rc, matched: String::new(), text: "tls elsewhere".into(), refs: if rc == 10 { Some(vec!["ldap://tls.example.org/".into()]) } else { None } }, name: None, split: false, raw_answer: None };
            match run(&rt, &refusal) {
                Err(e) => rep.inconclusive(format!("starttls answer {}: {}", rc, e)),
                Ok(None) => rep.inconclusive(format!("starttls answer {}: first attempt expired on the wall clock, the retry passed", rc)),
                Ok(Some(Got::Result { rc: got, .. })) if got == rc => rep.count("ok_starttls_non_success_answer_fails_setup_with_that_result", 1),
                Ok(Some(other)) => rep.violation(format!("C18:starttls-answered-with-code-{}:setup-does-not-fail-with-the-server's-result", if rc == 10 { "10".to_string() } else { "other".to_string() }), format!("ldap:// URL + set_starttls(true), server answers the StartTLS request with rc={}: {:?}", rc, other), replay),
            }
            rep.case(Some(fnv(format!("starttls-rc-{}", rc).as_bytes())));
        }
        rt.shutdown_background();
    }
    let _lock = match lock_ports() {
        Some(l) => l,
        None => {
            rep.inconclusive("cannot take the C18 port lock");
            return rep;
        }
    };
    let dir = format!("/tmp/vh-c18-{}", std::process::id());
    let _ = std::fs::remove_dir_all(&dir);
    std::fs::create_dir_all(&dir).expect("scratch dir");
    let rt = tokio::runtime::Builder::new_multi_thread().worker_threads(4).enable_all().build().expect("rt");
    let hits: Hits = Arc::new(Mutex::new(HashMap::new()));
    let unix_plain = format!("{}/plain.sock", dir);
    let unix_weird = format!("{}/we ird %ü:x/so ck", dir);
    std::fs::create_dir_all(format!("{}/we ird %ü:x", dir)).unwrap();
    let unix_colon = format!("{}/colon", dir);
    let seed = ctx.seed;
    let tiny = ctx.tiny;
    let results = rt.block_on(async {
        // listeners
        let mut have389 = false;
        let mut have636 = false;
        if let Ok(l) = TcpListener::bind("127.0.0.1:389").await {
            have389 = true;
            tokio::spawn(tcp_listener(l, "tcp4:389".into(), hits.clone(), "close"));
        }
        if let Ok(l) = TcpListener::bind("[::1]:389").await {
            tokio::spawn(tcp_listener(l, "tcp6:389".into(), hits.clone(), "close"));
        }
        if let Ok(l) = TcpListener::bind("127.0.0.1:636").await {
            have636 = true;
            tokio::spawn(tcp_listener(l, "tcp4:636".into(), hits.clone(), "close"));
        }
        if let Ok(l) = TcpListener::bind("[::1]:636").await {
            tokio::spawn(tcp_listener(l, "tcp6:636".into(), hits.clone(), "close"));
        }
        let eph = TcpListener::bind("127.0.0.1:0").await.expect("ephemeral");
        let pe = eph.local_addr().unwrap().port();
        tokio::spawn(tcp_listener(eph, "tcp4:eph".into(), hits.clone(), "close"));
        let eph6 = TcpListener::bind("[::1]:0").await.ok();
        let pe6 = eph6.as_ref().map(|l| l.local_addr().unwrap().port());
        if let Some(l) = eph6 {
            tokio::spawn(tcp_listener(l, "tcp6:eph".into(), hits.clone(), "close"));
        }
        let fb = TcpListener::bind("127.0.0.1:0").await.expect("firstbyte");
        let pfb = fb.local_addr().unwrap().port();
        tokio::spawn(tcp_listener(fb, "tcp4:fb".into(), hits.clone(), "firstbyte"));
        let silent = TcpListener::bind("127.0.0.1:0").await.expect("silent");
        let ps = silent.local_addr().unwrap().port();
        tokio::spawn(tcp_listener(silent, "tcp4:silent".into(), hits.clone(), "silent"));
        // an endpoint that neither accepts nor refuses (what a filtered address does): a listening socket with
        // a zero backlog that never accepts, plus parked connections until a further connect stalls
        let mut _parked: Vec<tokio::net::TcpStream> = vec![];
        let mut blackhole: Option<u16> = None;
        let _bh_listener = match tokio::net::TcpSocket::new_v4().and_then(|s| s.bind("127.0.0.1:0".parse().unwrap()).map(|_| s)).and_then(|s| s.listen(0)) {
            Ok(l) => {
                let port = l.local_addr().map(|a| a.port()).unwrap_or(0);
                for _ in 0..24 {
                    match tokio::time::timeout(Duration::from_millis(250), tokio::net::TcpStream::connect(("127.0.0.1", port))).await {
                        Ok(Ok(st)) => _parked.push(st),
                        Ok(Err(_)) => break,
                        Err(_) => {
                            blackhole = Some(port);
                            break;
                        }
                    }
                }
                Some(l)
            }
            Err(_) => None,
        };
        let slow = TcpListener::bind("127.0.0.1:0").await.expect("slowtls");
        let pslow = slow.local_addr().unwrap().port();
        tokio::spawn(tcp_listener(slow, "tcp4:slowtls".into(), hits.clone(), "slowtls"));
        // a port with no listener
        let dead = {
            let l = std::net::TcpListener::bind("127.0.0.1:0").unwrap();
            l.local_addr().unwrap().port()
        };
        for (p, n) in [(&unix_plain, "unix:plain"), (&unix_weird, "unix:weird"), (&unix_colon, "unix:colon")] {
            let l = UnixListener::bind(p).expect("unix listener");
            tokio::spawn(unix_listener(l, n.to_string(), hits.clone()));
        }
        let mut cases: Vec<Case> = vec![];
        let mut add = |url: String, expect: Expect, note: &'static str| cases.push(Case { url, starttls: false, timeout_ms: Some(3000), stream: Stream::None, expect, max_ms: None, note });
        // --- ldap: host/port/defaults ---
        add(format!("ldap://127.0.0.1:{}", pe), Expect::OkVia("tcp4:eph".into()), "explicit host and port");
        add(format!("ldap://127.0.0.1:{}/", pe), Expect::OkVia("tcp4:eph".into()), "trailing slash");
        add(format!("ldap://127.0.0.1:{}/dc=example,dc=com??sub?(a=b)", pe), Expect::OkVia("tcp4:eph".into()), "with DN and query");
        add(format!("LDAP://127.0.0.1:{}", pe), Expect::OkVia("tcp4:eph".into()), "upper-case scheme (normalised by the URL parser)");
        if let Some(p6) = pe6 {
            add(format!("ldap://[::1]:{}", p6), Expect::OkVia("tcp6:eph".into()), "IPv6 literal");
        }
        if have389 {
            add("ldap://127.0.0.1".into(), Expect::OkVia("tcp4:389".into()), "default port 389");
            add("ldap://127.0.0.1/".into(), Expect::OkVia("tcp4:389".into()), "default port 389");
            add("ldap://localhost".into(), Expect::OkVia("tcp?:389".into()), "default port 389 by name");
            add("ldap:///".into(), Expect::OkVia("tcp?:389".into()), "missing host means localhost");
            add("ldap://".into(), Expect::OkVia("tcp?:389".into()), "missing host means localhost");
            add("ldap:".into(), Expect::OkVia("tcp?:389".into()), "missing host means localhost");
            add("ldap:///dc=example,dc=com".into(), Expect::OkVia("tcp?:389".into()), "missing host means localhost");
            add(format!("ldap://:{}", pe), Expect::NoPanic, "empty host with explicit port (the URL parser may reject it)");
        }
        if have636 {
            add("ldaps://127.0.0.1".into(), Expect::ContactVia("tcp4:636".into()), "ldaps default port 636");
            add("ldaps://localhost/".into(), Expect::ContactVia("tcp?:636".into()), "ldaps default port 636");
        }
        add(format!("ldaps://127.0.0.1:{}", pe), Expect::ContactVia("tcp4:eph".into()), "ldaps explicit port");
        // an explicit port always wins, also when it is the other scheme's default
        if have389 {
            add("ldaps://127.0.0.1:389".into(), Expect::ContactVia("tcp4:389".into()), "ldaps with explicit port 389");
            add("ldap://127.0.0.1:389".into(), Expect::OkVia("tcp4:389".into()), "ldap with explicit port 389");
        }
        if have636 {
            add("ldap://127.0.0.1:636".into(), Expect::OkVia("tcp4:636".into()), "ldap with explicit port 636");
            add("ldaps://127.0.0.1:636".into(), Expect::ContactVia("tcp4:636".into()), "ldaps with explicit port 636");
        }
        // --- ldapi ---
        add(format!("ldapi://{}", pct_path(&unix_plain)), Expect::OkVia("unix:plain".into()), "percent-encoded socket path");
        add(format!("ldapi://{}/", pct_path(&unix_plain)), Expect::OkVia("unix:plain".into()), "percent-encoded socket path with slash");
        add(format!("ldapi://{}", pct_path(&unix_weird)), Expect::OkVia("unix:weird".into()), "path needing percent-decoding (space, %, non-ASCII, colon)");
        add(format!("ldapi://{}", pct_path(&unix_weird).to_lowercase().replace("%2f", "%2F")), Expect::OkVia("unix:weird".into()), "lower-case percent escapes");
        add("ldapi://".into(), Expect::Err(vec!["EmptyUnixPath"]), "empty ldapi path");
        add("ldapi:///".into(), Expect::Err(vec!["EmptyUnixPath"]), "empty ldapi path");
        add("ldapi:".into(), Expect::Err(vec!["EmptyUnixPath"]), "empty ldapi path");
        add(format!("ldapi://{}:3/", pct_path(&unix_colon)), Expect::Err(vec!["PortInUnixPath"]), "port-bearing ldapi path (a socket exists at the path without the port)");
        add(format!("ldapi://{}:389", pct_path(&unix_colon)), Expect::Err(vec!["PortInUnixPath"]), "port-bearing ldapi path");
        add(format!("ldapi://{}", pct_path(&format!("{}/nonexistent", dir))), Expect::Err(vec!["Io"]), "no such socket");
        // --- errors ---
        add("http://127.0.0.1/".into(), Expect::Err(vec!["UnknownScheme"]), "unknown scheme");
        add(format!("ldapx://127.0.0.1:{}", pe), Expect::Err(vec!["UnknownScheme"]), "unknown scheme");
        add(format!("cldap://127.0.0.1:{}", pe), Expect::Err(vec!["UnknownScheme"]), "unknown scheme");
        add("".into(), Expect::Err(vec!["UrlParsing"]), "unparsable URL");
        add("127.0.0.1:389".into(), Expect::AnyErr, "no scheme");
        add("ldap://127.0.0.1:99999".into(), Expect::Err(vec!["UrlParsing"]), "invalid port");
        add("ldap://[::1".into(), Expect::Err(vec!["UrlParsing"]), "unparsable URL");
        add("ldap://exa mple".into(), Expect::AnyErr, "space in host");
        add(format!("ldap://127.0.0.1:{}", dead), Expect::Err(vec!["Io"]), "unreachable endpoint (connection refused)");
        add(format!("ldaps://127.0.0.1:{}", dead), Expect::Err(vec!["Io"]), "unreachable endpoint (connection refused)");
        // --- pre-opened streams ---
        let mut adds = |url: String, stream: Stream, expect: Expect, note: &'static str| cases.push(Case { url, starttls: false, timeout_ms: Some(3000), stream, expect, max_ms: None, note });
        adds(format!("ldap://127.0.0.1:{}", dead), Stream::TcpTo(pe), Expect::OkVia("tcp4:eph".into()), "pre-opened TCP stream is used instead of the URL's endpoint");
        adds("ldapi:///".into(), Stream::Unix, Expect::OkVia("unix:plain".into()), "pre-opened Unix stream with ldapi:///");
        adds(format!("ldapi://{}", pct_path(&format!("{}/nonexistent", dir))), Stream::Unix, Expect::OkVia("unix:plain".into()), "pre-opened Unix stream, URL path unused");
        adds(format!("ldap://127.0.0.1:{}", pe), Stream::Unix, Expect::Err(vec!["MismatchedStreamType"]), "Unix stream with ldap scheme");
        adds(format!("ldaps://127.0.0.1:{}", pe), Stream::Unix, Expect::Err(vec!["MismatchedStreamType"]), "Unix stream with ldaps scheme");
        adds("ldapi:///".into(), Stream::TcpTo(pe), Expect::Err(vec!["MismatchedStreamType"]), "TCP stream with ldapi scheme");
        adds("ldapi:///".into(), Stream::Invalid, Expect::Err(vec!["MismatchedStreamType"]), "invalid (cloned) stream with ldapi");
        adds(format!("ldapi://{}", pct_path(&unix_plain)), Stream::Invalid, Expect::Err(vec!["MismatchedStreamType"]), "invalid (cloned) stream with an ldapi URL naming a live socket");
        adds(format!("ldapi://{}", pct_path(&unix_plain)), Stream::TcpTo(pe), Expect::Err(vec!["MismatchedStreamType"]), "TCP stream with an ldapi URL naming a live socket");
        adds(format!("ldaps://127.0.0.1:{}", pe), Stream::Invalid, Expect::Err(vec!["MismatchedStreamType"]), "invalid (cloned) stream with ldaps");
        adds(format!("ldap://127.0.0.1:{}", pe), Stream::Invalid, Expect::Err(vec!["MismatchedStreamType"]), "invalid (cloned) stream with ldap");
        // --- an unknown scheme is an error even where the rest of the URL / the settings would do for ldapi ---
        for sch in ["ldapx", "ldapis", "unix", "foo"] {
            cases.push(Case { url: format!("{}://{}", sch, pct_path(&unix_plain)), starttls: false, timeout_ms: None, stream: Stream::None, expect: Expect::Err(vec!["UnknownScheme"]), max_ms: None, note: "unknown scheme whose host is the percent-encoded path of a live Unix socket" });
            cases.push(Case { url: format!("{}://localhost:389", sch), starttls: false, timeout_ms: Some(3000), stream: Stream::Unix, expect: Expect::Err(vec!["UnknownScheme", "MismatchedStreamType"]), max_ms: None, note: "pre-opened Unix stream with an unknown scheme" });
            cases.push(Case { url: format!("{}:///", sch), starttls: false, timeout_ms: Some(3000), stream: Stream::Unix, expect: Expect::Err(vec!["UnknownScheme", "MismatchedStreamType"]), max_ms: None, note: "pre-opened Unix stream with an unknown scheme and no host" });
            cases.push(Case { url: format!("{}://127.0.0.1:{}", sch, pe), starttls: false, timeout_ms: Some(3000), stream: Stream::TcpTo(pe), expect: Expect::Err(vec!["UnknownScheme", "MismatchedStreamType"]), max_ms: None, note: "pre-opened TCP stream with an unknown scheme" });
        }
        // --- ldaps means TLS from the first byte, whatever the StartTLS flag says ---
        for st in [false, true] {
            cases.push(Case { url: format!("ldaps://127.0.0.1:{}", pfb), starttls: st, timeout_ms: Some(3000), stream: Stream::None, expect: Expect::TlsFirst("tcp4:fb".into()), max_ms: None, note: if st { "ldaps with the StartTLS flag set" } else { "ldaps" } });
        }
        // --- an unknown scheme stays unknown whatever else is set ---
        for sch in ["http", "ldapx", "ldapss", "foo"] {
            cases.push(Case { url: format!("{}://127.0.0.1:{}", sch, pe), starttls: true, timeout_ms: Some(3000), stream: Stream::None, expect: Expect::Err(vec!["UnknownScheme"]), max_ms: None, note: "unknown scheme with StartTLS enabled" });
            cases.push(Case { url: format!("{}://127.0.0.1:{}", sch, pe), starttls: false, timeout_ms: None, stream: Stream::None, expect: Expect::Err(vec!["UnknownScheme"]), max_ms: None, note: "unknown scheme without a connection timeout" });
        }
        // --- "effectively forever" connection timeouts are just long timeouts ---
        for t in [u64::MAX, u64::MAX - 1] {
            cases.push(Case { url: format!("ldap://127.0.0.1:{}", pe), starttls: false, timeout_ms: Some(t), stream: Stream::None, expect: Expect::OkVia("tcp4:eph".into()), max_ms: None, note: "huge connection timeout, reachable endpoint" });
            cases.push(Case { url: format!("ldap://127.0.0.1:{}", dead), starttls: false, timeout_ms: Some(t), stream: Stream::None, expect: Expect::Err(vec!["Io"]), max_ms: None, note: "huge connection timeout, unreachable endpoint" });
            cases.push(Case { url: format!("ldapx://127.0.0.1:{}", pe), starttls: false, timeout_ms: Some(t), stream: Stream::None, expect: Expect::Err(vec!["UnknownScheme"]), max_ms: None, note: "huge connection timeout, unknown scheme" });
        }
        // --- timeout bounds the whole establishment, including StartTLS ---
        cases.push(Case { url: format!("ldap://127.0.0.1:{}", ps), starttls: true, timeout_ms: Some(300), stream: Stream::None, expect: Expect::Err(vec!["Timeout"]), max_ms: Some(6_000), note: "StartTLS against a server that never answers: the connection timeout must fire" });
        cases.push(Case { url: format!("ldaps://127.0.0.1:{}", ps), starttls: false, timeout_ms: Some(300), stream: Stream::None, expect: Expect::Err(vec!["Timeout"]), max_ms: Some(6_000), note: "TLS handshake against a server that never answers: the connection timeout must fire" });
        if let Some(pb) = blackhole {
            cases.push(Case { url: format!("ldap://127.0.0.1:{}", pb), starttls: false, timeout_ms: Some(400), stream: Stream::None, expect: Expect::Err(vec!["Timeout"]), max_ms: Some(6_000), note: "endpoint that neither accepts nor refuses the TCP connection: the connection timeout must fire" });
            cases.push(Case { url: format!("ldaps://127.0.0.1:{}", pb), starttls: false, timeout_ms: Some(400), stream: Stream::None, expect: Expect::Err(vec!["Timeout"]), max_ms: Some(6_000), note: "endpoint that neither accepts nor refuses the TCP connection: the connection timeout must fire" });
        }
        // a pre-opened stream changes where the bytes go, not what bounds the establishment
        cases.push(Case { url: format!("ldap://127.0.0.1:{}", dead), starttls: true, timeout_ms: Some(300), stream: Stream::TcpTo(ps), expect: Expect::Err(vec!["Timeout"]), max_ms: Some(6_000), note: "StartTLS over a pre-opened stream to a server that never answers: the connection timeout must fire" });
        cases.push(Case { url: format!("ldaps://127.0.0.1:{}", dead), starttls: false, timeout_ms: Some(300), stream: Stream::TcpTo(ps), expect: Expect::Err(vec!["Timeout"]), max_ms: Some(6_000), note: "TLS handshake over a pre-opened stream to a server that never answers: the connection timeout must fire" });
        // ... and the URL's host is not consulted at all
        cases.push(Case { url: "ldap://directory.corp.invalid:3890".into(), starttls: false, timeout_ms: Some(3000), stream: Stream::TcpTo(pe), expect: Expect::OkVia("tcp4:eph".into()), max_ms: None, note: "pre-opened TCP stream with a URL host that does not resolve" });
        cases.push(Case { url: "ldap://directory.corp.invalid".into(), starttls: false, timeout_ms: None, stream: Stream::TcpTo(pe), expect: Expect::OkVia("tcp4:eph".into()), max_ms: None, note: "pre-opened TCP stream with a URL host that does not resolve" });
        // one timeout for the whole establishment, not one per step: the StartTLS answer takes 1.4 s of the 2 s, the
        // handshake is never answered (a timeout that restarted with the handshake would fire after 3.4 s)
        cases.push(Case { url: format!("ldap://127.0.0.1:{}", pslow), starttls: true, timeout_ms: Some(2000), stream: Stream::None, expect: Expect::ContactVia("tcp4:slowtls".into()), max_ms: Some(STRICT + 3_100), note: "StartTLS answered late, handshake never: the connection timeout bounds the sum" });
        if have389 {
            // StartTLS is LDAP on the LDAP port: the default stays 389 (the listener closes, so setup fails; what counts is
            // which endpoint was dialled)
            cases.push(Case { url: "ldap://127.0.0.1".into(), starttls: true, timeout_ms: Some(3000), stream: Stream::None, expect: Expect::ContactVia("tcp4:389".into()), max_ms: None, note: "default port with StartTLS is 389" });
            cases.push(Case { url: "ldap:///".into(), starttls: true, timeout_ms: Some(3000), stream: Stream::None, expect: Expect::ContactVia("tcp?:389".into()), max_ms: None, note: "default port with StartTLS is 389, missing host" });
        }
        // the smallest timeouts are timeouts too: zero does not mean "none"
        for t in [0u64, 1] {
            cases.push(Case { url: format!("ldap://127.0.0.1:{}", ps), starttls: true, timeout_ms: Some(t), stream: Stream::None, expect: Expect::Err(vec!["Timeout"]), max_ms: Some(6_000), note: "StartTLS against a server that never answers, zero / 1 ms connection timeout" });
            cases.push(Case { url: format!("ldaps://127.0.0.1:{}", ps), starttls: false, timeout_ms: Some(t), stream: Stream::None, expect: Expect::Err(vec!["Timeout"]), max_ms: Some(6_000), note: "TLS handshake against a server that never answers, zero / 1 ms connection timeout" });
        }
        cases.push(Case { url: format!("ldap://127.0.0.1:{}", pe), starttls: true, timeout_ms: Some(2000), stream: Stream::None, expect: Expect::AnyErr, max_ms: Some(6_000), note: "StartTLS against a server that closes" });
        // --- fuzzed URLs: no panic, no hang ---
        let mut rng = Rng::new(seed ^ 0xc18);
        let nf = if tiny { 5 } else { 300 };
        for _ in 0..nf {
            let scheme = *rng.pick(&["ldap", "ldaps", "ldapi", "LDAP", "ldap+tls", "x", ""]);
            let sep = *rng.pick(&["://", ":", ":/", ":///", "//"]);
            let host = match rng.below(8) {
                0 => String::new(),
                1 => "127.0.0.1".to_string(),
                2 => "localhost".to_string(),
                3 => "[::1]".to_string(),
                4 => pct_path(&unix_plain),
                5 => format!("%{:02x}%zz", rng.below(256)),
                6 => rng.ustring(6),
                _ => "a.invalid".to_string(),
            };
            let port = match rng.below(6) {
                0 => format!(":{}", pe),
                1 => ":".to_string(),
                2 => ":0".to_string(),
                3 => format!(":{}", dead),
                4 => ":65536".to_string(),
                _ => String::new(),
            };
            let path = match rng.below(4) {
                0 => String::new(),
                1 => "/".to_string(),
                2 => format!("/{}", rng.ustring(8)),
                _ => "/dc=x??sub?(a=b)".to_string(),
            };
            let url = format!("{}{}{}{}{}", scheme, sep, host, port, path);
            let stream = *rng.pick(&[Stream::None, Stream::None, Stream::None, Stream::TcpTo(pe), Stream::Unix, Stream::Invalid]);
            cases.push(Case { url, starttls: rng.chance(1, 4), timeout_ms: Some(400), stream, expect: Expect::NoPanic, max_ms: Some(7_000), note: "fuzzed URL / settings combination" });
        }
        // run every case through the async and the sync entry points
        let mut out = vec![];
        for c in cases {
            for sync in [false, true] {
                let _ = take_hits(&hits);
                let settings = match settings_for(&c, &unix_plain) {
                    Ok(s) => s,
                    Err(e) => {
                        out.push((c.url.clone(), sync, c.note, format!("{:?}", c.expect), "INCONCLUSIVE".to_string(), format!("could not pre-open stream: {}", e), vec![], 0u64, c.max_ms, c.expect.clone(), c.stream, c.starttls));
                        continue;
                    }
                };
                // pre-opening a stream contacts its listener: forget that
                tokio::time::sleep(Duration::from_millis(5)).await;
                let _ = take_hits(&hits);
                if std::env::var("VH_DEBUG").is_ok() {
                    eprintln!("C18 case {:?} sync={} starttls={} stream={:?}", c.url, sync, c.starttls, c.stream);
                }
                // A setup call that is still pending after 8 s is retried once, alone, with a 40 s guard
                // (with fresh settings): only a call that is pending both times counts as a hang, so a
                // loaded machine yields a slow case, not a verdict.
                let mut settings_opt = Some(settings);
                let mut res = String::new();
                let mut t0 = Instant::now();
                let mut slow_first_attempt = false;
                for (attempt, guard) in [(0, 8u64), (1, 40u64)] {
                    let settings = match settings_opt.take() {
                        Some(s) => s,
                        None => match settings_for(&c, &unix_plain) {
                            Ok(s) => s,
                            Err(_) => break,
                        },
                    };
                    if attempt == 1 {
                        tokio::time::sleep(Duration::from_millis(5)).await;
                        let _ = take_hits(&hits);
                    }
                    t0 = Instant::now();
                    let url = c.url.clone();
                    res = if sync {
                        // a plain detached thread: a setup that hangs must not block runtime shutdown
                        let (tx, rx) = tokio::sync::oneshot::channel();
                        std::thread::spawn(move || {
                            let r = crate::report::guarded(|| LdapConn::with_settings(settings, &url).map(|_| ()));
                            let _ = tx.send(r);
                        });
                        match tokio::time::timeout(Duration::from_secs(guard), rx).await {
                            Ok(Ok(Ok(Ok(())))) => "Ok".into(),
                            Ok(Ok(Ok(Err(e)))) => format!("Err({})", err_class(&e)),
                            Ok(Ok(Err(p))) => format!("Panic({})", p.site()),
                            Ok(Err(_)) => "Panic(join)".into(),
                            Err(_) => "Hung".into(),
                        }
                    } else {
                        // a task of its own: a setup that blocks its thread must not block the guard
                        let fut = tokio::spawn(async move {
                            match Caught::new(LdapConnAsync::with_settings(settings, &url)).await {
                                Ok(Ok(_)) => "Ok".to_string(),
                                Ok(Err(e)) => format!("Err({})", err_class(&e)),
                                Err(p) => format!("Panic({})", p.site()),
                            }
                        });
                        match tokio::time::timeout(Duration::from_secs(guard), fut).await {
                            Ok(Ok(r)) => r,
                            Ok(Err(_)) => "Panic(join)".into(),
                            Err(_) => "Hung".into(),
                        }
                    };
                    if res != "Hung" {
                        // a strict time bound (see STRICT) that is missed is measured once more, alone
                        if attempt == 0 && matches!(c.max_ms, Some(mx) if mx >= STRICT && t0.elapsed().as_millis() as u64 > mx - STRICT) {
                            continue;
                        }
                        break;
                    }
                    slow_first_attempt = true;
                }
                if slow_first_attempt && res != "Hung" {
                    res = format!("SLOW:{}", res);
                }
                let ms = t0.elapsed().as_millis() as u64;
                tokio::time::sleep(Duration::from_millis(15)).await;
                let h = take_hits(&hits);
                out.push((c.url.clone(), sync, c.note, format!("{:?}", c.expect), res, String::new(), h, ms, c.max_ms, c.expect.clone(), c.stream, c.starttls));
            }
        }
        out
    });
    rt.shutdown_background();
    let _ = std::fs::remove_dir_all(&dir);
    for (url, sync, note, _exp_s, res, extra, hits, ms, max_ms, expect, stream, starttls) in results {
        let api = if sync { "LdapConn" } else { "LdapConnAsync" };
        let replay = json!({"lane":"table","url":url,"sync":sync,"stream":format!("{:?}", stream),"starttls":starttls});
        if res == "INCONCLUSIVE" {
            rep.inconclusive(format!("{}: {}", url, extra));
            continue;
        }
        if let Some(r2) = res.strip_prefix("SLOW:") {
            rep.inconclusive(format!("{}: first attempt exceeded 8 s of wall-clock time, the retry returned {}", url, r2));
            continue;
        }
        let desc = format!("{}::with_settings({:?}, stream {:?}, starttls {}) [{}] -> {} after {} ms, listeners contacted {:?}", api, url, stream, starttls, note, res, ms, hits);
        if res.starts_with("Panic(") {
            rep.violation(format!("C18:panic:{}:{}", api, panic_class(&url, &res)), desc.clone(), replay.clone());
        } else if res == "Hung" {
            rep.violation(format!("C18:hang:{}", note.replace(' ', "-")), desc.clone(), replay.clone());
        } else {
            let matches_listener = |want: &str| -> bool {
                if let Some(p) = want.strip_prefix("tcp?:") {
                    hits.len() == 1 && (hits[0] == format!("tcp4:{}", p) || hits[0] == format!("tcp6:{}", p))
                } else {
                    hits.len() == 1 && hits[0] == want
                }
            };
            match &expect {
                Expect::OkVia(_) if stream != Stream::None => {
                    // the pre-opened stream must be used: success without any new connection
                    if res != "Ok" {
                        rep.violation(format!("C18:valid-setup-fails:{}", note.replace(' ', "-")), desc.clone(), replay.clone());
                    } else if !hits.is_empty() {
                        rep.violation(format!("C18:connected-to-the-wrong-endpoint:{}", note.replace(' ', "-")), format!("a new connection was opened although a stream was supplied: {}", desc), replay.clone());
                    }
                }
                Expect::OkVia(l) => {
                    if res != "Ok" {
                        rep.violation(format!("C18:valid-setup-fails:{}", note.replace(' ', "-")), desc.clone(), replay.clone());
                    } else if !matches_listener(l) {
                        rep.violation(format!("C18:connected-to-the-wrong-endpoint:{}", note.replace(' ', "-")), format!("expected listener {}: {}", l, desc), replay.clone());
                    }
                }
                Expect::ContactVia(l) => {
                    if !matches_listener(l) {
                        rep.violation(format!("C18:connected-to-the-wrong-endpoint:{}", note.replace(' ', "-")), format!("expected listener {}: {}", l, desc), replay.clone());
                    }
                }
                Expect::TlsFirst(l) => {
                    let want = format!("{}:first=16", l);
                    if hits.len() != 1 || hits[0] != want {
                        let cleartext = hits.iter().any(|h| h.ends_with(":first=30"));
                        rep.violation(format!("C18:{}:{}", if cleartext { "ldaps-connection-starts-with-a-cleartext-ldap-message" } else { "connected-to-the-wrong-endpoint" }, note.replace(' ', "-")), format!("expected {}: {}", want, desc), replay.clone());
                    }
                }
                Expect::Err(classes) => {
                    if res == "Ok" {
                        rep.violation(format!("C18:bad-input-accepted:{}", note.replace(' ', "-")), desc.clone(), replay.clone());
                    } else if !classes.iter().any(|c| res == format!("Err({})", c)) {
                        // an error, but of another class: the property only asks for "an error"; count it
                        rep.count("error_of_another_class_than_expected", 1);
                    }
                    if res != "Ok" && !hits.is_empty() && classes != &vec!["Timeout"] && classes != &vec!["Io"] {
                        rep.violation(format!("C18:rejected-setup-still-contacted-a-listener:{}", note.replace(' ', "-")), desc.clone(), replay.clone());
                    }
                }
                Expect::AnyErr => {
                    if res == "Ok" {
                        rep.violation(format!("C18:bad-input-accepted:{}", note.replace(' ', "-")), desc.clone(), replay.clone());
                    }
                }
                Expect::NoPanic => {}
            }
            if let Some(mx) = max_ms.filter(|m| *m >= STRICT) {
                if ms > mx - STRICT {
                    rep.violation("C18:connection-timeout-does-not-bound-the-whole-establishment", format!("twice in a row the call returned only after more than {} ms (last: {} ms): {}", mx - STRICT, ms, desc), replay.clone());
                }
            } else if let Some(mx) = max_ms {
                if ms > mx {
                    // it did return: late on the wall clock is a loaded machine, not a verdict
                    rep.inconclusive(format!("returned after {} ms (> {} ms): {}", ms, mx, desc));
                }
            }
        }
        rep.count(if sync { "cases_sync" } else { "cases_async" }, 1);
        rep.count(&format!("outcome_{}", res.split('(').next().unwrap_or("?")), 1);
        if rep.samples.len() < 4 && matches!(expect, Expect::OkVia(_) | Expect::Err(_)) {
            rep.sample(json!({"lane":"table","api":api,"url":url,"note":note,"result":res,"listeners_contacted":hits,"ms":ms}));
        }
        rep.case(Some(fnv(format!("{}{}{:?}{}", url, sync, stream, starttls).as_bytes())));
    }
    rep
}

fn panic_class(url: &str, res: &str) -> String {
    let site = res.trim_start_matches("Panic(").trim_end_matches(')');
    let host_missing = url == "ldap:" || url.starts_with("ldap:///") || url == "ldap://" || url.contains("://:") || url.contains(":///");
    format!("{}:{}", if host_missing { "url-without-host" } else { "other-url" }, site)
}

/// Serialise users of the privileged ports across concurrently running checks.
fn lock_ports() -> Option<std::fs::File> {
    use std::os::unix::io::AsRawFd;
    let f = std::fs::OpenOptions::new().create(true).write(true).open("/tmp/.vh-c18.lock").ok()?;
    let r = unsafe { libc::flock(f.as_raw_fd(), libc::LOCK_EX) };
    if r == 0 {
        Some(f)
    } else {
        None
    }
}

pub fn replay(ctx: &Ctx, _v: &serde_json::Value) -> Report {
    // the table is deterministic for a seed: re-run it
    let _ = std::fs::metadata("/").map(|m| m.file_type().is_socket());
    table(ctx)
}
