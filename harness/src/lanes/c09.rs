//! C09 — escaped text is inert.
use crate::ber;
use crate::dn_ref::{self, Ava};
use crate::filter_ref::Filter;
use crate::lanes::c08::{lib_parse, LibOut};
use crate::prng::{fnv, Rng};
use crate::report::{guarded, par_cases, Ctx, Report};
use ldap3::{dn_escape, ldap_escape, ldap_unescape};
use serde_json::{json, Value};
use std::borrow::Cow;

fn lib_filter(s: &[u8]) -> Result<Filter, String> {
    match lib_parse(s) {
        LibOut::Accepted(b) => {
            let (n, _) = ber::decode_exact(&b).map_err(|e| format!("{:?}", e))?;
            Filter::from_node(&n)
        }
        LibOut::Rejected => Err("parse_filter rejected".into()),
        LibOut::Panicked(p) => Err(format!("parse_filter panicked at {}", p.site())),
    }
}

fn class_of(v: &str) -> String {
    // which character class is involved (for signatures): first offending-looking char
    for c in v.chars() {
        match c {
            '\0' => return "NUL".into(),
            '(' | ')' | '*' | '\\' => return format!("filter-meta-{:02x}", c as u32),
            '"' | '+' | ',' | ';' | '<' | '>' | '=' => return format!("dn-meta-{:02x}", c as u32),
            _ => {}
        }
    }
    if v.starts_with(' ') { return "leading-space".into(); }
    if v.starts_with('#') { return "leading-hash".into(); }
    if v.ends_with(' ') { return "trailing-space".into(); }
    "plain".into()
}

fn class_of_ws(v: &str) -> String {
    if v.ends_with(|c: char| c.is_ascii_whitespace()) {
        "trailing-whitespace".into()
    } else if v.starts_with(|c: char| c.is_ascii_whitespace()) {
        "leading-whitespace".into()
    } else {
        class_of(v)
    }
}

fn needs_filter_escape(v: &str) -> bool {
    v.bytes().any(|b| matches!(b, 0 | b'(' | b')' | b'*' | b'\\'))
}
fn needs_dn_escape(v: &str) -> bool {
    v.bytes().any(|b| matches!(b, 0 | b'"' | b'+' | b',' | b';' | b'<' | b'>' | b'\\'))
        || v.starts_with(' ')
        || v.starts_with('#')
        || v.ends_with(' ')
}

pub fn check_one(v: &str, rep: &mut Report) {
    let replay = json!({"value_hex": ber::hex(v.as_bytes())});
    let vb = v.as_bytes().to_vec();
    // ---- ldap_escape ----
    match guarded(|| ldap_escape(v).into_owned()) {
        Err(p) => rep.violation(format!("C09:ldap_escape:panic@{}", p.site()), format!("{:?}", v), replay.clone()),
        Ok(e) => {
            let eb = e.as_bytes();
            // (a=<e>)
            let mut s = b"(a=".to_vec();
            s.extend_from_slice(eb);
            s.push(b')');
            match lib_filter(&s) {
                Ok(Filter::Eq(a, val)) if a == b"a" && val == vb => {}
                other => rep.violation(format!("C09:ldap_escape:not-inert:equality:{}", class_of(v)), format!("value {:?} escaped {:?} -> {:?}", v, e, other), replay.clone()),
            }
            // inside a composite
            let mut s = b"(&(a=".to_vec();
            s.extend_from_slice(eb);
            s.extend_from_slice(b")(b=x))");
            match lib_filter(&s) {
                Ok(Filter::And(l)) if l == vec![Filter::Eq(b"a".to_vec(), vb.clone()), Filter::Eq(b"b".to_vec(), b"x".to_vec())] => {}
                other => rep.violation(format!("C09:ldap_escape:not-inert:composite:{}", class_of(v)), format!("value {:?} escaped {:?} -> {:?}", v, e, other), replay.clone()),
            }
            // extensible and ordering
            let mut s = b"(a:caseExactMatch:=".to_vec();
            s.extend_from_slice(eb);
            s.push(b')');
            match lib_filter(&s) {
                Ok(Filter::Ext { rule: Some(r), attr: Some(a), value, dn: false }) if r == b"caseExactMatch" && a == b"a" && value == vb => {}
                other => rep.violation(format!("C09:ldap_escape:not-inert:extensible:{}", class_of(v)), format!("value {:?} escaped {:?} -> {:?}", v, e, other), replay.clone()),
            }
            // the documented extension: an item without the outer parentheses (the value then runs
            // to the very end of the input, so leading/trailing whitespace is part of it)
            for (tmpl, kind) in [(&b"a="[..], 0u8), (b"a>=", 1), (b"a:=", 2)] {
                let mut s = tmpl.to_vec();
                s.extend_from_slice(eb);
                let ok = match (kind, lib_filter(&s)) {
                    (0, Ok(Filter::Eq(a, val))) => a == b"a" && val == vb,
                    (1, Ok(Filter::Ge(a, val))) => a == b"a" && val == vb,
                    (2, Ok(Filter::Ext { rule: None, attr: Some(a), value, dn: false })) => a == b"a" && value == vb,
                    _ => false,
                };
                // "a=*" style inputs are not the escaped form of anything: escape() never emits a bare '*'
                if !ok {
                    rep.violation(format!("C09:ldap_escape:not-inert:bare-item:{}", class_of_ws(v)), format!("value {:?} escaped {:?} in {:?} -> {:?}", v, e, String::from_utf8_lossy(&s), lib_filter(&s)), replay.clone());
                }
            }
            if !v.is_empty() {
                // substring initial/any/final
                let mut s = b"(a=".to_vec();
                s.extend_from_slice(eb);
                s.push(b'*');
                s.extend_from_slice(eb);
                s.push(b'*');
                s.extend_from_slice(eb);
                s.push(b')');
                match lib_filter(&s) {
                    Ok(Filter::Sub { attr, initial: Some(i), any, fin: Some(f) }) if attr == b"a" && i == vb && any == vec![vb.clone()] && f == vb => {}
                    other => rep.violation(format!("C09:ldap_escape:not-inert:substring:{}", class_of(v)), format!("value {:?} escaped {:?} -> {:?}", v, e, other), replay.clone()),
                }
            }
            // unescape(escape(v)) == v
            match guarded(|| ldap_unescape(e.clone()).map(|c| c.into_owned())) {
                Ok(Ok(u)) if u == v => {}
                Ok(other) => rep.violation(format!("C09:ldap_unescape:roundtrip:{}", class_of(v)), format!("value {:?} escaped {:?} unescaped {:?}", v, e, other.map_err(|e| e.to_string())), replay.clone()),
                Err(p) => rep.violation(format!("C09:ldap_unescape:panic@{}", p.site()), format!("{:?}", v), replay.clone()),
            }
            // unchanged when nothing needs escaping
            if !needs_filter_escape(v) {
                let c = ldap_escape(v);
                if c != v || !matches!(c, Cow::Borrowed(_)) {
                    rep.violation("C09:ldap_escape:changed-string-needing-no-escape", format!("{:?} -> {:?}", v, c), replay.clone());
                }
                rep.count("filter_no_escape_needed", 1);
            } else {
                rep.count("filter_escape_needed", 1);
            }
        }
    }
    // ---- dn_escape ----
    match guarded(|| dn_escape(v).into_owned()) {
        Err(p) => rep.violation(format!("C09:dn_escape:panic@{}", p.site()), format!("{:?}", v), replay.clone()),
        Ok(d) => {
            let dn = format!("cn={},ou=x+uid={},dc=y", d, d);
            let want = vec![
                vec![Ava { ty: "cn".into(), value: vb.clone() }],
                vec![Ava { ty: "ou".into(), value: b"x".to_vec() }, Ava { ty: "uid".into(), value: vb.clone() }],
                vec![Ava { ty: "dc".into(), value: b"y".to_vec() }],
            ];
            match dn_ref::parse(dn.as_bytes()) {
                Ok(got) if got == want => {}
                other => rep.violation(format!("C09:dn_escape:not-inert:{}", class_of(v)), format!("value {:?} escaped {:?}: RFC 4514 parse of {:?} gives {:?}", v, d, dn, other), replay.clone()),
            }
            if !needs_dn_escape(v) {
                let c = dn_escape(v);
                if c != v || !matches!(c, Cow::Borrowed(_)) {
                    // '=' is escaped by the library although RFC 4514 does not require it: still "needs no escaping"?
                    // The library documents '=' as always escaped; treat '=' as needing escape.
                    if !v.contains('=') {
                        rep.violation("C09:dn_escape:changed-string-needing-no-escape", format!("{:?} -> {:?}", v, c), replay.clone());
                    }
                }
                rep.count("dn_no_escape_needed", 1);
            } else {
                rep.count("dn_escape_needed", 1);
            }
        }
    }
    rep.case(Some(fnv(v.as_bytes())));
}

pub fn exhaustive_short(ctx: &Ctx) -> Report {
    let mut rep = Report::new();
    // all strings of length <= 2 over ASCII 0..127
    let lim: u32 = if ctx.tiny { 16 } else { 128 };
    check_one("", &mut rep);
    for a in 0..lim {
        let s: String = [char::from_u32(a).unwrap()].iter().collect();
        check_one(&s, &mut rep);
    }
    let rep2 = par_cases(ctx, "ascii2", lim as u64, ctx.secs(60, 300), |a, _rng, rep| {
        for b in 0..lim {
            let s: String = [char::from_u32(a as u32).unwrap(), char::from_u32(b).unwrap()].iter().collect();
            check_one(&s, rep);
        }
    });
    rep.merge(rep2);
    rep.exhaustive.push(format!("all strings of length 0..=2 over ASCII 0..{}", lim));
    rep.sample(json!({"lane":"exhaustive_short","alphabet":"ASCII 0..127","max_len":2}));
    rep
}

const META: &[&str] = &["\0", "(", ")", "*", "\\", "\"", "+", ",", ";", "<", ">", "=", " ", "#", "/", ":", "&", "|", "!", "~", "a", "0", "F", "é", "中", "\t", "\n"];

pub fn exhaustive_meta(ctx: &Ctx) -> Report {
    let k = META.len() as u64;
    let maxlen = if ctx.tiny { 1 } else { 4 };
    let total: u64 = (0..=maxlen).map(|l| k.pow(l)).sum();
    const BLOCK: u64 = 1024;
    let blocks = (total + BLOCK - 1) / BLOCK;
    let mut rep = par_cases(ctx, "meta4", blocks, ctx.secs(90, 600), |bi, _rng, rep| {
        for idx in bi * BLOCK..((bi + 1) * BLOCK).min(total) {
            let mut l = 0u32;
            let mut base = 0u64;
            let mut acc = 0u64;
            for len in 0..=maxlen {
                if idx >= acc {
                    l = len;
                    base = acc;
                }
                acc += k.pow(len);
            }
            let mut x = idx - base;
            let mut s = String::new();
            for _ in 0..l {
                s.push_str(META[(x % k) as usize]);
                x /= k;
            }
            check_one(&s, rep);
        }
    });
    if rep.counters.get("stopped_by_time_budget").is_none() {
        rep.exhaustive.push(format!("all {} strings of length 0..={} over {} metacharacter/ordinary/multibyte symbols", total, maxlen, k));
    }
    rep.sample(json!({"lane":"exhaustive_meta","symbols":META,"max_len":maxlen}));
    rep
}

pub fn gen_string(rng: &mut Rng) -> String {
    let mut s = String::new();
    if rng.chance(1, 4) {
        s.push(*rng.pick(&[' ', '#', ' ', '\\', '*']));
    }
    s.push_str(&rng.ustring(12));
    if rng.chance(1, 4) {
        s.push(*rng.pick(&[' ', '#', '\\', ' ', '\t', '\n']));
    }
    s
}

pub fn random(ctx: &Ctx) -> Report {
    let n = ctx.n(2_000_000, 1_000_000_000);
    par_cases(ctx, "random", n, ctx.secs(20, 400), |i, rng, rep| {
        let s = gen_string(rng);
        if i < 3 {
            rep.sample(json!({"lane":"random","value":s,"ldap_escape":ldap_escape(s.as_str()),"dn_escape":dn_escape(s.as_str())}));
        }
        check_one(&s, rep);
    })
}

pub fn replay(_ctx: &Ctx, v: &Value) -> Report {
    let mut rep = Report::new();
    if let Some(h) = v["value_hex"].as_str() {
        if let Ok(s) = String::from_utf8(ber::unhex(h)) {
            check_one(&s, &mut rep);
        }
    }
    rep
}
