//! C14 — the synchronous API is observationally identical to the asynchronous one.
//! The same script runs through LdapConn and through Ldap against the same deterministic
//! scripted server over a Unix socket pair; wire transcripts and return values must agree.
use crate::ber;
use crate::gen;
use crate::lanes::c02::normalise;
use crate::lanes::c13::{paged_value, parse_paged, PAGED_OID};
use crate::msg::{decode_request, reply_for, resp_node, CritEnc, Ctl, Req, ReqMsg, Res, Resp, RespCtl};
use crate::prng::{fnv, Rng};
use crate::report::{case_rng, guarded, par_cases, Ctx, Report};
use crate::world::{self, err_class, exop_out, item_out, res_out, Call, ItemOut, ModSpec, Outcome, SearchSpec};
use ldap3::adapters::{Adapter, EntriesOnly, PagedResults};
use ldap3::exop::Exop;
use ldap3::{LdapConn, LdapConnAsync, LdapConnSettings, Mod, StdStream};
use serde_json::{json, Value};
use std::collections::HashSet;
use std::io::{Read, Write};
use std::os::unix::net::UnixStream;
use std::time::Duration;

#[derive(Clone, Debug)]
pub struct Mods {
    pub controls: Option<Vec<Ctl>>,
    pub timeout_ms: Option<u64>,
    pub opts: Option<(u8, bool, i32, i32)>,
    /// each modifier is set twice, first to a throw-away value: the last call wins
    pub twice: bool,
    /// between setting the modifiers and the operation, ask for the peer certificate: not an LDAP
    /// operation, so it consumes none of the modifiers
    pub peer_cert: bool,
}

#[derive(Clone, Debug)]
pub enum SOp {
    Call(Call, Mods),
    /// streaming search: adapters (0 = none, 1 = EntriesOnly, 2 = PagedResults(3), 3 = both), number of next()
    /// calls before finish (None = until the end)
    Stream(SearchSpec, Mods, u8, Option<usize>),
    LastId,
    IsClosed,
    /// abandon(last_id()): the ID is whatever the handle reports at that moment (0 before any operation)
    AbandonLast(Mods),
}

fn behaviour_of(field: &[u8]) -> String {
    String::from_utf8_lossy(field).split(',').find_map(|p| p.strip_prefix("b=").map(|x| x.to_string())).unwrap_or_else(|| "ok".into())
}

/// Deterministic scripted server on a blocking Unix stream. Returns the decoded requests.
fn serve(mut s: UnixStream) -> Vec<(Vec<u8>, Result<ReqMsg, String>)> {
    let mut log = vec![];
    let mut buf: Vec<u8> = vec![];
    let mut tmp = [0u8; 65536];
    let _ = s.set_read_timeout(Some(Duration::from_secs(20)));
    let mut peer_gone = false;
    loop {
        while let Some(total) = ber::outer_complete(&buf) {
            let raw: Vec<u8> = buf.drain(..total).collect();
            let msg = decode_request(&raw);
            log.push((raw, msg.clone()));
            let m = match msg {
                Ok(m) => m,
                Err(_) => continue,
            };
            let b = m.op.token_field().map(behaviour_of).unwrap_or_else(|| "ok".into());
            let tok = m.op.token_field().and_then(gen::token_of).unwrap_or(0);
            let mut out = vec![];
            match &m.op {
                Req::Unbind => return log,
                Req::Abandon(_) => {}
                _ if b == "silent" => {}
                _ if b == "close" => return log,
                Req::Search { .. } if b.starts_with("itemsclose") => {
                    // some entries, then the connection goes away before the final result
                    let n: usize = b.trim_start_matches("itemsclose").parse().unwrap_or(0);
                    let mut o = vec![];
                    for k in 0..n {
                        o.extend_from_slice(&ber::encode_min(&resp_node(m.id, &Resp::Entry { dn: format!("e={}.{},dc=x", tok, k).into_bytes(), attrs: vec![] }, None)));
                    }
                    let _ = s.write_all(&o);
                    return log;
                }
                Req::Search { .. } if b.starts_with("trickle") => {
                    // entries 20 ms apart: every gap is far below the client's per-item timeout, the whole
                    // exchange is longer than it
                    let n: usize = b.trim_start_matches("trickle").parse().unwrap_or(0);
                    for k in 0..n {
                        let e = ber::encode_min(&resp_node(m.id, &Resp::Entry { dn: format!("e={}.{},dc=x", tok, k).into_bytes(), attrs: vec![] }, None));
                        if s.write_all(&e).is_err() {
                            peer_gone = true;
                            break;
                        }
                        std::thread::sleep(Duration::from_millis(20));
                    }
                    out.extend_from_slice(&ber::encode_min(&resp_node(m.id, &Resp::Done(Res::ok(&format!("t:{}:done", tok))), None)));
                }
                Req::Search { .. } => {
                    if let Some(n) = b.strip_prefix("items") {
                        let n: usize = n.parse().unwrap_or(0);
                        for k in 0..n {
                            let r = match k % 4 {
                                3 => Resp::Reference(vec![format!("ldap://ref/{}.{}", tok, k)]),
                                _ => Resp::Entry { dn: format!("e={}.{},dc=x", tok, k).into_bytes(), attrs: vec![(b"cn".to_vec(), vec![format!("v{}", k).into_bytes()])] },
                            };
                            let c = if k % 3 == 0 { Some(vec![RespCtl { oid: "1.2.3.4".into(), crit: CritEnc::Absent, val: Some(vec![k as u8]) }]) } else { None };
                            out.extend_from_slice(&ber::encode_min(&resp_node(m.id, &r, c.as_deref())));
                        }
                        let mut res = Res::ok(&format!("t:{}:done", tok));
                        res.refs = Some(vec!["ldap://done/ref".into()]);
                        out.extend_from_slice(&ber::encode_min(&resp_node(m.id, &Resp::Done(res), None)));
                    } else if let Some(n) = b.strip_prefix("paged") {
                        let n: usize = n.parse().unwrap_or(0);
                        let pc = m.controls.as_ref().and_then(|cs| cs.iter().find(|c| c.oid == PAGED_OID.as_bytes())).and_then(|c| c.val.as_ref()).and_then(|v| parse_paged(v));
                        match pc {
                            Some((size, cookie)) => {
                                let off: usize = String::from_utf8_lossy(&cookie).parse().unwrap_or(0);
                                let end = (off + size.max(1) as usize).min(n);
                                for k in off..end {
                                    out.extend_from_slice(&ber::encode_min(&resp_node(m.id, &Resp::Entry { dn: format!("e={}.{},dc=x", tok, k).into_bytes(), attrs: vec![] }, None)));
                                }
                                let next = if end < n { end.to_string().into_bytes() } else { vec![] };
                                let c = RespCtl { oid: PAGED_OID.into(), crit: CritEnc::Absent, val: Some(paged_value(n as i64, &next)) };
                                out.extend_from_slice(&ber::encode_min(&resp_node(m.id, &Resp::Done(Res::ok(&format!("t:{}:page", tok))), Some(&[c]))));
                            }
                            None => out.extend_from_slice(&ber::encode_min(&resp_node(m.id, &Resp::Done(Res::code(53, "no paging control")), None))),
                        }
                    } else if let Some(rc) = b.strip_prefix("rc") {
                        out.extend_from_slice(&ber::encode_min(&resp_node(m.id, &Resp::Done(Res::code(rc.parse().unwrap_or(1), &format!("t:{}:err", tok))), None)));
                    } else {
                        out.extend_from_slice(&ber::encode_min(&resp_node(m.id, &Resp::Done(Res::ok(&format!("t:{}:done", tok))), None)));
                    }
                }
                op => {
                    let mut res = if let Some(rc) = b.strip_prefix("rc") { Res::code(rc.parse().unwrap_or(1), &format!("t:{}:err", tok)) } else { Res::ok(&format!("t:{}:ok", tok)) };
                    if tok % 3 == 0 {
                        res.matched = format!("dc=matched{}", tok);
                    }
                    let r = match reply_for(op, res.clone()) {
                        Some(Resp::Extended { res, .. }) => Some(Resp::Extended { res, name: Some("1.2.3.4.5".into()), value: Some(format!("val{}", tok).into_bytes()) }),
                        other => other,
                    };
                    if let Some(r) = r {
                        let c = if tok % 2 == 0 { Some(vec![RespCtl { oid: "2.16.840.1.113730.3.4.2".into(), crit: CritEnc::True(0xff), val: None }]) } else { None };
                        out.extend_from_slice(&ber::encode_min(&resp_node(m.id, &r, c.as_deref())));
                    }
                }
            }
            // a failed write (the client has already closed) must not hide requests that were
            // received: keep decoding what is buffered, just stop answering
            if !out.is_empty() && !peer_gone && s.write_all(&out).is_err() {
                peer_gone = true;
            }
        }
        match s.read(&mut tmp) {
            Ok(0) | Err(_) => return log,
            Ok(n) => buf.extend_from_slice(&tmp[..n]),
        }
    }
}

fn hs(v: &[Vec<u8>]) -> HashSet<Vec<u8>> {
    v.iter().cloned().collect()
}

fn lift<T>(r: Result<T, ldap3::LdapError>, f: impl FnOnce(T) -> Outcome) -> Outcome {
    match r {
        Ok(v) => f(v),
        Err(e) => Outcome::Err(err_class(&e).to_string(), String::new()),
    }
}

fn adapters_of(kind: u8) -> Vec<Box<dyn Adapter<'static, String, Vec<String>>>> {
    match kind {
        1 => vec![Box::new(EntriesOnly::new())],
        2 => vec![Box::new(PagedResults::new(3))],
        3 => vec![Box::new(EntriesOnly::new()), Box::new(PagedResults::new(3))],
        _ => vec![],
    }
}

#[derive(Clone, Debug, PartialEq)]
pub enum Obs {
    Out(Outcome),
    Stream { items: Vec<ItemOut>, ended: String, result: Option<world::ResOut>, last_id: i32 },
    LastId(i32),
    IsClosed(bool),
}

/// Does this step make the server drop the connection (or unbind)?
fn kills_connection(op: &SOp) -> bool {
    match op {
        SOp::Call(Call::Unbind, _) => true,
        SOp::Call(c, _) => c.expected().token_field().map(|f| behaviour_of(f) == "close" || behaviour_of(f).starts_with("itemsclose")).unwrap_or(false),
        SOp::Stream(sp, ..) => {
            let b = behaviour_of(sp.base.as_bytes());
            b == "close" || b.starts_with("itemsclose")
        }
        _ => false,
    }
}

fn run_sync(script: &[SOp], sock: UnixStream) -> Vec<Obs> {
    let mut obs = vec![];
    let mut conn = match LdapConn::with_settings(LdapConnSettings::new().set_std_stream(StdStream::Unix(sock)), "ldapi:///") {
        Ok(c) => c,
        Err(e) => return vec![Obs::Out(Outcome::Err(format!("connect:{}", err_class(&e)), String::new()))],
    };
    for op in script {
        if obs.len() > 0 && script.get(obs.len() - 1).map(kills_connection).unwrap_or(false) {
            // give the driver time to notice the dead connection, so that later steps do not race it
            std::thread::sleep(Duration::from_millis(80));
        }
        match op {
            SOp::LastId => obs.push(Obs::LastId(conn.last_id())),
            SOp::IsClosed => obs.push(Obs::IsClosed(conn.is_closed())),
            SOp::AbandonLast(m) => {
                if let Some(c) = &m.controls {
                    conn.with_controls(world::raw_controls(c));
                }
                let id = conn.last_id();
                obs.push(Obs::Out(lift(conn.abandon(id), |_| Outcome::Unit)));
            }
            SOp::Call(call, m) => {
                if m.twice {
                    if m.controls.is_some() {
                        conn.with_controls(vec![ldap3::controls::RawControl { ctype: "1.2.3.9.9".into(), crit: false, val: Some(b"superseded".to_vec()) }]);
                    }
                    if m.timeout_ms.is_some() {
                        conn.with_timeout(Duration::from_secs(9));
                    }
                    if m.opts.is_some() {
                        conn.with_search_options(world::search_options((1, true, 7, 7)));
                    }
                }
                if let Some(c) = &m.controls {
                    conn.with_controls(world::raw_controls(c));
                }
                if let Some(t) = m.timeout_ms {
                    conn.with_timeout(Duration::from_millis(t));
                }
                if let Some(o) = m.opts {
                    conn.with_search_options(world::search_options(o));
                }
                if m.peer_cert {
                    let _ = conn.get_peer_certificate();
                }
                let o = match call {
                    Call::Bind { dn, pw } => lift(conn.simple_bind(dn, pw), |r| Outcome::Res(res_out(&r))),
                    Call::SaslExternal => lift(conn.sasl_external_bind(), |r| Outcome::Res(res_out(&r))),
                    Call::Add { dn, attrs } => lift(conn.add(dn, attrs.iter().map(|(n, v)| (n.clone(), hs(v))).collect()), |r| Outcome::Res(res_out(&r))),
                    Call::Compare { dn, attr, val } => lift(conn.compare(dn, attr, val), |r| Outcome::Res(res_out(&r.0))),
                    Call::Delete { dn } => lift(conn.delete(dn), |r| Outcome::Res(res_out(&r))),
                    Call::Modify { dn, mods } => lift(conn.modify(dn, mods_of(mods)), |r| Outcome::Res(res_out(&r))),
                    Call::ModDn { dn, rdn, delold, newsup } => lift(conn.modifydn(dn, rdn, *delold, newsup.as_deref()), |r| Outcome::Res(res_out(&r))),
                    Call::Extended { name, val } => lift(conn.extended(Exop { name: Some(name.clone()), val: val.clone() }), |r| Outcome::Res(exop_out(&r))),
                    Call::Abandon(id) => lift(conn.abandon(*id), |_| Outcome::Unit),
                    Call::Unbind => lift(conn.unbind(), |_| Outcome::Unit),
                    Call::Search(s) => {
                        let f = String::from_utf8_lossy(&s.filter_str).into_owned();
                        lift(conn.search(&s.base, world::scope_of(s.scope), &f, s.attrs.clone()), |r| Outcome::Search(r.0.iter().map(item_out).collect(), res_out(&r.1)))
                    }
                };
                obs.push(Obs::Out(o));
            }
            SOp::Stream(s, m, ad, reads) => {
                if m.twice {
                    if m.controls.is_some() {
                        conn.with_controls(vec![ldap3::controls::RawControl { ctype: "1.2.3.9.9".into(), crit: false, val: Some(b"superseded".to_vec()) }]);
                    }
                    if m.timeout_ms.is_some() {
                        conn.with_timeout(Duration::from_secs(9));
                    }
                    if m.opts.is_some() {
                        conn.with_search_options(world::search_options((1, true, 7, 7)));
                    }
                }
                if let Some(c) = &m.controls {
                    conn.with_controls(world::raw_controls(c));
                }
                if let Some(t) = m.timeout_ms {
                    conn.with_timeout(Duration::from_millis(t));
                }
                if let Some(o) = m.opts {
                    conn.with_search_options(world::search_options(o));
                }
                if m.peer_cert {
                    let _ = conn.get_peer_certificate();
                }
                let f = String::from_utf8_lossy(&s.filter_str).into_owned();
                let st = if *ad == 0 { conn.streaming_search(&s.base, world::scope_of(s.scope), &f, s.attrs.clone()) } else { conn.streaming_search_with(adapters_of(*ad), &s.base, world::scope_of(s.scope), &f, s.attrs.clone()) };
                match st {
                    Err(e) => obs.push(Obs::Out(Outcome::Err(format!("start:{}", err_class(&e)), String::new()))),
                    Ok(mut st) => {
                        let mut items = vec![];
                        let mut ended = "early".to_string();
                        let mut n = 0;
                        loop {
                            if let Some(r) = reads {
                                if n >= *r {
                                    break;
                                }
                            }
                            n += 1;
                            match st.next() {
                                Ok(Some(e)) => items.push(item_out(&e)),
                                Ok(None) => {
                                    ended = "end".into();
                                    break;
                                }
                                Err(e) => {
                                    ended = format!("err:{}", err_class(&e));
                                    break;
                                }
                            }
                        }
                        let last_id = st.last_id();
                        let r = st.result();
                        obs.push(Obs::Stream { items, ended, result: Some(res_out(&r)), last_id });
                    }
                }
            }
        }
    }
    obs
}

fn mods_of(mods: &[ModSpec]) -> Vec<Mod<Vec<u8>>> {
    mods.iter()
        .map(|m| match m {
            ModSpec::Add(a, v) => Mod::Add(a.clone(), hs(v)),
            ModSpec::Delete(a, v) => Mod::Delete(a.clone(), hs(v)),
            ModSpec::Replace(a, v) => Mod::Replace(a.clone(), hs(v)),
            ModSpec::Increment(a, v) => Mod::Increment(a.clone(), v.clone()),
        })
        .collect()
}

fn run_async(script: &[SOp], sock: UnixStream) -> Vec<Obs> {
    let rt = tokio::runtime::Builder::new_current_thread().enable_all().build().expect("rt");
    rt.block_on(async move {
        let mut obs = vec![];
        let (conn, mut ldap) = match LdapConnAsync::with_settings(LdapConnSettings::new().set_std_stream(StdStream::Unix(sock)), "ldapi:///").await {
            Ok(c) => c,
            Err(e) => return vec![Obs::Out(Outcome::Err(format!("connect:{}", err_class(&e)), String::new()))],
        };
        ldap3::drive!(conn);
        for op in script {
            if obs.len() > 0 && script.get(obs.len() - 1).map(kills_connection).unwrap_or(false) {
                tokio::time::sleep(Duration::from_millis(80)).await;
            }
            match op {
                SOp::LastId => obs.push(Obs::LastId(ldap.last_id())),
                SOp::IsClosed => obs.push(Obs::IsClosed(ldap.is_closed())),
                SOp::AbandonLast(m) => {
                    if let Some(c) = &m.controls {
                        ldap.with_controls(world::raw_controls(c));
                    }
                    let id = ldap.last_id();
                    let o = match world::invoke(&mut ldap, &Call::Abandon(id)).await {
                        Outcome::Err(c, _) => Outcome::Err(c, String::new()),
                        o => o,
                    };
                    obs.push(Obs::Out(o));
                }
                SOp::Call(call, m) => {
                    if m.twice {
                        if m.controls.is_some() {
                            ldap.with_controls(vec![ldap3::controls::RawControl { ctype: "1.2.3.9.9".into(), crit: false, val: Some(b"superseded".to_vec()) }]);
                        }
                        if m.timeout_ms.is_some() {
                            ldap.with_timeout(Duration::from_secs(9));
                        }
                        if m.opts.is_some() {
                            ldap.with_search_options(world::search_options((1, true, 7, 7)));
                        }
                    }
                    if let Some(c) = &m.controls {
                        ldap.with_controls(world::raw_controls(c));
                    }
                    if let Some(t) = m.timeout_ms {
                        ldap.with_timeout(Duration::from_millis(t));
                    }
                    let mut call = call.clone();
                    if let (Call::Search(s), Some(o)) = (&mut call, m.opts) {
                        s.opts = Some(o);
                    } else if let Some(o) = m.opts {
                        ldap.with_search_options(world::search_options(o));
                    }
                    if m.peer_cert {
                        let _ = ldap.get_peer_certificate().await;
                    }
                    // (guard: an operation that never returns is an observation, not a reason to hang the check)
                    let o = match tokio::time::timeout(Duration::from_secs(5), world::invoke(&mut ldap, &call)).await {
                        Ok(Outcome::Err(c, _)) => Outcome::Err(c, String::new()),
                        Ok(o) => o,
                        Err(_) => Outcome::Hung,
                    };
                    obs.push(Obs::Out(o));
                }
                SOp::Stream(s, m, ad, reads) => {
                    if m.twice {
                        if m.controls.is_some() {
                            ldap.with_controls(vec![ldap3::controls::RawControl { ctype: "1.2.3.9.9".into(), crit: false, val: Some(b"superseded".to_vec()) }]);
                        }
                        if m.timeout_ms.is_some() {
                            ldap.with_timeout(Duration::from_secs(9));
                        }
                        if m.opts.is_some() {
                            ldap.with_search_options(world::search_options((1, true, 7, 7)));
                        }
                    }
                    if let Some(c) = &m.controls {
                        ldap.with_controls(world::raw_controls(c));
                    }
                    if let Some(t) = m.timeout_ms {
                        ldap.with_timeout(Duration::from_millis(t));
                    }
                    if let Some(o) = m.opts {
                        ldap.with_search_options(world::search_options(o));
                    }
                    if m.peer_cert {
                        let _ = ldap.get_peer_certificate().await;
                    }
                    let f = String::from_utf8_lossy(&s.filter_str).into_owned();
                    let st = if *ad == 0 { ldap.streaming_search(&s.base, world::scope_of(s.scope), &f, s.attrs.clone()).await } else { ldap.streaming_search_with(adapters_of(*ad), &s.base, world::scope_of(s.scope), &f, s.attrs.clone()).await };
                    match st {
                        Err(e) => obs.push(Obs::Out(Outcome::Err(format!("start:{}", err_class(&e)), String::new()))),
                        Ok(mut st) => {
                            let mut items = vec![];
                            let mut ended = "early".to_string();
                            let mut n = 0;
                            loop {
                                if let Some(r) = reads {
                                    if n >= *r {
                                        break;
                                    }
                                }
                                n += 1;
                                match st.next().await {
                                    Ok(Some(e)) => items.push(item_out(&e)),
                                    Ok(None) => {
                                        ended = "end".into();
                                        break;
                                    }
                                    Err(e) => {
                                        ended = format!("err:{}", err_class(&e));
                                        break;
                                    }
                                }
                            }
                            let last_id = st.ldap_handle().last_id();
                            let r = st.finish().await;
                            obs.push(Obs::Stream { items, ended, result: Some(res_out(&r)), last_id });
                        }
                    }
                }
            }
        }
        obs
    })
}

fn with_behaviour(dn: &str, b: &str) -> String {
    // keep the token prefix "op=<n>" and add the behaviour
    let n: String = dn.trim_start_matches("op=").chars().take_while(|c| c.is_ascii_digit()).collect();
    format!("op={},b={}", n, b)
}

pub fn gen_script(rng: &mut Rng, i: u64) -> Vec<SOp> {
    let n = 2 + rng.usize(10);
    let mut script = vec![];
    let mut dead = false;
    for k in 0..n {
        let tok = i * 100 + k as u64;
        let mods = Mods {
            controls: if rng.chance(1, 3) { Some({ let mut c = gen::gen_req_controls(rng); c.retain(|c| c.oid != PAGED_OID.as_bytes()); c }) } else { None },
            timeout_ms: None,
            opts: if rng.chance(1, 4) { let lim = |r: &mut Rng| if r.chance(1, 4) { *r.pick(&[-1i32, i32::MIN, -70_000, i32::MAX, 32_768, 65_536]) } else { r.below(100) as i32 }; Some((rng.below(4) as u8, rng.bool(), lim(rng), lim(rng))) } else { None },
            twice: rng.chance(1, 5),
            peer_cert: rng.chance(1, 5),
        };
        let zero_timeout = rng.chance(1, 3);
        let behaviour = match rng.below(12) {
            0 => "silent".to_string(),
            1 => format!("rc{}", *rng.pick(&[1u32, 5, 6, 10, 32, 49, 53, 68])),
            2 if !dead => "close".to_string(),
            _ => "ok".to_string(),
        };
        let op = match rng.below(12) {
            0 => SOp::LastId,
            1 => SOp::IsClosed,
            2 | 3 => {
                let mut s = gen::gen_search(rng, tok);
                s.opts = None;
                let span = if rng.chance(1, 6) { 6 } else { 5 };
                let (b, ad) = match rng.below(span) {
                    5 => ("trickle25".to_string(), rng.below(2) as u8),
                    0 => ("paged7".to_string(), 2 + rng.below(2) as u8),
                    1 => (format!("items{}", rng.usize(9)), rng.below(2) as u8),
                    2 => (if behaviour == "close" && rng.bool() { format!("itemsclose{}", rng.usize(4)) } else { behaviour.clone() }, rng.below(2) as u8),
                    _ => (format!("items{}", rng.usize(9)), 0),
                };
                s.base = with_behaviour(&s.base, &b);
                let mut m = mods.clone();
                if b == "silent" {
                    // (a zero timeout against a silent server gives up at once; against an answering server it would race the reply)
                    m.timeout_ms = Some(if zero_timeout { 0 } else { 60 });
                }
                if b == "trickle25" {
                    m.timeout_ms = Some(350);
                }
                let reads = if rng.chance(1, 3) { Some(rng.usize(6)) } else { None };
                if rng.chance(1, 7) {
                    // a filter string that does not parse: nothing goes out, and the modifiers set for this
                    // search must not survive it
                    s.filter_str = rng.pick(&[&b"(unbalanced"[..], b"(a=b)(c=d)", b"", b"(&(a=b)", b"(a=\\zz)"]).to_vec();
                    if m.controls.is_none() && rng.bool() {
                        m.controls = Some(vec![Ctl { oid: b"1.2.3.4.99".to_vec(), crit: false, val: Some(b"stale?".to_vec()) }]);
                    }
                    if m.timeout_ms.is_none() && rng.bool() {
                        m.timeout_ms = Some(40);
                    }
                }
                SOp::Stream(s, m, ad, reads)
            }
            4 => {
                let mut s = gen::gen_search(rng, tok);
                s.opts = None;
                let b = if behaviour == "close" && rng.bool() { format!("itemsclose{}", rng.usize(4)) } else if behaviour == "silent" || behaviour == "close" { behaviour.clone() } else if rng.chance(1, 25) { "trickle25".to_string() } else { format!("items{}", rng.usize(9)) };
                s.base = with_behaviour(&s.base, &b);
                let mut m = mods.clone();
                if b == "silent" {
                    // (a zero timeout against a silent server gives up at once; against an answering server it would race the reply)
                    m.timeout_ms = Some(if zero_timeout { 0 } else { 60 });
                }
                if b == "trickle25" {
                    m.timeout_ms = Some(350);
                }
                if rng.chance(1, 7) {
                    s.filter_str = rng.pick(&[&b"(unbalanced"[..], b"(a=b)(c=d)", b"", b"(&(a=b)", b"(a=\\zz)"]).to_vec();
                    if m.controls.is_none() && rng.bool() {
                        m.controls = Some(vec![Ctl { oid: b"1.2.3.4.99".to_vec(), crit: false, val: Some(b"stale?".to_vec()) }]);
                    }
                }
                SOp::Call(Call::Search(s), m)
            }
            5 => match rng.below(4) {
                0 => SOp::AbandonLast(mods.clone()),
                1 => SOp::Call(Call::Abandon(*rng.pick(&[0, 0, i32::MAX])), mods.clone()),
                _ => SOp::Call(Call::Abandon(1 + rng.below(20) as i32), mods.clone()),
            },
            6 if rng.chance(1, 4) => SOp::Call(Call::Unbind, mods.clone()),
            _ => {
                let mut call = gen::gen_call(rng, tok, false, false);
                if let Call::Add { attrs, .. } = &mut call {
                    // an attribute with an empty value set: refused locally, by both front-ends alike
                    if rng.chance(1, 4) {
                        attrs.push((b"emptyValued".to_vec(), vec![]));
                    }
                }
                let mut m = mods.clone();
                // put the behaviour in the DN-like field
                match &mut call {
                    Call::Bind { dn, .. } | Call::Add { dn, .. } | Call::Compare { dn, .. } | Call::Delete { dn } | Call::Modify { dn, .. } | Call::ModDn { dn, .. } => {
                        *dn = with_behaviour(dn, &behaviour);
                        if behaviour == "silent" {
                            // (a zero timeout against a silent server gives up at once; against an answering server it would race the reply)
                    m.timeout_ms = Some(if zero_timeout { 0 } else { 60 });
                        }
                    }
                    _ => {}
                }
                SOp::Call(call, m)
            }
        };
        if matches!(&op, SOp::Call(Call::Unbind, _)) || behaviour == "close" {
            dead = true;
        }
        script.push(op);
    }
    script
}

fn run_pair(script: &[SOp]) -> Result<((Vec<Obs>, Vec<(Vec<u8>, Result<ReqMsg, String>)>), (Vec<Obs>, Vec<(Vec<u8>, Result<ReqMsg, String>)>)), String> {
    let mut results = vec![];
    for sync in [true, false] {
        let (a, b) = UnixStream::pair().map_err(|e| e.to_string())?;
        let srv = std::thread::spawn(move || serve(b));
        let sc = script.to_vec();
        let cl = std::thread::spawn(move || guarded(move || if sync { run_sync(&sc, a) } else { run_async(&sc, a) }));
        let obs = match cl.join() {
            Ok(Ok(o)) => o,
            Ok(Err(p)) => vec![Obs::Out(Outcome::Panic(p.site()))],
            Err(_) => vec![Obs::Out(Outcome::Panic("thread".into()))],
        };
        let log = srv.join().map_err(|_| "server thread died".to_string())?;
        results.push((obs, log));
    }
    let b = results.pop().unwrap();
    let a = results.pop().unwrap();
    Ok((a, b))
}

fn run_case(i: u64, rng: &mut Rng, rep: &mut Report, verbose: bool) {
    let script = gen_script(rng, i);
    let timing_sensitive = script.iter().any(|op| match op {
        SOp::Call(Call::Search(s), _) | SOp::Stream(s, ..) => behaviour_of(s.base.as_bytes()).starts_with("trickle"),
        _ => false,
    });
    if !timing_sensitive {
        return run_script(i, script, rep, verbose);
    }
    // a script with a trickling search depends on real time (20 ms gaps against a 350 ms timeout):
    // a difference is only believed if it shows again when the script is run a second time
    let mut first = Report::new();
    run_script(i, script.clone(), &mut first, verbose);
    if first.violations.is_empty() {
        rep.merge(first);
        return;
    }
    let mut second = Report::new();
    run_script(i, script, &mut second, verbose);
    if second.violations.is_empty() {
        rep.inconclusive(format!("case {}: a difference in a timing-sensitive script was not reproduced on a second run: {:?}", i, first.violations.keys().collect::<Vec<_>>()));
        rep.merge(second);
    } else {
        rep.merge(second);
    }
}

fn run_script(i: u64, script: Vec<SOp>, rep: &mut Report, verbose: bool) {
    let replay = json!({"lane":"differential","case":i});
    let ((so, sl), (ao, al)) = match run_pair(&script) {
        Ok(x) => x,
        Err(e) => {
            rep.inconclusive(e);
            return;
        }
    };
    // From the step that makes the server disconnect (behaviour "close") or that unbinds, both
    // runs are racing the driver's discovery of the dead connection in real time: the error class
    // of later steps and whether a later request still reaches the wire legitimately vary from run
    // to run. From there on the oracle only requires that both APIs fail (or both succeed).
    let dying_from: Option<usize> = script.iter().position(|op| match op {
        SOp::Call(Call::Unbind, _) => true,
        SOp::Call(c, _) => c.expected().token_field().map(|f| behaviour_of(f) == "close" || behaviour_of(f).starts_with("itemsclose")).unwrap_or(false),
        SOp::Stream(sp, ..) => {
            let b = behaviour_of(sp.base.as_bytes());
            b == "close" || b.starts_with("itemsclose")
        }
        _ => false,
    });
    // number of requests put on the wire by the steps before that point
    let wire_stable: usize = match dying_from {
        None => usize::MAX,
        Some(k) => script[..k].iter().filter(|op| matches!(op, SOp::Call(..) | SOp::Stream(..))).count(),
    };
    // wire transcripts
    if dying_from.is_none() && sl.len() != al.len() {
        rep.violation("C14:wire:number-of-requests-differs", format!("sync sent {} requests, async {}; script {}", sl.len(), al.len(), brief(&script)), replay.clone());
    }
    for (k, ((sraw, sm), (araw, am))) in sl.iter().zip(&al).enumerate() {
        if k >= wire_stable {
            break;
        }
        match (sm, am) {
            (Ok(s), Ok(a)) => {
                if normalise(&s.op) != normalise(&a.op) || s.id != a.id || s.controls != a.controls {
                    let what = if s.id != a.id { "message-id" } else if s.controls != a.controls { "controls" } else { "operation" };
                    rep.violation(format!("C14:wire:request-differs:{}:{}", s.op.kind(), what), format!("request {}: sync {:?} async {:?}", k, trunc(s), trunc(a)), replay.clone());
                } else if !matches!(s.op, Req::Add { .. } | Req::Modify { .. }) && sraw != araw {
                    rep.violation(format!("C14:wire:bytes-differ:{}", s.op.kind()), format!("request {}: {} vs {}", k, ber::hex(&sraw[..sraw.len().min(60)]), ber::hex(&araw[..araw.len().min(60)])), replay.clone());
                }
            }
            _ => rep.violation("C14:wire:undecodable-request", format!("request {}", k), replay.clone()),
        }
    }
    // return values
    if so.len() != ao.len() {
        rep.violation("C14:results:number-of-results-differs", format!("{} vs {}", so.len(), ao.len()), replay.clone());
    }
    let failed = |o: &Obs| -> bool {
        match o {
            Obs::Out(Outcome::Err(..)) | Obs::Out(Outcome::Panic(_)) | Obs::Out(Outcome::Hung) => true,
            Obs::Stream { ended, .. } => ended.starts_with("err"),
            _ => false,
        }
    };
    for (k, (s, a)) in so.iter().zip(&ao).enumerate() {
        if let Some(d) = dying_from {
            if k >= d {
                // is_closed()/last_id() while the connection is going down are timing-dependent too
                let comparable = !matches!(script.get(k), Some(SOp::IsClosed) | Some(SOp::LastId));
                // (the step that loses the connection itself included: both APIs are waiting for the same
                // reply when the connection goes away)
                if comparable && failed(s) != failed(a) {
                    rep.violation("C14:results:one-api-fails-where-the-other-succeeds-on-a-dead-connection", format!("step {}: sync {} async {}; script {}", k, trunc(s), trunc(a), brief(&script)), replay.clone());
                }
                if k == d && matches!(script.get(k), Some(SOp::Call(Call::Unbind, _))) && s != a {
                    rep.violation("C14:results:differ:unbind", format!("step {}: sync {} async {}", k, trunc(s), trunc(a)), replay.clone());
                }
                rep.count("steps_on_a_dying_connection(compared by success/failure only)", 1);
                continue;
            }
        }
        if s != a {
            let opname = match script.get(k) {
                Some(SOp::Call(c, _)) => c.kind().to_string(),
                Some(SOp::Stream(..)) => "stream".into(),
                Some(SOp::LastId) => "last_id".into(),
                Some(SOp::IsClosed) => "is_closed".into(),
                Some(SOp::AbandonLast(_)) => "abandon(last_id())".into(),
                None => "?".into(),
            };
            rep.violation(format!("C14:results:differ:{}", opname), format!("step {}: sync {} async {}; script {}", k, trunc(s), trunc(a), brief(&script)), replay.clone());
        }
    }
    if verbose {
        for (k, (s, a)) in so.iter().zip(&ao).enumerate() {
            println!("step {}: {:?}\n   sync  {}\n   async {}", k, script.get(k).map(|o| brief(std::slice::from_ref(o))), trunc(s), trunc(a));
        }
    }
    for op in &script {
        rep.count(
            match op {
                SOp::Call(c, _) => match c.kind() { "search" => "steps_search", "bind" => "steps_bind", "add" => "steps_add", "compare" => "steps_compare", "delete" => "steps_delete", "modify" => "steps_modify", "modifydn" => "steps_modifydn", "extended" => "steps_extended", "abandon" => "steps_abandon", _ => "steps_unbind" },
                SOp::Stream(..) => "steps_stream",
                SOp::LastId => "steps_last_id",
                SOp::IsClosed => "steps_is_closed",
                SOp::AbandonLast(_) => "steps_abandon_last_id",
            },
            1,
        );
    }
    rep.count("requests_compared", sl.len().min(al.len()) as u64);
    if i < 2 {
        rep.sample(json!({"lane":"differential","case":i,"script":brief(&script),"sync_results":so.iter().map(|o| trunc(o).chars().take(80).collect::<String>()).collect::<Vec<_>>()}));
    }
    rep.case(Some(fnv(format!("{:?}", script).as_bytes())));
}

fn brief(script: &[SOp]) -> String {
    script
        .iter()
        .map(|o| match o {
            SOp::Call(c, m) => format!("{}{}{}{}", c.kind(), if m.controls.is_some() { "+c" } else { "" }, if m.timeout_ms.is_some() { "+t" } else { "" }, if m.opts.is_some() { "+o" } else { "" }),
            SOp::Stream(s, m, ad, r) => format!("stream[{} ad{} reads{:?}]{}{}", s.base.split(',').nth(1).unwrap_or(""), ad, r, if m.controls.is_some() { "+c" } else { "" }, if m.opts.is_some() { "+o" } else { "" }),
            SOp::LastId => "last_id".into(),
            SOp::IsClosed => "is_closed".into(),
            SOp::AbandonLast(_) => "abandon(last_id())".into(),
        })
        .collect::<Vec<_>>()
        .join(" ")
}

fn trunc<T: std::fmt::Debug>(t: &T) -> String {
    format!("{:?}", t).chars().take(400).collect()
}

pub fn differential(ctx: &Ctx) -> Report {
    let n = ctx.n(1_200, 500_000);
    // every case owns four OS threads and two runtimes: keep the number of concurrent cases moderate
    let mut c2 = ctx.clone();
    c2.threads = ctx.threads.min(6);
    par_cases(&c2, "differential", n, ctx.secs(40, 900), |i, rng, rep| run_case(i, rng, rep, false))
}

pub fn replay(ctx: &Ctx, v: &Value) -> Report {
    let mut rep = Report::new();
    if let Some(i) = v["case"].as_u64() {
        let mut rng = case_rng(ctx.seed, "differential", i);
        run_case(i, &mut rng, &mut rep, true);
    }
    rep
}


// ---------------- the constructors ----------------

/// `LdapConn::with_settings` is `LdapConnAsync::with_settings` plus a runtime: for the same URL and
/// the same kind of pre-opened stream both either connect or fail with the same class of error.
pub fn constructors(ctx: &Ctx) -> Report {
    let mut rep = Report::new();
    let listener = match std::net::TcpListener::bind("127.0.0.1:0") {
        Ok(l) => l,
        Err(e) => {
            rep.inconclusive(format!("constructors: cannot listen: {}", e));
            return rep;
        }
    };
    let port = listener.local_addr().map(|a| a.port()).unwrap_or(0);
    // accept and hold: nobody speaks on these connections
    std::thread::spawn(move || {
        let mut held = vec![];
        for s in listener.incoming() {
            match s {
                Ok(s) => held.push(s),
                Err(_) => break,
            }
            if held.len() > 4096 {
                held.clear();
            }
        }
    });
    let urls: Vec<String> = vec![
        "ldap:///".into(),
        "ldap://".into(),
        "ldap:///dc=example,dc=org??sub".into(),
        format!("ldap://127.0.0.1:{}", port),
        "ldap://localhost".into(),
        "ldap://host.invalid:3890".into(),
        "ldapi:///".into(),
        "ldapi://%2Ftmp%2Fno-such-socket".into(),
        "ldapx:///".into(),
        "LDAP:///".into(),
    ];
    let rt = tokio::runtime::Builder::new_multi_thread().worker_threads(2).enable_all().build().expect("rt");
    let reps = if ctx.tiny { 1 } else { 2 };
    for _ in 0..reps {
        for url in &urls {
            for kind in ["tcp", "unix", "none"] {
                if kind == "none" && !(url.contains(&port.to_string()) || url.starts_with("ldapi://%2F") || url.starts_with("ldapx")) {
                    // without a pre-opened stream only URLs that cannot reach a real service are tried
                    continue;
                }
                let mk = |k: &str| -> Result<LdapConnSettings, String> {
                    let s = LdapConnSettings::new().set_conn_timeout(Duration::from_secs(3));
                    Ok(match k {
                        "tcp" => s.set_std_stream(StdStream::Tcp(std::net::TcpStream::connect(("127.0.0.1", port)).map_err(|e| e.to_string())?)),
                        "unix" => {
                            let (a, b) = UnixStream::pair().map_err(|e| e.to_string())?;
                            std::mem::forget(b);
                            s.set_std_stream(StdStream::Unix(a))
                        }
                        _ => s,
                    })
                };
                let (sa, ss) = match (mk(kind), mk(kind)) {
                    (Ok(a), Ok(b)) => (a, b),
                    _ => {
                        rep.inconclusive(format!("constructors: cannot pre-open a {} stream", kind));
                        continue;
                    }
                };
                let u1 = url.clone();
                let a = rt.block_on(async move {
                    match tokio::time::timeout(Duration::from_secs(10), crate::world::Caught::new(LdapConnAsync::with_settings(sa, &u1))).await {
                        Ok(Ok(Ok(_))) => "Ok".to_string(),
                        Ok(Ok(Err(e))) => format!("Err({})", err_class(&e)),
                        Ok(Err(p)) => format!("Panic({})", p.site()),
                        Err(_) => "Hung".into(),
                    }
                });
                let u2 = url.clone();
                let (tx, rx) = std::sync::mpsc::channel();
                std::thread::spawn(move || {
                    let r = crate::report::guarded(|| LdapConn::with_settings(ss, &u2).map(|_| ()));
                    let _ = tx.send(match r {
                        Ok(Ok(())) => "Ok".to_string(),
                        Ok(Err(e)) => format!("Err({})", err_class(&e)),
                        Err(p) => format!("Panic({})", p.site()),
                    });
                });
                let s = rx.recv_timeout(Duration::from_secs(10)).unwrap_or_else(|_| "Hung".into());
                if a == "Hung" || s == "Hung" {
                    rep.inconclusive(format!("constructors: {} with a {} stream: async {} sync {}", url, kind, a, s));
                } else if a != s {
                    rep.violation(format!("C14:constructors:differ:{}", if a == "Ok" { "sync-fails-where-async-connects" } else if s == "Ok" { "sync-connects-where-async-fails" } else { "error-class" }), format!("with_settings({:?}) with a pre-opened {} stream: LdapConnAsync -> {}, LdapConn -> {}", url, kind, a, s), json!({"lane":"constructors","url":url,"stream":kind}));
                } else {
                    rep.count(&format!("constructors_agree_{}", a.split('(').next().unwrap_or("?")), 1);
                }
                rep.case(Some(fnv(format!("{}{}", url, kind).as_bytes())));
            }
        }
    }
    rt.shutdown_background();
    rep.sample(json!({"lane":"constructors","urls":urls,"streams":["pre-opened TCP","pre-opened Unix","none"]}));
    rep
}
