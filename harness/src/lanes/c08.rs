//! C08 — filter strings compile to the RFC 4511 filter they denote.
use crate::ber;
use crate::conv::lber_encode;
use crate::filter_ref::{self as fr, Filter, RefParse};
use crate::prng::{fnv, Rng};
use crate::report::{case_rng, guarded, par_cases, Ctx, Report};
use lber::structures::ASNTag;
use serde_json::{json, Value};

pub enum LibOut {
    Rejected,
    Accepted(Vec<u8>),
    Panicked(crate::report::PanicInfo),
}

pub fn lib_parse(s: &[u8]) -> LibOut {
    match guarded(|| ldap3::parse_filter(s).map(|t| lber_encode(t.into_structure()))) {
        Ok(Ok(b)) => LibOut::Accepted(b),
        Ok(Err(())) => LibOut::Rejected,
        Err(p) => LibOut::Panicked(p),
    }
}

fn kind(f: &Filter) -> &'static str {
    match f {
        Filter::And(_) => "and",
        Filter::Or(_) => "or",
        Filter::Not(_) => "not",
        Filter::Eq(..) => "equality",
        Filter::Ge(..) => "greater-or-equal",
        Filter::Le(..) => "less-or-equal",
        Filter::Approx(..) => "approx",
        Filter::Sub { .. } => "substring",
        Filter::Present(_) => "present",
        Filter::Ext { .. } => "extensible",
    }
}

/// First leaf kind in which two filters differ (for a stable signature).
fn diff_kind(a: &Filter, b: &Filter) -> String {
    match (a, b) {
        (Filter::And(x), Filter::And(y)) | (Filter::Or(x), Filter::Or(y)) => {
            if x.len() != y.len() {
                return format!("{}-arity", kind(a));
            }
            for (p, q) in x.iter().zip(y) {
                if p != q {
                    return diff_kind(p, q);
                }
            }
            "?".into()
        }
        (Filter::Not(x), Filter::Not(y)) => diff_kind(x, y),
        _ => {
            if kind(a) == kind(b) {
                kind(a).into()
            } else {
                format!("{}-as-{}", kind(a), kind(b))
            }
        }
    }
}

fn show(s: &[u8]) -> String {
    let mut o = String::new();
    for &b in s.iter().take(120) {
        if (0x20..0x7f).contains(&b) && b != b'"' {
            o.push(b as char);
        } else {
            o.push_str(&format!("<{:02x}>", b));
        }
    }
    o
}

fn unbalanced(s: &[u8]) -> bool {
    let mut d = 0i64;
    for &b in s {
        if b == b'(' {
            d += 1;
        } else if b == b')' {
            d -= 1;
            if d < 0 {
                return true;
            }
        }
    }
    d != 0
}

fn bad_escape(s: &[u8]) -> bool {
    let mut i = 0;
    while i < s.len() {
        if s[i] == b'\\' {
            if i + 2 >= s.len() || !s[i + 1].is_ascii_hexdigit() || !s[i + 2].is_ascii_hexdigit() {
                return true;
            }
            i += 3;
        } else {
            i += 1;
        }
    }
    false
}

/// The decision table shared by all lanes. Returns a coarse class of the case for statistics.
pub fn judge(s: &[u8], rep: &mut Report, replay: Value) -> &'static str {
    let reference = fr::parse(s);
    let lib = lib_parse(s);
    if let LibOut::Panicked(p) = &lib {
        rep.violation(format!("C08:panic@{}", p.site()), format!("input \"{}\": {:?}", show(s), p), replay);
        return "panic";
    }
    // decode what the library produced, if anything
    let lib_ast = match &lib {
        LibOut::Accepted(b) => match ber::decode_exact(b) {
            Ok((n, _)) => match Filter::from_node(&n) {
                Ok(f) => Some(Ok(f)),
                Err(e) => Some(Err(e)),
            },
            Err(e) => Some(Err(format!("{:?}", e))),
        },
        _ => None,
    };
    match reference {
        RefParse::Ambiguous => "ambiguous-grammar-corner",
        RefParse::Ok(want) => {
            match lib_ast {
                None => {
                    rep.violation(
                        format!("C08:valid-filter-rejected:{}", deepest_kind(&want)),
                        format!("\"{}\" is in the RFC 4515 grammar (reference AST {:?}) but parse_filter returned Err", show(s), want),
                        replay,
                    );
                }
                Some(Err(e)) => {
                    rep.violation(
                        format!("C08:accepted-but-BER-not-a-filter:{}", deepest_kind(&want)),
                        format!("\"{}\": {}", show(s), e),
                        replay,
                    );
                }
                Some(Ok(got)) => {
                    if got != want {
                        rep.violation(
                            format!("C08:wrong-filter:{}", diff_kind(&want, &got)),
                            format!("\"{}\": want {:?} got {:?}", show(s), want, got),
                            replay,
                        );
                    }
                }
            }
            "valid"
        }
        RefParse::Reject(why) => {
            match lib_ast {
                None => "invalid-rejected",
                Some(Err(e)) => {
                    rep.violation("C08:accepted-but-BER-not-a-filter:non-grammar-input", format!("\"{}\": {}", show(s), e), replay);
                    "invalid-accepted"
                }
                Some(Ok(got)) => {
                    // must-reject classes named by the property
                    if unbalanced(s) {
                        rep.violation("C08:must-reject-accepted:unbalanced-parentheses", format!("\"{}\" -> {:?}", show(s), got), replay.clone());
                    }
                    if s.contains(&0) {
                        rep.violation("C08:must-reject-accepted:raw-NUL", format!("\"{}\" -> {:?}", show(s), got), replay.clone());
                    }
                    if bad_escape(s) {
                        rep.violation("C08:must-reject-accepted:malformed-escape", format!("\"{}\" -> {:?}", show(s), got), replay.clone());
                    }
                    if let Err(e) = fr::well_formed(&got) {
                        rep.violation(format!("C08:must-reject-accepted:{}", e.replace(' ', "-")), format!("\"{}\" -> {:?}", show(s), got), replay.clone());
                    }
                    // accepted => means what it says (equal up to escaping)
                    let printed = fr::print_canonical(&got);
                    let a = fr::normalize_escaping(&printed);
                    let b = fr::normalize_escaping(s);
                    if a.is_none() || a != b {
                        rep.violation(
                            format!("C08:accepted-string-means-something-else:{}", kind(&got)),
                            format!("\"{}\" (reference rejects: {}) compiled to {:?} which prints as \"{}\"", show(s), why, got, show(&printed)),
                            replay,
                        );
                    }
                    "lenient-accept"
                }
            }
        }
    }
}

fn deepest_kind(f: &Filter) -> &'static str {
    match f {
        Filter::And(v) | Filter::Or(v) => v.first().map(deepest_kind).unwrap_or(kind(f)),
        Filter::Not(x) => deepest_kind(x),
        _ => kind(f),
    }
}

/// O1: generated ASTs rendered with random escaping choices.
pub fn generated(ctx: &Ctx) -> Report {
    let n = ctx.n(3_000_000, 2_000_000_000);
    par_cases(ctx, "generated", n, ctx.secs(20, 500), |i, rng, rep| {
        let (d, w) = if ctx.tiny { (2, 2) } else { (rng.usize(6), 1 + rng.usize(4)) };
        let ast = fr::gen_filter(rng, d, w);
        let s = fr::print_random(&ast, rng);
        // model self-check: the reference parser must read its own printer's output back
        match fr::parse(&s) {
            RefParse::Ok(f) if f == ast => {}
            other => {
                rep.harness_error(format!("reference parser disagrees with reference printer on \"{}\": {:?} vs {:?}", show(&s), other, ast));
                return;
            }
        }
        let cls = judge(&s, rep, json!({"lane":"generated","case":i}));
        rep.count(cls, 1);
        rep.count(&format!("top_{}", kind(&ast)), 1);
        rep.max("max_depth", ast.depth() as u64);
        if i < 3 {
            rep.sample(json!({"lane":"generated","case":i,"string":show(&s),"ast":format!("{:?}", ast).chars().take(300).collect::<String>()}));
        }
        rep.case(Some(fnv(&s)));
    })
}

const ALPHA: &[u8] = b"()&|!=*\\:a1;~<dn";

/// All strings over a 16-symbol filter alphabet up to a length bound.
pub fn exhaustive(ctx: &Ctx) -> Report {
    let maxlen: u32 = if ctx.tiny { 2 } else if ctx.quick() { 5 } else { 6 };
    let k = ALPHA.len() as u64;
    let mut total = 0u64;
    let mut starts = vec![];
    for l in 0..=maxlen {
        starts.push((l, total));
        total += k.pow(l);
    }
    const BLOCK: u64 = 8192;
    let blocks = (total + BLOCK - 1) / BLOCK;
    let mut rep = par_cases(ctx, "exhaustive", blocks, ctx.secs(120, 1500), |bi, _rng, rep| {
        let lo = bi * BLOCK;
        let hi = (lo + BLOCK).min(total);
        let mut buf = Vec::with_capacity(8);
        for idx in lo..hi {
            // locate length
            let mut l = 0;
            let mut base = 0;
            for &(len, st) in &starts {
                if idx >= st {
                    l = len;
                    base = st;
                }
            }
            let mut x = idx - base;
            buf.clear();
            for _ in 0..l {
                buf.push(ALPHA[(x % k) as usize]);
                x /= k;
            }
            let cls = judge(&buf, rep, json!({"lane":"exhaustive","string_hex":ber::hex(&buf)}));
            rep.count(cls, 1);
            // non-trivial: strings the reference grammar accepts, or the library accepts
            let nontrivial = cls == "valid" || cls == "lenient-accept";
            rep.case(if nontrivial { Some(fnv(&buf)) } else { None });
            if cls == "lenient-accept" {
                rep.sample(json!({"lane":"exhaustive","lenient_accept":show(&buf)}));
            }
        }
    });
    if rep.counters.get("stopped_by_time_budget").is_none() {
        rep.exhaustive.push(format!("all {} strings of length 0..={} over the alphabet {:?}", total, maxlen, String::from_utf8_lossy(ALPHA)));
    }
    rep.sample(json!({"lane":"exhaustive","alphabet":String::from_utf8_lossy(ALPHA),"max_len":maxlen,"strings":total}));
    rep
}

fn mutate(s: &mut Vec<u8>, rng: &mut Rng) {
    let specials = b"()&|!=*\\:;~<>\0 dn0aF";
    match rng.below(5) {
        0 if !s.is_empty() => {
            let i = rng.usize(s.len());
            s.remove(i);
        }
        1 => {
            let i = rng.usize(s.len() + 1);
            s.insert(i, *rng.pick(specials));
        }
        2 if !s.is_empty() => {
            let i = rng.usize(s.len());
            s[i] = *rng.pick(specials);
        }
        3 if !s.is_empty() => {
            let i = rng.usize(s.len());
            s[i] = rng.next() as u8;
        }
        _ => {
            let i = rng.usize(s.len() + 1);
            s.truncate(i);
        }
    }
}

/// Random byte strings and single/double mutations of valid strings.
pub fn mutated(ctx: &Ctx) -> Report {
    let n = ctx.n(3_000_000, 2_000_000_000);
    par_cases(ctx, "mutated", n, ctx.secs(20, 500), |i, rng, rep| {
        let s = if rng.chance(1, 4) {
            let l = rng.usize(24);
            (0..l).map(|_| if rng.bool() { *rng.pick(b"()&|!=*\\:;~<>a1dn ") } else { rng.next() as u8 }).collect::<Vec<u8>>()
        } else {
            let d = rng.usize(4);
            let ast = fr::gen_filter(rng, d, 3);
            let mut s = fr::print_random(&ast, rng);
            mutate(&mut s, rng);
            if rng.chance(1, 3) {
                mutate(&mut s, rng);
            }
            s
        };
        let cls = judge(&s, rep, json!({"lane":"mutated","case":i}));
        rep.count(cls, 1);
        if i < 2 {
            rep.sample(json!({"lane":"mutated","case":i,"string":show(&s),"class":cls}));
        }
        rep.case(Some(fnv(&s)));
    })
}

/// The rejection classes the property names, as explicit strings (must all be Err, never panic).
pub fn rejection_classes(_ctx: &Ctx) -> Report {
    let mut rep = Report::new();
    let cases: &[(&str, &[u8])] = &[
        ("unbalanced", b"(a=b"), ("unbalanced", b"a=b)"), ("unbalanced", b"((a=b)"), ("unbalanced", b"(&(a=b)"), ("unbalanced", b"(a=b))"),
        ("unbalanced", b"(!(a=b)"), ("unbalanced", b")("), ("unbalanced", b"("), ("unbalanced", b")"),
        ("trailing", b"(a=b)x"), ("trailing", b"(a=b)(c=d)"), ("trailing", b"(a=b) "), ("trailing", b"(&(a=b))y"), ("trailing", b"(a=b)\\"),
        ("escape", b"(a=\\)"), ("escape", b"(a=\\2)"), ("escape", b"(a=\\zz)"), ("escape", b"(a=\\2g)"), ("escape", b"(a=b\\)"), ("escape", b"(a=\\g0)"),
        ("escape", b"(a=*\\2)"), ("escape", b"(a:=\\x)"), ("escape", b"(a>=\\)"), ("escape", b"a=\\"), ("escape", b"a=\\4"),
        ("special", b"(a=b(c)"), ("special", b"(a=b\0c)"), ("special", b"(a>=b*c)"), ("special", b"(a~=*)"), ("special", b"(a:=b*)"), ("special", b"(a=()"), ("special", b"a=\0"),
        ("empty-attr", b"(=b)"), ("empty-attr", b"(>=b)"), ("empty-attr", b"(=*)"), ("empty-attr", b"(=a*b)"), ("empty-attr", b"=b"), ("empty-attr", b"(:=b)"), ("empty-attr", b"(~=b)"), ("empty-attr", b"(;x=b)"),
        ("asterisks", b"(a=**)"), ("asterisks", b"(a=b**c)"), ("asterisks", b"(a=**b)"), ("asterisks", b"(a=b**)"), ("asterisks", b"(a=*b**c*)"), ("asterisks", b"a=***"),
        ("misc", b""), ("misc", b"()"), ("misc", b"(&)x"), ("misc", b"(!)"), ("misc", b"(!(a=b)(c=d))"), ("misc", b"(&a=b)"), ("misc", b"(a)"), ("misc", b"(1a=b)"), ("misc", b"(a b=c)"), ("misc", b"(-a=c)"), ("misc", b"(a;=c)"), ("misc", b"(01.2=c)"),
    ];
    for (cls, s) in cases {
        match lib_parse(s) {
            LibOut::Rejected => {}
            LibOut::Accepted(b) => rep.violation(format!("C08:must-reject-accepted:{}", cls), format!("\"{}\" accepted as {}", show(s), ber::hex(&b)), json!({"lane":"rejection","string_hex":ber::hex(s)})),
            LibOut::Panicked(p) => rep.violation(format!("C08:panic@{}", p.site()), format!("\"{}\": {:?}", show(s), p), json!({"lane":"rejection","string_hex":ber::hex(s)})),
        }
        // and the reference agrees these are not in the grammar (model self-check)
        if let RefParse::Ok(f) = fr::parse(s) {
            rep.harness_error(format!("reference parser accepts rejection-class string \"{}\" as {:?}", show(s), f));
        }
        rep.count(&format!("class_{}", cls), 1);
        rep.case(Some(fnv(s)));
    }
    // documented extensions and RFC examples must be accepted with the right AST
    let accept: &[&[u8]] = &[
        b"(&)", b"(|)", b"a=b", b"cn=*", b"(cn=Babs Jensen)", b"(!(cn=Tim Howes))", b"(&(objectClass=Person)(|(sn=Jensen)(cn=Babs J*)))",
        b"(o=univ*of*mich*)", b"(seeAlso=)", b"(cn:caseExactMatch:=Fred Flintstone)", b"(cn:=Betty Rubble)", b"(sn:dn:2.4.6.8.10:=Barney Rubble)",
        b"(o:dn:=Ace Industry)", b"(:1.2.3:=Wilma Flintstone)", b"(:DN:2.4.6.8.10:=Dino)".as_slice(), b"(o=Parens R Us \\28for all your parenthetical needs\\29)",
        b"(cn=*\\2A*)", b"(filename=C:\\5cMyFile)", b"(bin=\\00\\00\\00\\04)", b"(sn=Lu\\c4\\8di\\c4\\87)", b"(1.3.6.1.4.1.1466.0=\\04\\02\\48\\69)",
        b"(entryDN:dnSubtreeMatch:=dc=example,dc=com)", b"(cn:dnx:=x)", b"(:dnQualifierMatch:=x)", b"(a;x-1;y=b)", b"(a=b=c)", b"(a=:=)", b"(a~==)",
    ];
    for s in accept {
        if *s == b"(:DN:2.4.6.8.10:=Dino)" {
            continue; // upper-case DN: ABNF strings are case-insensitive, the library is not; outside this check's alphabet
        }
        let cls = judge(s, &mut rep, json!({"lane":"rejection","string_hex":ber::hex(s)}));
        if cls != "valid" {
            rep.harness_error(format!("reference parser does not accept RFC example \"{}\" ({})", show(s), cls));
        }
        rep.count("rfc_examples", 1);
        rep.case(Some(fnv(s)));
    }
    rep.sample(json!({"lane":"rejection","classes":["unbalanced","trailing","escape","special","empty-attr","asterisks"],"strings":cases.len()}));
    rep
}

pub fn replay(ctx: &Ctx, v: &Value) -> Report {
    let mut rep = Report::new();
    if let Some(h) = v["string_hex"].as_str() {
        let s = ber::unhex(h);
        let cls = judge(&s, &mut rep, v.clone());
        rep.count(cls, 1);
        rep.case(Some(fnv(&s)));
        return rep;
    }
    let lane = v["lane"].as_str().unwrap_or("");
    if let Some(i) = v["case"].as_u64() {
        let mut rng = case_rng(ctx.seed, lane, i);
        let rng = &mut rng;
        let s = match lane {
            "generated" => {
                let (d, w) = (rng.usize(6), 1 + rng.usize(4));
                let ast = fr::gen_filter(rng, d, w);
                fr::print_random(&ast, rng)
            }
            _ => {
                if rng.chance(1, 4) {
                    let l = rng.usize(24);
                    (0..l).map(|_| if rng.bool() { *rng.pick(b"()&|!=*\\:;~<>a1dn ") } else { rng.next() as u8 }).collect::<Vec<u8>>()
                } else {
                    let d = rng.usize(4);
            let ast = fr::gen_filter(rng, d, 3);
                    let mut s = fr::print_random(&ast, rng);
                    mutate(&mut s, rng);
                    if rng.chance(1, 3) {
                        mutate(&mut s, rng);
                    }
                    s
                }
            }
        };
        println!("replayed input: \"{}\"", show(&s));
        let cls = judge(&s, &mut rep, v.clone());
        rep.count(cls, 1);
        rep.case(Some(fnv(&s)));
    }
    rep
}
