//! C19 — control and extended-operation values round-trip through their codecs.
use crate::ber::{self, Enc, Node, CTX, UNIV};
use crate::filter_ref::{self as fr, Filter};
use crate::gen;
use crate::lanes::c15;
use crate::msg::{resp_node, Req, Res, Resp};
use crate::prng::{fnv, Rng};
use crate::report::{case_rng, guarded, par_cases, Ctx, Report};
use crate::world::ctls_out;
use bytes::BytesMut;
use ldap3::controls::{
    Assertion, ManageDsaIt, MakeCritical, MatchedValues, PagedResults, PostRead, PostReadResp, PreRead, ProxyAuth, RawControl, RefreshMode, RelaxRules, SyncDone, SyncInfo, SyncRequest, SyncState, TxnSpec,
};
use ldap3::exop::{EndTxn, Exop, PasswordModify, PasswordModifyResp, StartTxn, StartTxnResp, WhoAmI, WhoAmIResp};
use ldap3::ResultEntry;
use serde_json::{json, Value};

fn dec(val: &Option<Vec<u8>>) -> Result<Node, String> {
    match val {
        None => Err("control/exop value absent".into()),
        Some(v) => {
            let (n, st) = ber::decode_exact(v).map_err(|e| format!("value is not one well-formed TLV: {:?} ({})", e, ber::hex(&v[..v.len().min(40)])))?;
            if !st.all_minimal {
                return Err("value uses non-minimal length octets".into());
            }
            Ok(n)
        }
    }
}

fn int_of(n: &Node, tag: u8) -> Result<i64, String> {
    let d = n.prim(UNIV, tag)?;
    let v = ber::int_value(d).ok_or("bad integer")?;
    if ber::int_content(v) != d {
        return Err(format!("integer {} not in shortest form: {}", v, ber::hex(d)));
    }
    Ok(v)
}

fn viol(rep: &mut Report, what: &str, aspect: &str, detail: String, replay: &Value) {
    rep.violation(format!("C19:{}:{}", what, aspect), detail, replay.clone());
}

fn check_req_control(rep: &mut Report, what: &str, rc: &RawControl, oid: &str, crit: bool, replay: &Value) -> bool {
    let mut ok = true;
    if rc.ctype != oid {
        viol(rep, what, "oid", format!("{} expected {}", rc.ctype, oid), replay);
        ok = false;
    }
    if rc.crit != crit {
        viol(rep, what, "criticality", format!("{} expected {}", rc.crit, crit), replay);
        ok = false;
    }
    ok
}

fn cookie(rng: &mut Rng) -> Vec<u8> {
    match rng.below(6) {
        0 => vec![],
        1 => vec![0],
        2 => ber::encode_min(&ber::seq(vec![ber::integer(5), ber::octets(b"x")])),
        3 => rng.bytes(300),
        _ => {
            let l = 1 + rng.usize(24);
            rng.bytes(l)
        }
    }
}

fn gen_i32(rng: &mut Rng) -> i32 {
    match rng.below(6) {
        0 => 0,
        1 => *rng.pick(&[1, 127, 128, 255, 256, 32767, 32768, 65535, 65536, i32::MAX]),
        2 => rng.below(1000) as i32,
        _ => rng.below(i32::MAX as u64) as i32,
    }
}

// ---------------- request side ----------------

fn run_request_case(i: u64, rng: &mut Rng, rep: &mut Report) {
    let replay = json!({"lane":"requests","case":i});
    let k = rng.below(14);
    let r = guarded(|| -> Result<&'static str, (String, String)> {
        let e = |a: &str, d: String| (a.to_string(), d);
        match k {
            0 => {
                let (size, ck) = (gen_i32(rng), cookie(rng));
                let crit = rng.bool();
                let rc: RawControl = if crit { PagedResults { size, cookie: ck.clone() }.critical().into() } else { PagedResults { size, cookie: ck.clone() }.into() };
                if rc.ctype != "1.2.840.113556.1.4.319" || rc.crit != crit {
                    return Err(e("oid-or-criticality", format!("{:?}", rc)));
                }
                let n = dec(&rc.val).map_err(|x| e("value", x))?;
                let kk = n.cons(UNIV, 16).map_err(|x| e("value", x))?;
                if kk.len() != 2 || int_of(&kk[0], 2).map_err(|x| e("value", x))? != size as i64 || kk[1].prim(UNIV, 4).map_err(|x| e("value", x))? != &ck[..] {
                    return Err(e("value", format!("size {} cookie {} -> {:?}", size, ber::hex(&ck), n)));
                }
                Ok("PagedResults")
            }
            1 => {
                let mode_p = rng.bool();
                let ck = if rng.bool() { Some(cookie(rng)) } else { None };
                let hint = rng.bool();
                let rc: RawControl = SyncRequest { mode: if mode_p { RefreshMode::RefreshAndPersist } else { RefreshMode::RefreshOnly }, cookie: ck.clone(), reload_hint: hint }.into();
                if rc.ctype != "1.3.6.1.4.1.4203.1.9.1.1" || rc.crit {
                    return Err(e("oid-or-criticality", format!("{:?}", rc)));
                }
                let n = dec(&rc.val).map_err(|x| e("value", x))?;
                let kk = n.cons(UNIV, 16).map_err(|x| e("value", x))?;
                let mut want = vec![ber::enumerated(if mode_p { 3 } else { 1 })];
                if let Some(c) = &ck {
                    want.push(ber::octets(c));
                }
                if hint {
                    want.push(ber::boolean(true));
                }
                if kk != &want[..] {
                    return Err(e(if ck.as_ref().map(|c| c.is_empty()).unwrap_or(false) { "value:empty-cookie" } else { "value" }, format!("mode_persist {} cookie {:?} hint {} -> {:?}", mode_p, ck.as_ref().map(|c| ber::hex(c)), hint, kk)));
                }
                Ok("SyncRequest")
            }
            2 | 3 => {
                let attrs: Vec<String> = (0..rng.usize(6)).map(|_| String::from_utf8(fr::gen_attrdesc(rng)).unwrap()).collect();
                let crit = rng.bool();
                let (rc, oid): (RawControl, &str) = if k == 2 { (PreRead::new(attrs.clone()), "1.3.6.1.1.13.1") } else { (PostRead::new(attrs.clone()), "1.3.6.1.1.13.2") };
                let _ = crit;
                if rc.ctype != oid || rc.crit {
                    return Err(e("oid-or-criticality", format!("{:?}", rc)));
                }
                let n = dec(&rc.val).map_err(|x| e("value", x))?;
                let want = ber::seq(attrs.iter().map(|a| ber::octets(a.as_bytes())).collect());
                if n != want {
                    return Err(e("value", format!("{:?} -> {:?}", attrs, n)));
                }
                Ok(if k == 2 { "PreRead" } else { "PostRead" })
            }
            4 => {
                let d = rng.usize(4);
                let f = fr::gen_filter(rng, d, 3);
                let s = fr::print_random_ascii(&f, rng);
                let rc: RawControl = Assertion::new(s.as_str());
                if rc.ctype != "1.3.6.1.1.12" || rc.crit {
                    return Err(e("oid-or-criticality", format!("{:?}", rc)));
                }
                let n = dec(&rc.val).map_err(|x| e("value", x))?;
                let got = Filter::from_node(&n).map_err(|x| e("value", x))?;
                if got != f {
                    return Err(e("value", format!("filter {:?} -> {:?}", s, got)));
                }
                Ok("Assertion")
            }
            5 => {
                let items: Vec<Filter> = (0..1 + rng.usize(4)).map(|_| loop {
                    let it = fr::gen_item(rng);
                    if let Filter::Ext { dn: true, .. } = it { continue; }
                    break it;
                }).collect();
                let mut s = String::from("(");
                for it in &items {
                    let one = fr::print_random_ascii(it, rng);
                    if one.starts_with('(') { s.push_str(&one); } else { s.push('('); s.push_str(&one); s.push(')'); }
                }
                s.push(')');
                let rc: RawControl = MatchedValues::new(s.as_str());
                if rc.ctype != "1.2.826.0.1.3344810.2.3" || rc.crit {
                    return Err(e("oid-or-criticality", format!("{:?}", rc)));
                }
                let n = dec(&rc.val).map_err(|x| e("value", x))?;
                let kk = n.cons(UNIV, 16).map_err(|x| e("value", x))?;
                let got: Result<Vec<Filter>, String> = kk.iter().map(Filter::from_node).collect();
                if got.as_ref().ok() != Some(&items) {
                    return Err(e("value", format!("{:?} -> {:?}", s, got)));
                }
                Ok("MatchedValues")
            }
            6 => {
                let id = rng.ustring(16);
                let rc: RawControl = ProxyAuth { authzid: id.clone() }.into();
                if rc.ctype != "2.16.840.1.113730.3.4.18" || !rc.crit {
                    return Err(e("oid-or-criticality", format!("{:?}", rc)));
                }
                if rc.val.as_deref() != Some(id.as_bytes()) {
                    return Err(e("value", format!("{:?} -> {:?}", id, rc.val)));
                }
                Ok("ProxyAuth")
            }
            7 => {
                let id = rng.ustring(12);
                let rc: RawControl = TxnSpec { txn_id: &id }.into();
                if rc.ctype != "1.3.6.1.1.21.2" || !rc.crit {
                    return Err(e("oid-or-criticality", format!("{:?}", rc)));
                }
                if rc.val.as_deref() != Some(id.as_bytes()) {
                    return Err(e("value", format!("{:?} -> {:?}", id, rc.val)));
                }
                Ok("TxnSpec")
            }
            8 => {
                let crit = rng.bool();
                let rc: RawControl = if crit { ManageDsaIt.critical().into() } else { ManageDsaIt.into() };
                if rc.ctype != "2.16.840.1.113730.3.4.2" || rc.crit != crit || rc.val.is_some() {
                    return Err(e("oid-criticality-or-value", format!("{:?}", rc)));
                }
                Ok("ManageDsaIT")
            }
            9 => {
                let crit = rng.bool();
                let rc: RawControl = if crit { RelaxRules.critical().into() } else { RelaxRules.into() };
                if rc.ctype != "1.3.6.1.4.1.4203.666.5.12" || rc.crit != crit || rc.val.is_some() {
                    return Err(e("oid-criticality-or-value", format!("{:?}", rc)));
                }
                Ok("RelaxRules")
            }
            10 => {
                let x: Exop = WhoAmI.into();
                if x.name.as_deref() != Some("1.3.6.1.4.1.4203.1.11.3") || x.val.is_some() {
                    return Err(e("oid-or-value", format!("{:?}", x)));
                }
                Ok("WhoAmI")
            }
            11 => {
                let (u, o, nw) = (if rng.bool() { Some(rng.ustring(10)) } else { None }, if rng.bool() { Some(rng.ustring(10)) } else { None }, if rng.bool() { Some(rng.ustring(10)) } else { None });
                let x: Exop = PasswordModify { user_id: u.as_deref(), old_pass: o.as_deref(), new_pass: nw.as_deref() }.into();
                if x.name.as_deref() != Some("1.3.6.1.4.1.4203.1.11.1") {
                    return Err(e("oid", format!("{:?}", x.name)));
                }
                let mut want = vec![];
                if let Some(u) = &u { want.push(ber::ctx_prim(0, u.as_bytes())); }
                if let Some(o) = &o { want.push(ber::ctx_prim(1, o.as_bytes())); }
                if let Some(n) = &nw { want.push(ber::ctx_prim(2, n.as_bytes())); }
                if want.is_empty() && x.val.is_none() {
                    return Ok("PasswordModify");
                }
                let n = dec(&x.val).map_err(|v| e("value", v))?;
                if n != ber::seq(want) {
                    return Err(e("value", format!("({:?},{:?},{:?}) -> {:?}", u, o, nw, n)));
                }
                Ok("PasswordModify")
            }
            12 => {
                let x: Exop = StartTxn.into();
                if x.name.as_deref() != Some("1.3.6.1.1.21.1") || x.val.is_some() {
                    return Err(e("oid-or-value", format!("{:?}", x)));
                }
                Ok("StartTxn")
            }
            _ => {
                let id = rng.ustring(10);
                let commit = rng.bool();
                let x: Exop = EndTxn { txn_id: &id, commit }.into();
                if x.name.as_deref() != Some("1.3.6.1.1.21.3") {
                    return Err(e("oid", format!("{:?}", x.name)));
                }
                let n = dec(&x.val).map_err(|v| e("value", v))?;
                let mut want = vec![];
                if !commit { want.push(ber::boolean(false)); }
                want.push(ber::octets(id.as_bytes()));
                if n != ber::seq(want) {
                    return Err(e("value", format!("({:?},{}) -> {:?}", id, commit, n)));
                }
                Ok("EndTxn")
            }
        }
    });
    const NAMES: [&str; 14] = ["PagedResults", "SyncRequest", "PreRead", "PostRead", "Assertion", "MatchedValues", "ProxyAuth", "TxnSpec", "ManageDsaIT", "RelaxRules", "WhoAmI", "PasswordModify", "StartTxn", "EndTxn"];
    let name = NAMES[k as usize];
    match r {
        Ok(Ok(n)) => rep.count(&format!("req_{}", n), 1),
        Ok(Err((aspect, detail))) => viol(rep, &format!("request:{}", name), &aspect, detail, &replay),
        Err(p) => viol(rep, &format!("request:{}", name), &format!("panic@{}", p.site()), format!("{:?}", p), &replay),
    }
    let _ = check_req_control;
    rep.case(Some(fnv(format!("{}{}", k, rng.next()).as_bytes())));
}

pub fn requests(ctx: &Ctx) -> Report {
    let n = ctx.n(1_500_000, 1_000_000_000);
    let mut r = par_cases(ctx, "requests", n, ctx.secs(20, 400), |i, rng, rep| run_request_case(i, rng, rep));
    r.sample(json!({"lane":"requests","structs":["PagedResults","SyncRequest","PreRead","PostRead","Assertion","MatchedValues","ProxyAuth","TxnSpec","ManageDsaIT","RelaxRules","WhoAmI","PasswordModify","StartTxn","EndTxn"]}));
    r
}

// ---------------- response side ----------------

fn enc(rng: &mut Rng, n: &Node) -> Vec<u8> {
    if rng.bool() {
        ber::encode_min(n)
    } else {
        let mut er = rng.fork();
        Enc::random(&mut er).to_vec(n)
    }
}

fn bool_node(v: bool, rng: &mut Rng) -> Node {
    Node::P { class: UNIV, tag: 1, data: vec![if v { if rng.bool() { 0xff } else { 1 + rng.below(254) as u8 } } else { 0 }] }
}

fn run_response_case(i: u64, rng: &mut Rng, rep: &mut Report) {
    let replay = json!({"lane":"responses","case":i});
    let k = rng.below(9);
    const NAMES: [&str; 9] = ["PagedResults", "SyncState", "SyncDone", "SyncInfo", "PreReadResp", "PostReadResp", "WhoAmIResp", "PasswordModifyResp", "StartTxnResp"];
    let name = NAMES[k as usize];
    let mut bytes_fp = 0u64;
    let r = guarded(|| -> Result<(), (String, String)> {
        let e = |a: &str, d: String| (a.to_string(), d);
        match k {
            0 => {
                let (size, ck) = (gen_i32(rng), cookie(rng));
                let v = enc(rng, &ber::seq(vec![ber::integer(size as i64), ber::octets(&ck)]));
                bytes_fp = fnv(&v);
                let p: PagedResults = RawControl { ctype: "1.2.840.113556.1.4.319".into(), crit: false, val: Some(v.clone()) }.parse();
                if p.size != size || p.cookie != ck {
                    return Err(e("fields", format!("encoded ({}, {}) parsed ({}, {}) from {}", size, ber::hex(&ck), p.size, ber::hex(&p.cookie), ber::hex(&v[..v.len().min(40)]))));
                }
            }
            1 => {
                let st = rng.below(4) as i64;
                let uuid = rng.bytes(16);
                let ck = if rng.bool() { Some(cookie(rng)) } else { None };
                let mut kk = vec![ber::enumerated(st), ber::octets(&uuid)];
                if let Some(c) = &ck { kk.push(ber::octets(c)); }
                let v = enc(rng, &ber::seq(kk));
                bytes_fp = fnv(&v);
                let p: SyncState = RawControl { ctype: "1.3.6.1.4.1.4203.1.9.1.2".into(), crit: false, val: Some(v) }.parse();
                let got_state = match p.state { ldap3::controls::EntryState::Present => 0, ldap3::controls::EntryState::Add => 1, ldap3::controls::EntryState::Modify => 2, ldap3::controls::EntryState::Delete => 3 };
                if got_state != st || p.entry_uuid != uuid || p.cookie != ck {
                    return Err(e("fields", format!("encoded ({}, {}, {:?}) parsed ({}, {}, {:?})", st, ber::hex(&uuid), ck.as_ref().map(|c| ber::hex(c)), got_state, ber::hex(&p.entry_uuid), p.cookie.as_ref().map(|c| ber::hex(c)))));
                }
            }
            2 => {
                let ck = if rng.bool() { Some(cookie(rng)) } else { None };
                let rd = rng.bool();
                let mut kk = vec![];
                if let Some(c) = &ck { kk.push(ber::octets(c)); }
                if rd { kk.push(bool_node(true, rng)); }
                let v = enc(rng, &ber::seq(kk));
                bytes_fp = fnv(&v);
                let p: SyncDone = RawControl { ctype: "1.3.6.1.4.1.4203.1.9.1.3".into(), crit: false, val: Some(v) }.parse();
                if p.cookie != ck || p.refresh_deletes != rd {
                    return Err(e("fields", format!("encoded ({:?}, {}) parsed ({:?}, {})", ck.as_ref().map(|c| ber::hex(c)), rd, p.cookie.as_ref().map(|c| ber::hex(c)), p.refresh_deletes)));
                }
            }
            3 => {
                let choice = rng.below(4) as u8;
                let ck = if choice == 0 || rng.bool() { Some(cookie(rng)) } else { None };
                let flag = rng.bool();
                let flag_default = choice != 3; // refreshDone DEFAULT TRUE, refreshDeletes DEFAULT FALSE
                let uuids: Vec<Vec<u8>> = { let mut s = std::collections::BTreeSet::new(); for _ in 0..rng.usize(5) { s.insert(rng.bytes(16)); } s.into_iter().collect() };
                let val_node = match choice {
                    0 => ber::ctx_prim(0, ck.as_ref().unwrap()),
                    _ => {
                        let mut kk = vec![];
                        if let Some(c) = &ck { kk.push(ber::octets(c)); }
                        if flag != flag_default { kk.push(bool_node(flag, rng)); }
                        if choice == 3 { kk.push(ber::set(uuids.iter().map(|u| ber::octets(u)).collect())); }
                        ber::ctx_cons(choice, kk)
                    }
                };
                let v = enc(rng, &val_node);
                bytes_fp = fnv(&v);
                let msg = ber::app_cons(25, vec![ber::ctx_prim(0, b"1.3.6.1.4.1.4203.1.9.1.4"), ber::ctx_prim(1, &v)]);
                let st = crate::conv::to_lber(&msg);
                let info = ldap3::controls::parse_syncinfo(ResultEntry::new(st));
                let ok = match (&info, choice) {
                    (SyncInfo::NewCookie(c), 0) => Some(c) == ck.as_ref(),
                    (SyncInfo::RefreshDelete { cookie, refresh_done }, 1) | (SyncInfo::RefreshPresent { cookie, refresh_done }, 2) => cookie == &ck && *refresh_done == flag,
                    (SyncInfo::SyncIdSet { cookie, refresh_deletes, sync_uuids }, 3) => cookie == &ck && *refresh_deletes == flag && { let mut g: Vec<Vec<u8>> = sync_uuids.iter().cloned().collect(); g.sort(); g == uuids },
                    _ => false,
                };
                if !ok {
                    return Err(e(&format!("choice-{}", choice), format!("encoded choice {} cookie {:?} flag {} uuids {} parsed {:?}", choice, ck.as_ref().map(|c| ber::hex(c)), flag, uuids.len(), info)));
                }
            }
            4 | 5 => {
                let ent = c15::gen_entry(rng, None);
                let v = enc(rng, &c15::entry_node(&ent));
                bytes_fp = fnv(&v);
                let p: PostReadResp = RawControl { ctype: if k == 4 { "1.3.6.1.1.13.1" } else { "1.3.6.1.1.13.2" }.into(), crit: false, val: Some(v) }.parse();
                for (n, vs) in &ent.attrs {
                    let all_text = vs.iter().all(|x| std::str::from_utf8(x).is_ok());
                    if all_text {
                        let want: Vec<String> = vs.iter().map(|x| String::from_utf8(x.clone()).unwrap()).collect();
                        if p.attrs.get(n) != Some(&want) || p.bin_attrs.contains_key(n) {
                            return Err(e("attributes", format!("text attr {:?}", n)));
                        }
                    } else {
                        let mut a = vs.clone();
                        let mut b = p.bin_attrs.get(n).cloned().unwrap_or_default();
                        a.sort();
                        b.sort();
                        if a != b || p.attrs.contains_key(n) {
                            return Err(e("attributes", format!("binary attr {:?}", n)));
                        }
                    }
                }
                if p.attrs.len() + p.bin_attrs.len() != ent.attrs.len() {
                    return Err(e("attributes", "count".into()));
                }
            }
            6 => {
                let id = rng.ustring(20);
                bytes_fp = fnv(id.as_bytes());
                let p: WhoAmIResp = Exop { name: None, val: Some(id.as_bytes().to_vec()) }.parse();
                if p.authzid != id {
                    return Err(e("fields", format!("{:?} vs {:?}", p.authzid, id)));
                }
            }
            7 => {
                let pw = rng.ustring(16);
                let v = enc(rng, &ber::seq(vec![ber::ctx_prim(0, pw.as_bytes())]));
                bytes_fp = fnv(&v);
                let p: PasswordModifyResp = Exop { name: None, val: Some(v) }.parse();
                if p.gen_pass != pw {
                    return Err(e("fields", format!("{:?} vs {:?}", p.gen_pass, pw)));
                }
            }
            _ => {
                let id = rng.ustring(16);
                bytes_fp = fnv(id.as_bytes());
                let p: StartTxnResp = Exop { name: None, val: Some(id.as_bytes().to_vec()) }.parse();
                if p.txn_id != id {
                    return Err(e("fields", format!("{:?} vs {:?}", p.txn_id, id)));
                }
            }
        }
        Ok(())
    });
    match r {
        Ok(Ok(())) => rep.count(&format!("resp_{}", name), 1),
        Ok(Err((aspect, detail))) => viol(rep, &format!("response:{}", name), &aspect, detail, &replay),
        Err(p) => viol(rep, &format!("response:{}", name), &format!("panic@{}", p.site()), format!("{:?}", p), &replay),
    }
    rep.case(Some(bytes_fp ^ k));
}

pub fn responses(ctx: &Ctx) -> Report {
    let n = ctx.n(1_500_000, 1_000_000_000);
    let mut r = par_cases(ctx, "responses", n, ctx.secs(20, 400), |i, rng, rep| run_response_case(i, rng, rep));
    r.sample(json!({"lane":"responses","structs":["PagedResults","SyncState","SyncDone","SyncInfo (4 choices)","PreReadResp","PostReadResp","WhoAmIResp","PasswordModifyResp","StartTxnResp"],"note":"values reference-encoded with minimal or random non-minimal length octets; BOOLEAN TRUE as FF or another non-zero octet"}));
    r
}

/// A control list survives the message envelope unchanged (real decoder, hook H4).
pub fn envelope(ctx: &Ctx) -> Report {
    let n = ctx.n(1_000_000, 500_000_000);
    par_cases(ctx, "envelope", n, ctx.secs(15, 300), |i, rng, rep| {
        let ctrls = loop {
            if let Some(c) = gen::gen_resp_controls(rng) {
                break c;
            }
        };
        let id = 1 + rng.below(1000) as i64;
        let node = resp_node(id, &Resp::Modify(Res::ok("x")), Some(&ctrls));
        let bytes = enc(rng, &node);
        let mut buf = BytesMut::from(&bytes[..]);
        let replay = json!({"lane":"envelope","case":i});
        match guarded(|| ldap3::verif_decode(&mut buf).map(|o| o.map(|(gid, (_, c))| (gid, ctls_out(&c)))).map_err(|e| e.to_string())) {
            Ok(Ok(Some((gid, got)))) => {
                let want = crate::lanes::c03::expect_ctrls(&Some(ctrls.clone()));
                if gid as i64 != id || got != want {
                    let mut aspect = "list";
                    if got.len() == want.len() {
                        for (a, b) in want.iter().zip(&got) {
                            if a.oid != b.oid { aspect = "oid"; break; }
                            if a.crit != b.crit { aspect = "criticality"; break; }
                            if a.val != b.val { aspect = "value"; break; }
                            if a.known != b.known { aspect = "known-type"; break; }
                        }
                    } else {
                        aspect = "count";
                    }
                    viol(rep, "envelope-controls", aspect, format!("want {:?} got {:?}", want, got).chars().take(600).collect(), &replay);
                }
            }
            other => viol(rep, "envelope-controls", "not-decoded", format!("{:?}", other), &replay),
        }
        rep.count("controls_checked", ctrls.len() as u64);
        rep.case(Some(fnv(&bytes)));
    })
}

/// Controls attached to each kind of message a search can deliver (entry, reference, intermediate
/// response, final result) reach the caller with the message they were attached to, through the real
/// connection: OID, criticality, value, and recognition of the library-known types.
pub fn attached_controls(ctx: &Ctx) -> Report {
    use crate::lanes::c03::expect_ctrls;
    use crate::world::{connect, item_out, res_out, runtime};
    let n = ctx.n(10_000, 5_000_000);
    par_cases(ctx, "attached_controls", n, ctx.secs(15, 300), |i, rng, rep| {
        let nitems = 1 + rng.usize(6);
        let mut plan: Vec<(Resp, Option<Vec<crate::msg::RespCtl>>)> = vec![];
        for k in 0..nitems {
            let m = match rng.below(3) {
                0 => Resp::Reference(vec![format!("ldap://ref/{}.{}", i, k)]),
                1 => Resp::Intermediate { name: Some("1.3.6.1.4.1.4203.1.9.1.4".into()), value: Some(vec![0x80, 0x00]) },
                _ => Resp::Entry { dn: format!("e={}.{}", i, k).into_bytes(), attrs: vec![] },
            };
            // always at least one control, so that a dropped list is visible
            let mut cs = gen::gen_resp_controls(rng).unwrap_or_default();
            if cs.is_empty() {
                cs.push(crate::msg::RespCtl { oid: "1.3.6.1.4.1.4203.1.9.1.2".into(), crit: crate::msg::CritEnc::Absent, val: Some(ber::encode_min(&ber::seq(vec![ber::enumerated(1), ber::octets(&[7u8; 16])]))) });
            }
            plan.push((m, Some(cs)));
        }
        let done_ctrls = gen::gen_resp_controls(rng);
        plan.push((Resp::Done(Res::ok("done")), done_ctrls));
        // request side of the envelope: typed request controls, critical or not, with or without a value,
        // as the server's strict decoder reads them
        let mut req_ctrls: Vec<RawControl> = vec![];
        let mut want_req: Vec<crate::msg::Ctl> = vec![];
        for _ in 0..rng.usize(4) {
            let crit = rng.bool();
            match rng.below(4) {
                0 => {
                    req_ctrls.push(if crit { ManageDsaIt.critical().into() } else { ManageDsaIt.into() });
                    want_req.push(crate::msg::Ctl { oid: b"2.16.840.1.113730.3.4.2".to_vec(), crit, val: None });
                }
                1 => {
                    req_ctrls.push(if crit { RelaxRules.critical().into() } else { RelaxRules.into() });
                    want_req.push(crate::msg::Ctl { oid: b"1.3.6.1.4.1.4203.666.5.12".to_vec(), crit, val: None });
                }
                2 => {
                    let val = if rng.bool() { None } else { Some(rng.bytes(rng.clone().usize(5))) };
                    req_ctrls.push(RawControl { ctype: "1.2.3.4.5.6".into(), crit, val: val.clone() });
                    want_req.push(crate::msg::Ctl { oid: b"1.2.3.4.5.6".to_vec(), crit, val });
                }
                _ => {
                    req_ctrls.push(ProxyAuth { authzid: "dn:cn=p".into() }.into());
                    want_req.push(crate::msg::Ctl { oid: b"2.16.840.1.113730.3.4.18".to_vec(), crit: true, val: Some(b"dn:cn=p".to_vec()) });
                }
            }
        }
        let rt = runtime(rng.next());
        let plan2 = plan.clone();
        let mut erng = rng.fork();
        let seen_req: std::sync::Arc<std::sync::Mutex<Option<Option<Vec<crate::msg::Ctl>>>>> = Default::default();
        let seen2 = seen_req.clone();
        let req_ctrls2 = req_ctrls.clone();
        let (items, fin, note) = rt.block_on(async move {
            let c = connect();
            let mut ldap = c.ldap;
            let mut server = c.server;
            let srv = tokio::spawn(async move {
                if let Some(w) = server.request().await {
                    if let Ok(m) = w.msg {
                        *seen2.lock().unwrap() = Some(m.controls.clone());
                        for (r, cs) in &plan2 {
                            let node = resp_node(m.id, r, cs.as_deref());
                            server.send(&Enc::random(&mut erng).to_vec(&node));
                        }
                    }
                }
                server.wait_closed().await;
            });
            let mut items = vec![];
            let mut fin = None;
            let mut note = String::new();
            if !req_ctrls2.is_empty() {
                ldap.with_controls(req_ctrls2);
            }
            match ldap.streaming_search("dc=x", ldap3::Scope::Subtree, "(a=b)", vec!["*"]).await {
                Ok(mut st) => {
                    loop {
                        match crate::world::watchdog(st.next()).await {
                            Ok(Ok(Some(e))) => items.push(item_out(&e)),
                            Ok(Ok(None)) => break,
                            Ok(Err(e)) => {
                                note = format!("next: {}", e);
                                break;
                            }
                            Err(()) => {
                                note = "next: hung".into();
                                break;
                            }
                        }
                    }
                    fin = Some(res_out(&st.finish().await));
                }
                Err(e) => note = format!("start: {}", e),
            }
            drop(ldap);
            srv.abort();
            let _ = c.driver.await;
            (items, fin, note)
        });
        let replay = json!({"lane":"attached_controls","case":i});
        match seen_req.lock().unwrap().clone() {
            Some(got) => {
                let want = if want_req.is_empty() { None } else { Some(want_req.clone()) };
                if got != want {
                    let aspect = match (&got, &want) {
                        (Some(g), Some(w)) if g.len() == w.len() && g.iter().zip(w).all(|(a, b)| a.oid == b.oid && a.val == b.val) => "request-control:criticality",
                        _ => "request-control:fields",
                    };
                    viol(rep, "attached-controls", aspect, format!("the server read {:?}, the caller attached {:?}", got, want).chars().take(600).collect(), &replay);
                }
                rep.count("request_control_lists_checked", 1);
            }
            None => viol(rep, "attached-controls", "request-not-seen", String::new(), &replay),
        }
        if !note.is_empty() {
            viol(rep, "attached-controls", "search-failed", note, &replay);
        }
        for (k, (m, cs)) in plan[..plan.len() - 1].iter().enumerate() {
            let kind = match m {
                Resp::Reference(_) => "SearchResultReference",
                Resp::Intermediate { .. } => "IntermediateResponse",
                _ => "SearchResultEntry",
            };
            match items.get(k) {
                None => viol(rep, "attached-controls", &format!("{}:item-missing", kind), format!("item {}", k), &replay),
                Some(it) => {
                    let want = expect_ctrls(cs);
                    if it.ctrls != want {
                        let aspect = if it.ctrls.is_empty() { "controls-dropped" } else if it.ctrls.len() != want.len() { "control-count" } else { "control-fields" };
                        viol(rep, "attached-controls", &format!("{}:{}", kind, aspect), format!("item {}: want {:?} got {:?}", k, want, it.ctrls).chars().take(600).collect(), &replay);
                    }
                    rep.count(&format!("checked_{}", kind), 1);
                }
            }
        }
        if let Some(f) = fin {
            let want = expect_ctrls(&plan.last().unwrap().1);
            if f.ctrls != want {
                viol(rep, "attached-controls", "SearchResultDone:control-fields", format!("want {:?} got {:?}", want, f.ctrls).chars().take(600).collect(), &replay);
            }
        }
        rep.case(Some(fnv(format!("{:?}", plan).as_bytes())));
    })
}

pub fn replay(ctx: &Ctx, v: &Value) -> Report {
    let mut rep = Report::new();
    let lane = v["lane"].as_str().unwrap_or("requests");
    if let Some(i) = v["case"].as_u64() {
        let mut rng = case_rng(ctx.seed, lane, i);
        match lane {
            "requests" => run_request_case(i, &mut rng, &mut rep),
            "responses" => run_response_case(i, &mut rng, &mut rep),
            _ => {}
        }
    }
    let _ = CTX;
    rep
}

// ---------------- extended operations through a connection ----------------

/// The typed extended requests sent through a connection, answered with every legal shape of an
/// ExtendedResponse (responseName present or absent, with or without a referral in front, random
/// legal length forms): the typed response parsed from what the operation returns equals what the
/// server encoded.
pub fn exops_through_connection(ctx: &Ctx) -> Report {
    use crate::world::{connect, runtime};
    let n = ctx.n(6_000, 3_000_000);
    par_cases(ctx, "exops_through_connection", n, ctx.secs(10, 200), |i, rng, rep| {
        let kind = rng.below(3);
        let with_name = rng.bool();
        let with_refs = rng.chance(1, 4);
        let slen = 1 + rng.usize(24);
        let secret = rng.ustring(slen);
        let rt = runtime(rng.next());
        let sec2 = secret.clone();
        let mut srng = rng.fork();
        let (got, seen_oid) = rt.block_on(async move {
            let c = connect();
            let mut ldap = c.ldap;
            let mut server = c.server;
            let srv = tokio::spawn(async move {
                let mut oid = String::new();
                if let Some(w) = server.request().await {
                    if let Ok(m) = w.msg {
                        if let Req::Extended { name, .. } = &m.op {
                            oid = String::from_utf8_lossy(name).into_owned();
                        }
                        let value = match kind {
                            1 => ber::encode_min(&ber::seq(vec![ber::ctx_prim(0, sec2.as_bytes())])),
                            _ => sec2.as_bytes().to_vec(),
                        };
                        let res = Res { rc: 0, matched: String::new(), text: "t:exop".into(), refs: if with_refs { Some(vec!["ldap://elsewhere/".into()]) } else { None } };
                        let r = Resp::Extended { res, name: if with_name { Some(oid.clone()) } else { None }, value: Some(value) };
                        server.send(&Enc::random(&mut srng).to_vec(&resp_node(m.id, &r, None)));
                    }
                }
                server.wait_closed().await;
                oid
            });
            let r = match kind {
                0 => crate::world::watchdog(ldap.extended(WhoAmI)).await,
                1 => crate::world::watchdog(ldap.extended(PasswordModify { user_id: Some("uid=x"), old_pass: None, new_pass: None })).await,
                _ => crate::world::watchdog(ldap.extended(StartTxn)).await,
            };
            let got = match r {
                Ok(Ok(res)) => {
                    let ex = res.0;
                    let parsed = guarded(|| match kind {
                        0 => ex.parse::<WhoAmIResp>().authzid,
                        1 => ex.parse::<PasswordModifyResp>().gen_pass,
                        _ => ex.parse::<StartTxnResp>().txn_id,
                    });
                    match parsed {
                        Ok(s) => format!("Ok:{}", s),
                        Err(p) => format!("parse-panic:{}", p.site()),
                    }
                }
                Ok(Err(e)) => format!("Err({})", crate::world::err_class(&e)),
                Err(()) => "Hung".into(),
            };
            drop(ldap);
            let oid = srv.await.unwrap_or_default();
            let _ = c.driver.await;
            (got, oid)
        });
        let what = ["WhoAmI", "PasswordModify", "StartTxn"][kind as usize];
        let replay = json!({"lane":"exops_through_connection","case":i});
        let want_oid = ["1.3.6.1.4.1.4203.1.11.3", "1.3.6.1.4.1.4203.1.11.1", "1.3.6.1.1.21.1"][kind as usize];
        if seen_oid != want_oid {
            viol(rep, what, "request-oid", format!("server saw {:?}", seen_oid), &replay);
        }
        if got != format!("Ok:{}", secret) {
            viol(
                rep,
                &format!("{}Resp", what),
                if with_name { "value-lost-or-changed:response-with-name-and-value" } else { "value-lost-or-changed:response-with-value-only" },
                format!("server encoded {:?} (responseName {}, referral {}); the caller parsed {:?}", secret, with_name, with_refs, got),
                &replay,
            );
        }
        rep.count(&format!("exop_{}_{}", what, if with_name { "name+value" } else { "value-only" }), 1);
        rep.case(Some(fnv(format!("{}{}{}{}", kind, with_name, with_refs, secret.len()).as_bytes())));
    })
}
