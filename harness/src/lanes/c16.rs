//! C16 — the PagedResults adapter returns the whole result set exactly once.
use crate::ber;
use crate::gen;
use crate::lanes::c13::{paged_value, parse_paged, PAGED_OID};
use crate::msg::{resp_node, CritEnc, Ctl, Req, ReqMsg, Res, Resp, RespCtl};
use crate::pipe::Chunking;
use crate::prng::{fnv, Rng};
use crate::report::{case_rng, par_cases, Ctx, Report};
use crate::world::{self, connect, item_out, res_out, runtime, Caught, ItemOut, ResOut};
use ldap3::adapters::{Adapter, EntriesOnly, PagedResults};
use serde_json::{json, Value};
use std::time::Duration;

#[derive(Clone, Debug)]
struct Page {
    /// items of this page: (is_entry, global index) — non-entries are references/intermediates
    items: Vec<(u8, usize)>,
    /// cookie returned with this page (empty = last)
    cookie: Vec<u8>,
}

fn gen_cookie(rng: &mut Rng, k: usize) -> Vec<u8> {
    let mut c = match rng.below(5) {
        0 => vec![rng.next() as u8],
        1 => ber::encode_min(&ber::seq(vec![ber::integer(k as i64), ber::octets(b"x")])), // looks like BER
        2 => rng.bytes(300),
        3 => {
            let l = 1 + rng.usize(4);
            vec![0u8; l]
        }
        _ => {
            let l = 1 + rng.usize(20);
            rng.bytes(l)
        }
    };
    // make cookies distinct per page
    c.extend_from_slice(format!("#{}", k).as_bytes());
    c
}

fn gen_pages(rng: &mut Rng) -> (Vec<Page>, usize) {
    let n = match rng.below(6) {
        0 => 0,
        1 => 1,
        2 => rng.usize(6),
        _ => rng.usize(201),
    };
    let mut pages = vec![];
    let mut next = 0;
    let style = rng.below(4);
    loop {
        let take = match style {
            0 => 1 + rng.usize(50),             // full-ish pages
            1 => rng.usize(4),                   // short and empty pages with live cookies
            2 => if pages.is_empty() { 0 } else { 1 + rng.usize(10) }, // empty first page
            _ => rng.usize(12),
        };
        let end = (next + take).min(n);
        let mut items = vec![];
        for g in next..end {
            if rng.chance(1, 12) {
                items.push((1 + rng.below(2) as u8, g)); // a reference / intermediate before the entry
            }
            items.push((0, g));
        }
        next = end;
        let last = next >= n && (style != 1 || rng.bool() || pages.len() > 300);
        let cookie = if last { vec![] } else { gen_cookie(rng, pages.len()) };
        pages.push(Page { items, cookie });
        if last {
            break;
        }
        if pages.len() > 400 {
            pages.last_mut().unwrap().cookie = vec![];
            break;
        }
    }
    (pages, n)
}

fn entry_dn(g: usize) -> Vec<u8> {
    format!("e={},dc=paged", g).into_bytes()
}

#[derive(Clone, Debug)]
struct Setup {
    page_size: i32,
    chain: u8, // 0 = [Paged], 1 = [EntriesOnly, Paged], 2 = [Paged, EntriesOnly]
    other_controls: Vec<Ctl>,
    opts: Option<(u8, bool, i32, i32)>,
    clash: bool,
    timeout: bool,
    spec: world::SearchSpec,
}

pub fn run_case_with(i: u64, rng: &mut Rng, rep: &mut Report, verbose: bool, force_fault: bool, sigp: &str) {
    let (mut pages, n) = gen_pages(rng);
    // "slot" cookies: the server keeps the paging state itself and hands back the same opaque handle
    // with every page but the last
    let slot = pages.len() >= 2 && rng.chance(1, 6);
    if slot {
        for p in pages.iter_mut() {
            if !p.cookie.is_empty() {
                p.cookie = b"slot-7".to_vec();
            }
        }
    }
    // connection loss exactly at a page boundary: the server closes right after the Done of page k
    // (which carried a live cookie), before the follow-up request can be answered
    let fault_after_page: Option<usize> = if pages.len() >= 2 && (force_fault || rng.chance(1, 8)) { Some(rng.usize(pages.len() - 1)) } else { None };
    let mut other_controls = if rng.bool() { gen::gen_req_controls(rng) } else { vec![] };
    other_controls.retain(|c| c.oid != PAGED_OID.as_bytes());
    let setup = Setup {
        page_size: *rng.pick(&[1, 2, 5, 50, 1000, i32::MAX, 127, 128, 255, 256, 32_767, 32_768, 40_000, 65_535, 65_536, 8_388_607, 8_388_608, 16_777_216]),
        chain: rng.below(3) as u8,
        other_controls,
        opts: if rng.bool() { Some((rng.below(4) as u8, rng.bool(), rng.below(1000) as i32, rng.below(1000) as i32)) } else { None },
        clash: rng.chance(1, 12),
        timeout: rng.chance(1, 4),
        spec: gen::gen_search(rng, i),
    };
    let final_extra_ctl = rng.bool();
    let omit_last_control = rng.chance(1, 6);
    // result codes per page: a server may cut a paged search short (size/time/admin limit) or report a
    // non-zero code on any page; the cookie alone decides whether there is another page
    let page_rc: Vec<u32> = (0..pages.len()).map(|k| if rng.chance(1, if k + 1 == pages.len() { 5 } else { 12 }) { *rng.pick(&[3u32, 4, 11, 10, 53]) } else { 0 }).collect();
    let page_rc2 = page_rc.clone();
    let mut srng = rng.fork();
    let rt = runtime(rng.next());
    let pages2 = pages.clone();
    let setup2 = setup.clone();
    let (outcome, reqs, server_notes) = rt.block_on(async move {
        let c = connect();
        let mut ldap = c.ldap;
        let mut server = c.server;
        let srv = tokio::spawn(async move {
            let mut reqs: Vec<ReqMsg> = vec![];
            let mut notes: Vec<String> = vec![];
            while let Some(w) = server.request().await {
                let m = match w.msg {
                    Ok(m) => m,
                    Err(e) => {
                        notes.push(format!("undecodable request: {}", e));
                        continue;
                    }
                };
                reqs.push(m.clone());
                if !matches!(m.op, Req::Search { .. }) {
                    continue;
                }
                let n_paging = m.controls.as_ref().map(|cs| cs.iter().filter(|c| c.oid == PAGED_OID.as_bytes()).count()).unwrap_or(0);
                let pc = if n_paging > 1 {
                    // not a request this server can page on; it is judged from the request log
                    None
                } else {
                    m.controls.as_ref().and_then(|cs| cs.iter().find(|c| c.oid == PAGED_OID.as_bytes())).and_then(|c| c.val.as_ref()).and_then(|v| parse_paged(v))
                };
                // a conversation that does not end is cut off (and reported through the request count)
                if reqs.len() > pages2.len() + 60 {
                    notes.push("more than 60 requests beyond the number of pages".into());
                    break;
                }
                let page_ix = match &pc {
                    None => {
                        notes.push("search without a well-formed paging control".into());
                        None
                    }
                    Some((_, cookie)) if cookie.is_empty() => Some(0),
                    Some((_, cookie)) if slot && cookie == b"slot-7" => Some(reqs.iter().filter(|r| matches!(r.op, Req::Search { .. })).count() - 1),
                    Some((_, cookie)) => pages2.iter().position(|p| &p.cookie == cookie).map(|x| x + 1).or_else(|| {
                        notes.push(format!("unknown cookie {}", ber::hex(cookie)));
                        None
                    }),
                };
                let mut bytes = vec![];
                match page_ix.and_then(|x| pages2.get(x)) {
                    Some(p) => {
                        for (k, g) in &p.items {
                            let r = match k {
                                0 => Resp::Entry { dn: entry_dn(*g), attrs: vec![(b"cn".to_vec(), vec![format!("v{}", g).into_bytes()])] },
                                1 => Resp::Reference(vec![format!("ldap://ref/{}", g)]),
                                _ => Resp::Intermediate { name: Some("1.2.3".into()), value: Some(format!("i{}", g).into_bytes()) },
                            };
                            bytes.extend_from_slice(&ber::encode_min(&resp_node(m.id, &r, None)));
                        }
                        let mut ctls = vec![];
                        if final_extra_ctl {
                            ctls.push(RespCtl { oid: "1.2.3.4.5".into(), crit: CritEnc::Absent, val: Some(b"keep".to_vec()) });
                        }
                        // servers may spell the criticality out (FALSE, or TRUE in any non-zero octet) in their response control
                        let crit = match srng.below(4) { 0 => CritEnc::False, 1 => CritEnc::True(*srng.pick(&[0xffu8, 0x01])), _ => CritEnc::Absent };
                        // the last page may come without the response control at all (a server that ends the paged search its
                        // own way, or ignores the non-critical request control on a result that fits one page)
                        if !(omit_last_control && p.cookie.is_empty()) {
                            ctls.push(RespCtl { oid: PAGED_OID.into(), crit, val: Some(paged_value(srng.below(1000) as i64, &p.cookie)) });
                        }
                        if final_extra_ctl && srng.bool() {
                            ctls.push(RespCtl { oid: "1.2.3.4.6".into(), crit: CritEnc::Absent, val: None });
                        }
                        let text = format!("page:{}", page_ix.unwrap());
                        bytes.extend_from_slice(&ber::encode_min(&resp_node(m.id, &Resp::Done(Res::code(page_rc2.get(page_ix.unwrap()).copied().unwrap_or(0), &text)), Some(&ctls))));
                    }
                    None => bytes.extend_from_slice(&ber::encode_min(&resp_node(m.id, &Resp::Done(Res::code(2, "bad page")), None))),
                }
                server.send_chunked(&bytes, Chunking::Random, &mut srng);
                if fault_after_page.is_some() && page_ix == fault_after_page {
                    server.eof();
                    break;
                }
            }
            (reqs, notes)
        });
        let adapters: Vec<Box<dyn Adapter<'static, String, Vec<String>>>> = match setup2.chain {
            0 => vec![Box::new(PagedResults::new(setup2.page_size))],
            1 => vec![Box::new(EntriesOnly::new()), Box::new(PagedResults::new(setup2.page_size))],
            _ => vec![Box::new(PagedResults::new(setup2.page_size)), Box::new(EntriesOnly::new())],
        };
        let mut ctrls = world::raw_controls(&setup2.other_controls);
        if setup2.clash {
            let pos = if ctrls.is_empty() { 0 } else { ctrls.len() / 2 };
            ctrls.insert(pos, ldap3::controls::PagedResults { size: 3, cookie: vec![] }.into());
        }
        if !ctrls.is_empty() || setup2.clash {
            ldap.with_controls(ctrls);
        }
        if let Some(o) = setup2.opts {
            ldap.with_search_options(world::search_options(o));
        }
        if setup2.timeout {
            ldap.with_timeout(Duration::from_secs(5));
        }
        let filter = String::from_utf8_lossy(&setup2.spec.filter_str).into_owned();
        let fut = async {
            let st = ldap.streaming_search_with(adapters, &setup2.spec.base, world::scope_of(setup2.spec.scope), &filter, setup2.spec.attrs.clone()).await;
            let mut st = match st {
                Ok(s) => s,
                Err(e) => return Err(format!("start:{}", world::err_class(&e))),
            };
            let mut items: Vec<ItemOut> = vec![];
            loop {
                match st.next().await {
                    Ok(Some(e)) => items.push(item_out(&e)),
                    Ok(None) => break,
                    Err(e) => {
                        // the search failed before its end: finish() must say so (rc 88), not hand out an earlier page's result
                        let r = st.finish().await;
                        return Err(format!("next:{}:finish-rc={}:after {} items", world::err_class(&e), r.rc, items.len()));
                    }
                }
            }
            let r = st.finish().await;
            Ok((items, res_out(&r)))
        };
        let outcome: Result<(Vec<ItemOut>, ResOut), String> = match world::watchdog(Caught::new(fut)).await {
            Ok(Ok(o)) => o,
            Ok(Err(p)) => Err(format!("panic:{}", p.site())),
            Err(()) => Err("hung".into()),
        };
        drop(ldap);
        let (reqs, notes) = srv.await.unwrap_or_default();
        let _ = c.driver.await;
        (outcome, reqs, notes)
    });
    let replay = json!({"lane":"paging","case":i});
    let searches: Vec<&ReqMsg> = reqs.iter().filter(|m| matches!(m.op, Req::Search { .. })).collect();
    if setup.clash {
        match &outcome {
            Err(e) if e == "start:AdapterInit" => {}
            other => rep.violation("C16:caller-paging-control-not-rejected-at-start", format!("{:?}", other.as_ref().map(|_| "Ok")), replay.clone()),
        }
        if !reqs.is_empty() {
            rep.violation("C16:caller-paging-control:request-reached-the-wire", format!("{} requests", reqs.len()), replay.clone());
        }
        rep.count("clash_cases", 1);
        rep.case(Some(fnv(format!("clash{:?}", setup.other_controls).as_bytes())));
        return;
    }
    if let Some(k) = fault_after_page {
        let want_entries: usize = pages[..=k].iter().map(|p| p.items.iter().filter(|(kind, _)| *kind == 0).count()).sum();
        let want_items: usize = pages[..=k].iter().map(|p| p.items.len()).sum();
        match &outcome {
            Ok((items, res)) => {
                rep.violation(format!("{}:connection-loss-at-a-page-boundary-reported-as-end-of-results", sigp), format!("the server closed after page {} of {} (live cookie): the stream ended with Ok(None), {} items and final rc {} {:?} instead of an error", k, pages.len(), items.len(), res.rc, res.text), replay.clone());
            }
            Err(e) if e.starts_with("next:") => {
                let got: usize = e.rsplit("after ").next().and_then(|x| x.split(' ').next()).and_then(|x| x.parse().ok()).unwrap_or(usize::MAX);
                let entries_only = setup.chain != 0;
                let want = if entries_only { want_entries } else { want_items };
                if !e.contains(":finish-rc=88:") {
                    rep.violation(format!("{}:finish-after-connection-loss-reports-an-earlier-page's-result", sigp), format!("{}; the server closed after page {} of {}", e, k, pages.len()), replay.clone());
                }
                if got != want {
                    rep.violation(format!("{}:items-lost-or-invented-before-connection-loss", sigp), format!("{} items returned before the error, {} were delivered", got, want), replay.clone());
                }
            }
            Err(e) => rep.violation(format!("{}:paged-search-fails-oddly-on-connection-loss", sigp), e.clone(), replay.clone()),
        }
        rep.count("cases_with_connection_loss_at_page_boundary", 1);
        rep.case(Some(fnv(format!("fault{:?}{}", pages.iter().map(|p| p.items.len()).collect::<Vec<_>>(), k).as_bytes())));
        return;
    }
    for n in &server_notes {
        let sig = if n.starts_with("unknown cookie") { "follow-up-carries-a-cookie-the-server-never-returned" } else if n.starts_with("search without") { "request-without-exactly-one-well-formed-paging-control" } else if n.starts_with("more than") { "paging-does-not-end" } else { "undecodable-request" };
        rep.violation(format!("C16:{}", sig), n.clone(), replay.clone());
    }
    // ---- server side: request sequence ----
    let mut want_req = world::Call::Search(world::SearchSpec { opts: setup.opts, ..setup.spec.clone() }).expected();
    if let Req::Search { .. } = &mut want_req {}
    for (k, m) in searches.iter().enumerate() {
        let cs = m.controls.clone().unwrap_or_default();
        let paged: Vec<&Ctl> = cs.iter().filter(|c| c.oid == PAGED_OID.as_bytes()).collect();
        let others: Vec<Ctl> = cs.iter().filter(|c| c.oid != PAGED_OID.as_bytes()).cloned().collect();
        if paged.len() != 1 {
            rep.violation("C16:request-paging-control-count", format!("request {} has {} paging controls", k, paged.len()), replay.clone());
            continue;
        }
        let (size, cookie) = paged[0].val.as_ref().and_then(|v| parse_paged(v)).unwrap_or((-1, vec![0xde, 0xad]));
        if size != setup.page_size as i64 {
            rep.violation(if k == 0 { "C16:first-request-page-size" } else { "C16:follow-up-page-size" }, format!("request {}: size {} expected {}", k, size, setup.page_size), replay.clone());
        }
        let want_cookie: Vec<u8> = if k == 0 { vec![] } else { pages.get(k - 1).map(|p| p.cookie.clone()).unwrap_or_default() };
        if cookie != want_cookie {
            rep.violation(if k == 0 { "C16:first-request-cookie-not-empty" } else { "C16:follow-up-cookie-is-not-the-last-returned" }, format!("request {}: cookie {} expected {}", k, ber::hex(&cookie), ber::hex(&want_cookie)), replay.clone());
        }
        if m.op != want_req {
            let d = match (&want_req, &m.op) {
                (Req::Search { base: b1, scope: s1, deref: d1, size: z1, time: t1, types_only: y1, filter: f1, attrs: a1 }, Req::Search { base: b2, scope: s2, deref: d2, size: z2, time: t2, types_only: y2, filter: f2, attrs: a2 }) => {
                    if b1 != b2 { "base" } else if s1 != s2 { "scope" } else if f1 != f2 { "filter" } else if a1 != a2 { "attributes" } else if d1 != d2 || z1 != z2 || t1 != t2 || y1 != y2 { "options" } else { "?" }
                }
                _ => "?",
            };
            rep.violation(format!("C16:{}-request-differs:{}", if k == 0 { "first" } else { "follow-up" }, d), format!("request {}: want {:?} got {:?}", k, trunc(&want_req), trunc(&m.op)), replay.clone());
        }
        if others != setup.other_controls {
            rep.violation(format!("C16:{}-request-other-controls-differ", if k == 0 { "first" } else { "follow-up" }), format!("request {}: want {:?} got {:?}", k, trunc(&setup.other_controls), trunc(&others)), replay.clone());
        }
    }
    if searches.len() != pages.len() {
        let sig = if searches.len() > pages.len() { "request-after-the-first-empty-cookie" } else { "paging-stopped-before-the-empty-cookie" };
        rep.violation(format!("C16:{}", sig), format!("{} search requests for {} pages", searches.len(), pages.len()), replay.clone());
    }
    // ---- client side ----
    match &outcome {
        Err(e) => rep.violation("C16:paged-search-failed", e.clone(), replay.clone()),
        Ok((items, res)) => {
            let entries_only = setup.chain != 0;
            let mut want: Vec<(u8, usize)> = pages.iter().flat_map(|p| p.items.iter().cloned()).collect();
            if entries_only {
                want.retain(|(k, _)| *k == 0);
            }
            let got: Vec<(u8, usize)> = items
                .iter()
                .map(|it| {
                    let k = if it.is_ref { 1 } else if it.is_intermediate { 2 } else { 0 };
                    let g = match &it.node {
                        ber::Node::C { kids, .. } => match kids.first() {
                            Some(ber::Node::P { data, .. }) => String::from_utf8_lossy(data).trim_start_matches("e=").split(',').next().and_then(|x| x.parse().ok()).or_else(|| String::from_utf8_lossy(data).rsplit('/').next().and_then(|x| x.trim_start_matches('i').parse().ok())).unwrap_or(usize::MAX),
                            _ => usize::MAX,
                        },
                        _ => usize::MAX,
                    };
                    (k, g)
                })
                .collect();
            let got_entries: Vec<usize> = got.iter().filter(|(k, _)| *k == 0).map(|(_, g)| *g).collect();
            let want_entries: Vec<usize> = (0..n).collect();
            if got_entries != want_entries {
                let sig = if got_entries.len() < want_entries.len() { "entries-missing" } else if got_entries.len() > want_entries.len() { "entries-duplicated" } else { "entries-out-of-order" };
                rep.violation(format!("C16:{}", sig), format!("{} entries returned, result set has {}; first got {:?}", got_entries.len(), n, &got_entries[..got_entries.len().min(12)]), replay.clone());
            } else if !entries_only && got.len() != want.len() {
                rep.violation("C16:non-entry-items-lost-or-duplicated", format!("{} items vs {}", got.len(), want.len()), replay.clone());
            }
            if res.ctrls.iter().any(|c| c.oid == PAGED_OID) {
                rep.violation("C16:final-result-still-carries-the-paging-control", format!("{:?}", trunc(&res.ctrls)), replay.clone());
            }
            let want_text = format!("page:{}", pages.len() - 1);
            if res.rc != page_rc.last().copied().unwrap_or(0) || res.text != want_text {
                rep.violation("C16:final-result-is-not-the-last-page's-result", format!("rc {} text {:?} expected {:?}", res.rc, res.text, want_text), replay.clone());
            }
            if final_extra_ctl && !res.ctrls.iter().any(|c| c.oid == "1.2.3.4.5") {
                rep.violation("C16:final-result-lost-other-response-controls", format!("{:?}", trunc(&res.ctrls)), replay.clone());
            }
        }
    }
    rep.count("pages_served", pages.len() as u64);
    rep.count("entries_in_result_sets", n as u64);
    rep.max("max_pages", pages.len() as u64);
    if pages.first().map(|p| p.items.is_empty() && !p.cookie.is_empty()).unwrap_or(false) {
        rep.count("cases_with_empty_first_page", 1);
    }
    if pages.len() == 1 {
        rep.count("cases_with_single_page", 1);
    }
    rep.count(match setup.chain { 0 => "chain_paged", 1 => "chain_entriesonly_paged", _ => "chain_paged_entriesonly" }, 1);
    if verbose {
        println!("pages {:?}", pages.iter().map(|p| (p.items.len(), p.cookie.len())).collect::<Vec<_>>());
        println!("requests {} outcome {:?}", searches.len(), outcome.as_ref().map(|(i, r)| (i.len(), r.rc, r.text.clone())));
    }
    if i < 2 {
        rep.sample(json!({"lane":"paging","case":i,"result_set":n,"page_size_requested":setup.page_size,"pages":pages.iter().take(10).map(|p| json!({"items":p.items.len(),"cookie_len":p.cookie.len()})).collect::<Vec<_>>(),"chain":setup.chain,"other_controls":setup.other_controls.len(),"requests_seen":searches.len()}));
    }
    if slot {
        rep.count("conversations_with_a_constant_cookie", 1);
    }
    if page_rc.iter().any(|r| *r != 0) {
        rep.count("conversations_with_a_non_zero_result_code_on_some_page", 1);
    }
    rep.case(Some(fnv(format!("{:?}{:?}", pages.iter().map(|p| (p.items.len(), p.cookie.clone())).collect::<Vec<_>>(), setup.chain).as_bytes())));
}

fn run_case(i: u64, rng: &mut Rng, rep: &mut Report, verbose: bool) {
    run_case_with(i, rng, rep, verbose, false, "C16")
}

fn trunc<T: std::fmt::Debug>(t: &T) -> String {
    format!("{:?}", t).chars().take(400).collect()
}

pub fn paging(ctx: &Ctx) -> Report {
    let n = ctx.n(50_000, 50_000_000);
    par_cases(ctx, "paging", n, ctx.secs(30, 600), |i, rng, rep| run_case(i, rng, rep, false))
}

/// C04's view of paging: every case loses the connection at a page boundary.
pub fn paging_faults(ctx: &Ctx) -> Report {
    let n = ctx.n(10_000, 10_000_000);
    par_cases(ctx, "paged_connection_loss", n, ctx.secs(15, 300), |i, rng, rep| run_case_with(i, rng, rep, false, true, "C04:paged"))
}

pub fn replay(ctx: &Ctx, v: &Value) -> Report {
    let mut rep = Report::new();
    if let Some(i) = v["case"].as_u64() {
        let mut rng = case_rng(ctx.seed, "paging", i);
        run_case(i, &mut rng, &mut rep, true);
    }
    rep
}


/// The paging conversation through the synchronous front-end.  `LdapConn::streaming_search_with` must
/// hand the caller's controls, options and timeout to the adapter chain exactly as the async call
/// does: C14's differential scripts (which include paged searches with modifiers, alone and behind
/// EntriesOnly) run here, and any difference on the wire or in the results is reported under C16.
pub fn sync_front_end(ctx: &Ctx) -> Report {
    let mut rep = crate::lanes::c14::differential(ctx);
    let old = std::mem::take(&mut rep.violations);
    for (sig, mut v) in old {
        let renamed = match sig.strip_prefix("C14:") {
            Some(rest) => format!("C16:sync-front-end:{}", rest),
            None => sig,
        };
        v.signature = renamed.clone();
        rep.violations.insert(renamed, v);
    }
    rep
}
