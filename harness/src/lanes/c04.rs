//! C04 — every operation terminates; losing the connection fails all pending work.
use crate::ber;
use crate::gen;
use crate::msg::{resp_node, Req, Res, Resp};
use crate::prng::{fnv, Rng};
use crate::report::{case_rng, par_cases, Ctx, Report};
use crate::world::{self, connect, runtime, settle, Caught};
use ldap3::{Ldap, Scope};
use serde_json::{json, Value};
use std::io::ErrorKind;
use tokio::time::Instant;

#[derive(Clone, Debug, PartialEq)]
pub enum Fault {
    Eof,
    ReadErr,
    Garbage(Vec<u8>),
    /// client calls unbind(); the server closes on the UnbindRequest
    Unbind,
}

#[derive(Clone, Debug)]
pub struct Scenario {
    pub singles: usize,
    /// items per stream
    pub streams: Vec<usize>,
    /// response stream order: (op index, message index within the op). Singles are ops
    /// 0..singles, streams follow.
    pub order: Vec<(usize, usize)>,
    pub fault: Fault,
    pub barrier: bool,
}

pub fn gen_scenario(rng: &mut Rng) -> Scenario {
    let singles = rng.usize(5);
    let nstreams = if singles == 0 { 1 + rng.usize(3) } else { rng.usize(4) };
    let streams: Vec<usize> = (0..nstreams).map(|_| rng.usize(5)).collect();
    // per-op message counts: singles 1, streams items+1 (Done)
    let mut remaining: Vec<usize> = (0..singles).map(|_| 1).chain(streams.iter().map(|n| n + 1)).collect();
    let mut next: Vec<usize> = vec![0; remaining.len()];
    let mut order = vec![];
    // the server may leave some operations unanswered altogether
    let answered: Vec<bool> = (0..remaining.len()).map(|_| rng.chance(4, 5)).collect();
    loop {
        let live: Vec<usize> = (0..remaining.len()).filter(|&i| remaining[i] > 0 && answered[i]).collect();
        if live.is_empty() {
            break;
        }
        let i = *rng.pick(&live);
        order.push((i, next[i]));
        next[i] += 1;
        remaining[i] -= 1;
    }
    let fault = match rng.below(6) {
        0 | 1 => Fault::Eof,
        2 => Fault::ReadErr,
        // complete frames that are not LDAPMessage envelopes
        3 => Fault::Garbage(
            rng.pick(&[
                &[0x02u8, 0x01, 0x01][..],
                &[0x30, 0x00],
                &[0x04, 0x00],
                &[0x30, 0x03, 0x04, 0x01, 0x41],
                &[0x30, 0x05, 0x04, 0x64, 0x01, 0x02, 0x03],
                &[0x30, 0x03, 0x02, 0x01, 0x01],
                // envelopes whose messageID is outside 0..maxInt (MessageID ::= INTEGER (0 .. maxInt)): 2^64+1 in nine
                // octets, 2^32+1, 2^31, -1; each followed by a well-formed DelResponse
                &[0x30, 0x14, 0x02, 0x09, 0x01, 0, 0, 0, 0, 0, 0, 0, 0x01, 0x6b, 0x07, 0x0a, 0x01, 0x00, 0x04, 0x00, 0x04, 0x00],
                &[0x30, 0x10, 0x02, 0x05, 0x01, 0, 0, 0, 0x01, 0x6b, 0x07, 0x0a, 0x01, 0x00, 0x04, 0x00, 0x04, 0x00],
                &[0x30, 0x10, 0x02, 0x05, 0x00, 0x80, 0, 0, 0, 0x6b, 0x07, 0x0a, 0x01, 0x00, 0x04, 0x00, 0x04, 0x00],
                &[0x30, 0x0c, 0x02, 0x01, 0xff, 0x6b, 0x07, 0x0a, 0x01, 0x00, 0x04, 0x00, 0x04, 0x00],
                // the indefinite length form, which LDAP forbids (and which is not "128 octets to come" either)
                &[0x30, 0x80, 0x02, 0x01, 0x01, 0x6b, 0x07, 0x0a, 0x01, 0x00, 0x04, 0x00, 0x04, 0x00, 0x00, 0x00],
                // a response whose Controls list holds something that is not a Control (a bare OCTET STRING), and one whose
                // Controls element is not a list at all
                &[0x30, 0x15, 0x02, 0x01, 0x01, 0x6b, 0x07, 0x0a, 0x01, 0x00, 0x04, 0x00, 0x04, 0x00, 0xa0, 0x07, 0x04, 0x05, 0x31, 0x2e, 0x32, 0x2e, 0x33],
                &[0x30, 0x13, 0x02, 0x01, 0x02, 0x6b, 0x07, 0x0a, 0x01, 0x00, 0x04, 0x00, 0x04, 0x00, 0x80, 0x05, 0x31, 0x2e, 0x32, 0x2e, 0x33],
            ])
            .to_vec(),
        ),
        _ => Fault::Unbind,
    };
    Scenario { singles, streams, order, fault, barrier: rng.chance(3, 4) }
}

/// The byte stream of responses and the end offset of every message.
fn response_stream(sc: &Scenario, ids: &[i64]) -> (Vec<u8>, Vec<(usize, usize, usize)>) {
    let mut bytes = vec![];
    let mut ends = vec![];
    for &(op, k) in &sc.order {
        let id = ids[op];
        let b = if op < sc.singles {
            ber::encode_min(&resp_node(id, &Resp::Del(Res::ok(&format!("t:{}", op))), None))
        } else {
            let j = op - sc.singles;
            if k < sc.streams[j] {
                ber::encode_min(&resp_node(id, &Resp::Entry { dn: format!("e={}.{}", op, k).into_bytes(), attrs: vec![] }, None))
            } else {
                ber::encode_min(&resp_node(id, &Resp::Done(Res::ok(&format!("t:{}", op))), None))
            }
        };
        bytes.extend_from_slice(&b);
        ends.push((op, k, bytes.len()));
    }
    (bytes, ends)
}

#[derive(Clone, Debug, PartialEq)]
pub enum Obs {
    Ok(String),
    Err(String),
    /// stream: items received, how it ended, finish rc
    Stream(Vec<String>, String, u32, String),
    Hung,
    Panic(String),
}

async fn single(mut l: Ldap, op: usize) -> Obs {
    match world::watchdog(Caught::new(l.delete(&format!("op={}", op)))).await {
        Ok(Ok(Ok(r))) => Obs::Ok(r.text),
        Ok(Ok(Err(e))) => Obs::Err(world::err_class(&e).into()),
        Ok(Err(p)) => Obs::Panic(p.site()),
        Err(()) => Obs::Hung,
    }
}

async fn stream(mut l: Ldap, op: usize, started: tokio::sync::oneshot::Sender<()>) -> Obs {
    let st = world::watchdog(Caught::new(l.streaming_search(&format!("op={}", op), Scope::Subtree, "(a=b)", vec!["*"]))).await;
    let _ = started.send(());
    let mut st = match st {
        Ok(Ok(Ok(s))) => s,
        Ok(Ok(Err(e))) => return Obs::Stream(vec![], format!("start:Err({})", world::err_class(&e)), 0, String::new()),
        Ok(Err(p)) => return Obs::Panic(p.site()),
        Err(()) => return Obs::Hung,
    };
    let mut items = vec![];
    let end;
    loop {
        match world::watchdog(Caught::new(st.next())).await {
            Ok(Ok(Ok(Some(e)))) => {
                let dn = match &world::item_out(&e).node {
                    ber::Node::C { kids, .. } => match kids.first() {
                        Some(ber::Node::P { data, .. }) => String::from_utf8_lossy(data).into_owned(),
                        _ => "?".into(),
                    },
                    _ => "?".into(),
                };
                items.push(dn);
            }
            Ok(Ok(Ok(None))) => {
                end = "End".to_string();
                break;
            }
            Ok(Ok(Err(_))) => {
                end = "Err".to_string();
                break;
            }
            Ok(Err(p)) => return Obs::Panic(p.site()),
            Err(()) => return Obs::Hung,
        }
    }
    let r = st.finish().await;
    Obs::Stream(items, end, r.rc, r.text)
}

#[derive(Debug, Default)]
struct RunObs {
    ops: Vec<Obs>,
    later: String,
    later_elapsed_ms: u64,
    later_reached_server: bool,
    driver: String,
    unbind: String,
    shutdown_called: bool,
    transport_dropped: bool,
    server_saw_close: bool,
}

fn run_cut(sc: &Scenario, p: usize, seed: u64) -> (RunObs, usize, Vec<(usize, usize, usize)>) {
    let rt = runtime(seed);
    let sc2 = sc.clone();
    rt.block_on(async move {
        let c = connect();
        let mut server = c.server;
        let nops = sc2.singles + sc2.streams.len();
        let mut tasks = vec![];
        let mut ids: Vec<i64> = vec![0; nops];
        // issue every operation and let the server see every request first
        for op in 0..nops {
            let l = c.ldap.clone();
            if op < sc2.singles {
                tasks.push(tokio::spawn(single(l, op)));
            } else {
                let (tx, _rx) = tokio::sync::oneshot::channel();
                tasks.push(tokio::spawn(stream(l, op, tx)));
            }
            if let Some(w) = server.request().await {
                if let Ok(m) = w.msg {
                    let t = m.op.token_field().and_then(gen::token_of).unwrap_or(0) as usize;
                    if t < nops {
                        ids[t] = m.id;
                    }
                }
            }
        }
        settle().await;
        let (bytes, ends) = response_stream(&sc2, &ids);
        let p = p.min(bytes.len());
        // deliver the first p bytes (in two chunks to vary read boundaries), optional barrier, then the fault
        let mid = p / 2;
        server.send(&bytes[..mid]);
        server.send(&bytes[mid..p]);
        if sc2.barrier {
            settle().await;
        }
        let mut main = c.ldap;
        let mut unbind = String::new();
        match &sc2.fault {
            Fault::Eof => server.eof(),
            Fault::ReadErr => server.read_error(ErrorKind::ConnectionReset),
            Fault::Garbage(g) => server.send(g),
            Fault::Unbind => {
                let mut l = main.clone();
                let mut fut = Box::pin(async move {
                    match world::watchdog(Caught::new(l.unbind())).await {
                        Ok(Ok(Ok(()))) => "Ok".to_string(),
                        Ok(Ok(Err(e))) => format!("Err({})", world::err_class(&e)),
                        Ok(Err(p)) => format!("Panic({})", p.site()),
                        Err(()) => "Hung".into(),
                    }
                });
                if !sc2.barrier {
                    // without a pause: the unbind request is queued in the same instant the response bytes
                    // become readable, so the driver finds both ready and picks either first
                    std::future::poll_fn(|cx| {
                        let _ = std::future::Future::poll(fut.as_mut(), cx);
                        std::task::Poll::Ready(())
                    })
                    .await;
                }
                let u = tokio::spawn(fut);
                // RFC 4511: the server closes the connection on UnbindRequest
                while let Some(w) = server.request().await {
                    if let Ok(m) = w.msg {
                        if matches!(m.op, Req::Unbind) {
                            break;
                        }
                    }
                }
                server.eof();
                unbind = u.await.unwrap_or_else(|_| "task-died".into());
            }
        }
        let mut o = RunObs::default();
        for t in tasks {
            o.ops.push(t.await.unwrap_or(Obs::Panic("task-died".into())));
        }
        settle().await;
        // a later operation on the handle must fail at once, without reaching the server
        let before = server.total_written_by_client();
        let t0 = Instant::now();
        o.later = match world::watchdog(Caught::new(main.delete("op=999"))).await {
            Ok(Ok(Ok(r))) => format!("Ok({})", r.text),
            Ok(Ok(Err(e))) => format!("Err({})", world::err_class(&e)),
            Ok(Err(p)) => format!("Panic({})", p.site()),
            Err(()) => "Hung".into(),
        };
        o.later_elapsed_ms = t0.elapsed().as_millis() as u64;
        o.later_reached_server = server.total_written_by_client() != before;
        o.unbind = unbind;
        drop(main);
        o.driver = match world::watchdog(c.driver).await {
            Ok(Ok(Ok(Ok(())))) => "Ok".into(),
            Ok(Ok(Ok(Err(e)))) => format!("Err({})", e),
            Ok(Ok(Err(p))) => format!("Panic({})", p.site()),
            Ok(Err(_)) => "task-died".into(),
            Err(()) => "Hung".into(),
        };
        o.shutdown_called = server.client_shutdown_called();
        o.transport_dropped = server.client_dropped();
        o.server_saw_close = server.client_closed();
        (o, bytes.len(), ends)
    })
}

fn check_cut(sc: &Scenario, p: usize, obs: &RunObs, ends: &[(usize, usize, usize)], rep: &mut Report, replay: &Value) {
    let fk = match &sc.fault { Fault::Eof => "server-eof", Fault::ReadErr => "read-error", Fault::Garbage(_) => "undecodable-frame", Fault::Unbind => "client-unbind" };
    let nops = sc.singles + sc.streams.len();
    for op in 0..nops {
        let got = match obs.ops.get(op) {
            Some(g) => g,
            None => continue,
        };
        let complete: Vec<usize> = ends.iter().filter(|(o, _, e)| *o == op && *e <= p).map(|(_, k, _)| *k).collect();
        let kind = if op < sc.singles { "single" } else { "stream" };
        match got {
            Obs::Hung => {
                rep.violation(format!("C04:pending-{}-hangs-after:{}", kind, fk), format!("op {} cut {}: {:?}", op, p, sc), replay.clone());
                continue;
            }
            Obs::Panic(s) => {
                rep.violation(format!("C04:{}-panics-after:{}@{}", kind, fk, s), format!("op {} cut {}", op, p), replay.clone());
                continue;
            }
            _ => {}
        }
        if op < sc.singles {
            let delivered = !complete.is_empty();
            match got {
                Obs::Ok(t) => {
                    if t != &format!("t:{}", op) {
                        rep.violation("C04:single:returned-data-that-was-not-received", format!("op {} got {:?}", op, t), replay.clone());
                    } else if !delivered {
                        rep.violation("C04:single:returned-Ok-for-a-response-not-completely-sent", format!("op {} cut {}", op, p), replay.clone());
                    }
                }
                Obs::Err(_) => {
                    // (the response had arrived in full before the fault, with or without a pause in between:
                    // bytes that precede the fault on the transport are read before it)
                    if delivered {
                        rep.violation(format!("C04:single:fully-delivered-response-lost-after:{}", fk), format!("op {} cut {} (response complete before the fault; quiescence barrier in between: {}): {:?}", op, p, sc.barrier, got), replay.clone());
                    }
                }
                _ => {}
            }
        } else {
            let j = op - sc.streams.len().min(op) + 0;
            let _ = j;
            let n_items = sc.streams[op - sc.singles];
            if let Obs::Stream(items, end, rc, text) = got {
                // items must be a prefix of the op's entries, in order
                for (k, dn) in items.iter().enumerate() {
                    if dn != &format!("e={}.{}", op, k) {
                        rep.violation("C04:stream:returned-data-that-was-not-received", format!("op {} item {} is {:?}", op, k, dn), replay.clone());
                    }
                }
                let complete_items = complete.iter().filter(|k| **k < n_items).count();
                let done_complete = complete.iter().any(|k| *k == n_items);
                if items.len() > complete_items {
                    rep.violation("C04:stream:returned-an-item-not-completely-sent", format!("op {} cut {}: {} items returned, {} complete", op, p, items.len(), complete_items), replay.clone());
                }
                if items.len() < complete_items {
                    rep.violation(format!("C04:stream:fully-delivered-items-lost-after:{}", fk), format!("op {} cut {}: {} items returned, {} complete before the fault", op, p, items.len(), complete_items), replay.clone());
                }
                match end.as_str() {
                    "End" => {
                        if !done_complete {
                            rep.violation(format!("C04:stream:ended-with-Ok(None)-although-Done-was-not-received-after:{}", fk), format!("op {} cut {}", op, p), replay.clone());
                        } else if *rc != 0 || text != &format!("t:{}", op) {
                            rep.violation("C04:stream:final-result-differs", format!("op {}: rc {} text {:?}", op, rc, text), replay.clone());
                        }
                    }
                    "Err" => {
                        if done_complete {
                            rep.violation(format!("C04:stream:fully-delivered-Done-lost-after:{}", fk), format!("op {} cut {}", op, p), replay.clone());
                        }
                        if *rc != 88 {
                            rep.violation("C04:stream:finish-after-failure-not-88", format!("rc {}", rc), replay.clone());
                        }
                    }
                    other => rep.violation(format!("C04:stream:start-failed:{}", other), format!("op {}", op), replay.clone()),
                }
            }
        }
    }
    // later operations fail immediately
    if !obs.later.starts_with("Err(") {
        rep.violation(format!("C04:later-operation-does-not-fail-after:{}", fk), format!("cut {}: {}", p, obs.later), replay.clone());
    } else if obs.later_elapsed_ms != 0 || obs.later_reached_server {
        rep.violation(format!("C04:later-operation-does-not-fail-immediately-after:{}", fk), format!("elapsed {} ms, reached server {}", obs.later_elapsed_ms, obs.later_reached_server), replay.clone());
    }
    // the driver completes
    match (&sc.fault, obs.driver.as_str()) {
        (_, "Hung") => rep.violation(format!("C04:driver-never-returns-after:{}", fk), format!("cut {}", p), replay.clone()),
        (_, d) if d.starts_with("Panic") => rep.violation(format!("C04:driver-panics-after:{}", fk), d.to_string(), replay.clone()),
        _ => {}
    }
    if sc.fault == Fault::Unbind {
        if obs.unbind != "Ok" {
            rep.violation("C04:unbind-call-failed", obs.unbind.clone(), replay.clone());
        }
        if !obs.shutdown_called {
            rep.violation("C04:unbind-does-not-close-the-transport", format!("driver {}", obs.driver), replay.clone());
        }
    }
    if !obs.transport_dropped && !obs.shutdown_called {
        rep.violation(format!("C04:transport-left-open-after:{}", fk), format!("driver {}", obs.driver), replay.clone());
    }
}

fn run_scenario(i: u64, rng: &mut Rng, rep: &mut Report, verbose: bool) {
    let sc = gen_scenario(rng);
    // learn B with a dry run at cut 0
    let seed = rng.next();
    let (_, total, _) = run_cut(&sc, 0, seed);
    let replay_base = json!({"lane":"cuts","case":i});
    let (_, _, ends0) = run_cut(&sc, total, seed);
    for p in 0..=total {
        // an undecodable frame appended to a partial message would be absorbed into it:
        // inject it only at message boundaries
        if matches!(sc.fault, Fault::Garbage(_)) && p != 0 && !ends0.iter().any(|e| e.2 == p) {
            continue;
        }
        let (obs, _, ends) = run_cut(&sc, p, seed.wrapping_add(p as u64));
        let mut replay = replay_base.clone();
        replay["cut"] = json!(p);
        check_cut(&sc, p, &obs, &ends, rep, &replay);
        rep.count("runs", 1);
        if verbose {
            println!("cut {}: {:?}", p, obs);
        }
    }
    rep.count(&format!("fault_{}", match &sc.fault { Fault::Eof => "server-eof", Fault::ReadErr => "read-error", Fault::Garbage(_) => "undecodable-frame", Fault::Unbind => "client-unbind" }), 1);
    rep.count("cut_points", total as u64 + 1);
    if i < 2 {
        rep.sample(json!({"lane":"cuts","case":i,"scenario":format!("{:?}", sc),"response_stream_bytes":total,"cut_points":total + 1}));
    }
    rep.case(Some(fnv(format!("{:?}", sc).as_bytes())));
}

/// Fault enumeration: every cut point of every scenario's response stream.
pub fn cuts(ctx: &Ctx) -> Report {
    let n = ctx.n(600, 200_000);
    let mut rep = par_cases(ctx, "cuts", n, ctx.secs(40, 900), |i, rng, rep| run_scenario(i, rng, rep, false));
    rep.exhaustive.push("for each generated scenario, every cut position 0..=B of its response byte stream".into());
    rep
}

// ---------------- write errors and handle drops ----------------

fn run_write_case(i: u64, rng: &mut Rng, rep: &mut Report) {
    // some operations pending (server silent), then the k-th byte of the following request fails
    let pending_singles = rng.usize(3);
    let pending_streams = rng.usize(3);
    // the victim's DelRequest is 13 bytes long: fail at every byte position 0..=12 of it
    let extra = rng.usize(13);
    let rt = runtime(rng.next());
    let replay = json!({"lane":"write_errors","case":i});
    let (obs, later, driver, req_len, closed) = rt.block_on(async move {
        let c = connect();
        let mut server = c.server;
        let mut tasks = vec![];
        let nops = pending_singles + pending_streams;
        for op in 0..nops {
            let l = c.ldap.clone();
            if op < pending_singles {
                tasks.push(tokio::spawn(single(l, op)));
            } else {
                let (tx, _rx) = tokio::sync::oneshot::channel();
                tasks.push(tokio::spawn(stream(l, op, tx)));
            }
            let _ = server.request().await;
        }
        settle().await;
        // a victim request; its length is learnt from a twin connection-free encoding: here simply
        // allow `extra` more bytes and then fail
        let written = server.total_written_by_client();
        server.fail_writes_after(written + extra, ErrorKind::BrokenPipe);
        let victim = tokio::spawn(single(c.ldap.clone(), 500));
        let v = victim.await.unwrap_or(Obs::Panic("task-died".into()));
        let req_len = server.total_written_by_client() - written;
        let mut obs = vec![];
        for t in tasks {
            obs.push(t.await.unwrap_or(Obs::Panic("task-died".into())));
        }
        obs.push(v);
        let mut main = c.ldap;
        let later = match world::watchdog(Caught::new(main.delete("op=999"))).await {
            Ok(Ok(Ok(_))) => "Ok".to_string(),
            Ok(Ok(Err(e))) => format!("Err({})", world::err_class(&e)),
            Ok(Err(p)) => format!("Panic({})", p.site()),
            Err(()) => "Hung".into(),
        };
        drop(main);
        let driver = match world::watchdog(c.driver).await {
            Ok(Ok(Ok(Ok(())))) => "Ok".to_string(),
            Ok(Ok(Ok(Err(e)))) => format!("Err({})", e),
            Ok(Ok(Err(p))) => format!("Panic({})", p.site()),
            Ok(Err(_)) => "task-died".into(),
            Err(()) => "Hung".into(),
        };
        (obs, later, driver, req_len, server.client_closed())
    });
    let wrote_whole_request = req_len < extra; // the victim's request fitted before the failing byte
    for (k, o) in obs.iter().enumerate() {
        let is_victim = k + 1 == obs.len();
        match o {
            Obs::Hung => rep.violation(if is_victim { "C04:operation-hangs-after:write-error" } else { "C04:pending-operation-hangs-after:write-error" }, format!("op {} of {:?}; victim request bytes accepted {} of allowance {}", k, obs, req_len, extra), replay.clone()),
            Obs::Panic(s) => rep.violation(format!("C04:panic-after:write-error@{}", s), format!("{:?}", obs), replay.clone()),
            Obs::Ok(_) => rep.violation("C04:returned-Ok-without-any-response-after:write-error", format!("op {}", k), replay.clone()),
            Obs::Stream(items, end, _, _) => {
                if !items.is_empty() || end == "End" {
                    rep.violation("C04:stream:returned-data-that-was-not-received", format!("{:?}", o), replay.clone());
                }
            }
            Obs::Err(_) => {}
        }
    }
    if !wrote_whole_request {
        if !later.starts_with("Err(") {
            rep.violation("C04:later-operation-does-not-fail-after:write-error", later.clone(), replay.clone());
        }
        if driver == "Hung" {
            rep.violation("C04:driver-never-returns-after:write-error", format!("{:?}", obs), replay.clone());
        } else if driver == "Ok" {
            rep.count("driver_ok_after_write_error", 1);
        }
        if !closed {
            rep.violation("C04:transport-left-open-after:write-error", driver.clone(), replay.clone());
        }
        rep.count("write_faults_hit", 1);
    } else {
        rep.count("write_fault_not_reached(request shorter than allowance)", 1);
    }
    rep.distinct("fail_offsets", extra as u64);
    rep.case(Some(fnv(format!("{}{}{}", pending_singles, pending_streams, extra).as_bytes())));
}

pub fn write_errors(ctx: &Ctx) -> Report {
    let n = ctx.n(20_000, 10_000_000);
    par_cases(ctx, "write_errors", n, ctx.secs(15, 300), |i, rng, rep| run_write_case(i, rng, rep))
}

fn run_drop_case(i: u64, rng: &mut Rng, rep: &mut Report) {
    // handles (and streams holding handles) are dropped one after the other; the transport must stay
    // open while any is alive and be closed, with drive() returning, once the last one is gone
    let nclones = rng.usize(4);
    let nstreams = rng.usize(3);
    let finished_ops = rng.usize(3);
    let rt = runtime(rng.next());
    let replay = json!({"lane":"handle_drops","case":i});
    let (open_while_alive, closed_after, driver, ops_ok) = rt.block_on(async move {
        let c = connect();
        let mut server = c.server;
        let sh = server.sh.clone();
        let closed = move || {
            let s = sh.lock().unwrap();
            s.client_shutdown || s.client_dropped
        };
        // answering server: deletes get a reply, searches stay open
        let srv = tokio::spawn(async move {
            let tx = server.tx();
            while let Some(w) = server.request().await {
                if let Ok(m) = w.msg {
                    if matches!(m.op, Req::Del(_)) {
                        tx.send(&ber::encode_min(&resp_node(m.id, &Resp::Del(Res::ok("ok")), None)));
                    }
                }
            }
        });
        let mut main = c.ldap;
        let mut ops_ok = true;
        for k in 0..finished_ops {
            ops_ok &= matches!(world::watchdog(main.delete(&format!("op={}", k))).await, Ok(Ok(_)));
        }
        let mut holders: Vec<Box<dyn std::any::Any>> = vec![];
        for _ in 0..nclones {
            holders.push(Box::new(main.clone()));
        }
        for k in 0..nstreams {
            let base = format!("op={}", 100 + k);
            if let Ok(Ok(st)) = world::watchdog(main.streaming_search(&base, Scope::Base, "(a=b)", vec!["*"])).await {
                holders.push(Box::new(st));
            }
        }
        drop(main);
        let mut open_while_alive = true;
        while let Some(h) = holders.pop() {
            settle().await;
            if closed() {
                open_while_alive = false;
            }
            drop(h);
        }
        settle().await;
        let closed_after = closed();
        let driver = match world::watchdog(c.driver).await {
            Ok(Ok(Ok(Ok(())))) => "Ok".to_string(),
            Ok(Ok(Ok(Err(e)))) => format!("Err({})", e),
            Ok(Ok(Err(p))) => format!("Panic({})", p.site()),
            Ok(Err(_)) => "task-died".into(),
            Err(()) => "Hung".into(),
        };
        let closed_final = closed();
        srv.abort();
        (open_while_alive, closed_after || closed_final, driver, ops_ok)
    });
    if !ops_ok {
        rep.violation("C04:operation-failed-on-healthy-connection", "warm-up".to_string(), replay.clone());
    }
    if !open_while_alive {
        rep.violation("C04:transport-closed-while-a-handle-is-still-alive", format!("clones {} streams {}", nclones, nstreams), replay.clone());
    }
    if driver == "Hung" {
        rep.violation("C04:driver-never-returns-after:last-handle-dropped", format!("clones {} streams {}", nclones, nstreams), replay.clone());
    } else if driver != "Ok" {
        rep.violation("C04:driver-fails-after:last-handle-dropped", driver.clone(), replay.clone());
    }
    if !closed_after {
        rep.violation("C04:transport-left-open-after:last-handle-dropped", driver.clone(), replay.clone());
    }
    rep.count("handles_and_streams_dropped", (nclones + nstreams + 1) as u64);
    rep.case(Some(fnv(format!("{}{}{}", nclones, nstreams, finished_ops).as_bytes())));
}

pub fn handle_drops(ctx: &Ctx) -> Report {
    let n = ctx.n(10_000, 5_000_000);
    par_cases(ctx, "handle_drops", n, ctx.secs(15, 200), |i, rng, rep| run_drop_case(i, rng, rep))
}

pub fn replay(ctx: &Ctx, v: &Value) -> Report {
    let mut rep = Report::new();
    let lane = v["lane"].as_str().unwrap_or("cuts");
    if let Some(i) = v["case"].as_u64() {
        let mut rng = case_rng(ctx.seed, lane, i);
        match lane {
            "cuts" => {
                let sc = gen_scenario(&mut rng);
                let seed = rng.next();
                println!("scenario {:?}", sc);
                let (_, total, _) = run_cut(&sc, 0, seed);
                let cuts: Vec<usize> = match v["cut"].as_u64() {
                    Some(p) => vec![p as usize],
                    None => (0..=total).collect(),
                };
                for p in cuts {
                    let (obs, _, ends) = run_cut(&sc, p, seed.wrapping_add(p as u64));
                    println!("cut {}: {:?}", p, obs);
                    check_cut(&sc, p, &obs, &ends, &mut rep, v);
                }
            }
            "write_errors" => run_write_case(i, &mut rng, &mut rep),
            _ => run_drop_case(i, &mut rng, &mut rep),
        }
    }
    rep
}

// ---------------- collected searches and readers that lag behind the connection loss ----------------

/// `search()` (which collects a whole result) must fail when the connection is lost before the
/// SearchResultDone, and return everything when the Done made it; a streaming reader that only starts
/// reading after the connection has gone must still get every item that had been delivered, then the
/// end (Done delivered) or an error (Done not delivered).
fn run_late_reader_case(i: u64, rng: &mut Rng, rep: &mut Report, verbose: bool) {
    let n = rng.usize(6);
    let done_sent = rng.bool();
    let collect = rng.bool();
    let fault = rng.below(3);
    let adapted = rng.bool();
    // the caller gives up instead of reading: finish() right away on a stream whose connection is gone
    let finish_only = !collect && rng.chance(1, 3);
    let rt = runtime(rng.next());
    let obs = rt.block_on(async move {
        let c = connect();
        let mut ldap = c.ldap;
        let mut server = c.server;
        let client = tokio::spawn(async move {
            if collect {
                match world::watchdog(Caught::new(ldap.search("op=1", Scope::Subtree, "(a=b)", vec!["*"]))).await {
                    Ok(Ok(Ok(r))) => format!("Ok(entries={},rc={},text={})", r.0.len(), r.1.rc, r.1.text),
                    Ok(Ok(Err(e))) => format!("Err({})", world::err_class(&e)),
                    Ok(Err(p)) => format!("Panic({})", p.site()),
                    Err(()) => "Hung".into(),
                }
            } else {
                let adapters: Vec<Box<dyn ldap3::adapters::Adapter<'static, String, Vec<String>>>> = if adapted { vec![Box::new(ldap3::adapters::EntriesOnly::new())] } else { vec![] };
                let mut st = match ldap.streaming_search_with(adapters, "op=1", Scope::Subtree, "(a=b)", vec!["*".to_string()]).await {
                    Ok(s) => s,
                    Err(e) => return format!("start:Err({})", world::err_class(&e)),
                };
                // lag: read only after the server has finished and the connection is gone
                tokio::time::sleep(std::time::Duration::from_millis(500)).await;
                if finish_only {
                    return match world::watchdog(Caught::new(st.finish())).await {
                        Ok(Ok(r)) => format!("FinishOnly(rc={})", r.rc),
                        Ok(Err(p)) => format!("FinishOnly(Panic({}))", p.site()),
                        Err(()) => "FinishOnly(Hung)".into(),
                    };
                }
                let mut k = 0;
                let end = loop {
                    match world::watchdog(Caught::new(st.next())).await {
                        Ok(Ok(Ok(Some(_)))) => k += 1,
                        Ok(Ok(Ok(None))) => break "End".to_string(),
                        Ok(Ok(Err(e))) => break format!("Err({})", world::err_class(&e)),
                        Ok(Err(p)) => break format!("Panic({})", p.site()),
                        Err(()) => break "Hung".to_string(),
                    }
                };
                let r = st.finish().await;
                format!("Stream(items={},{},finish-rc={})", k, end, r.rc)
            }
        });
        let w = server.request().await;
        let id = w.and_then(|w| w.msg.ok()).map(|m| m.id).unwrap_or(1);
        let mut bytes = vec![];
        for k in 0..n {
            bytes.extend_from_slice(&ber::encode_min(&resp_node(id, &Resp::Entry { dn: format!("e={}", k).into_bytes(), attrs: vec![] }, None)));
        }
        if done_sent {
            bytes.extend_from_slice(&ber::encode_min(&resp_node(id, &Resp::Done(Res::ok("t:done")), None)));
        }
        server.send(&bytes);
        settle().await;
        match fault {
            0 => server.eof(),
            1 => server.read_error(ErrorKind::ConnectionReset),
            _ => {
                server.send(&[0x30, 0x03, 0x04, 0x01, 0x41]);
                settle().await;
                server.eof();
            }
        }
        let out = client.await.unwrap_or_else(|_| "task-died".into());
        let _ = world::watchdog(c.driver).await;
        out
    });
    let replay = json!({"lane":"late_readers","case":i,"items":n,"done_sent":done_sent,"collect":collect,"fault":fault,"adapted":adapted});
    let what = if collect { "search()" } else if finish_only { "finish-without-reading" } else if adapted { "lagging-adapted-stream" } else { "lagging-stream" };
    let want = if finish_only {
        // a stream given up before it was read to its end
        "FinishOnly(rc=88)".to_string()
    } else if collect {
        if done_sent { format!("Ok(entries={},rc=0,text=t:done)", n) } else { "Err(".to_string() }
    } else if done_sent {
        format!("Stream(items={},End,finish-rc=0)", n)
    } else {
        format!("Stream(items={},Err(", n)
    };
    if !obs.starts_with(&want) {
        let sig = if obs.contains("Hung") {
            "never-completes"
        } else if obs.contains("Panic") {
            "panics"
        } else if !done_sent && (obs.starts_with("Ok(") || obs.contains(",End,")) {
            "connection-loss-before-the-final-result-reported-as-success"
        } else {
            "delivered-responses-not-returned"
        };
        rep.violation(format!("C04:{}:{}", what, sig), format!("{} entries{} then fault {}: got {} expected {}...", n, if done_sent { " + Done" } else { "" }, fault, obs, want), replay);
    }
    if verbose {
        println!("{} n={} done={} fault={} -> {}", what, n, done_sent, fault, obs);
    }
    rep.count(&format!("cases_{}", what), 1);
    if i < 2 {
        rep.sample(json!({"lane":"late_readers","case":i,"what":what,"items":n,"done_sent":done_sent,"observed":obs}));
    }
    rep.case(Some(fnv(format!("{}{}{}{}{}", n, done_sent, collect, fault, adapted).as_bytes())));
}

pub fn late_readers(ctx: &Ctx) -> Report {
    let n = ctx.n(20_000, 5_000_000);
    par_cases(ctx, "late_readers", n, ctx.secs(20, 300), |i, rng, rep| run_late_reader_case(i, rng, rep, false))
}

// ---------------- unbind while the driver is stuck writing ----------------

/// The peer has stopped reading, the driver is stuck writing an earlier request, and unbind() is
/// called with a timeout that expires before the driver gets to it. Once the peer reads again the
/// unbind must still take effect: UnbindRequest on the wire, transport shut, pending work failed,
/// drive() returns.
fn run_unbind_stall_case(i: u64, rng: &mut Rng, rep: &mut Report, verbose: bool) {
    let pending_before = rng.usize(3);
    let big = 1000 + rng.usize(200_000);
    let unbind_timeout = *rng.pick(&[0u64, 1, 50, 200]);
    let rt = runtime(rng.next());
    let obs = rt.block_on(async move {
        let c = connect();
        let ldap = c.ldap;
        let mut server = c.server;
        let ctl = server.ctl();
        // operations that are already on the wire and unanswered
        let mut waiters = vec![];
        for k in 0..pending_before {
            let l = ldap.clone();
            waiters.push(tokio::spawn(single(l, k)));
            let _ = server.request().await;
        }
        ctl.stall_writes_after(rng_stall(big));
        // a large request the driver gets stuck on
        let mut lx = ldap.clone();
        let x = tokio::spawn(async move {
            match world::watchdog(Caught::new(lx.add(&format!("op=99,cn={}", "x".repeat(big)), vec![("a", std::collections::HashSet::from(["v"]))]))).await {
                Ok(Ok(Ok(_))) => "Ok".to_string(),
                Ok(Ok(Err(e))) => format!("Err({})", world::err_class(&e)),
                Ok(Err(p)) => format!("Panic({})", p.site()),
                Err(()) => "Hung".into(),
            }
        });
        settle().await;
        let mut lu = ldap.clone();
        lu.with_timeout(std::time::Duration::from_millis(unbind_timeout));
        let u = match world::watchdog(Caught::new(lu.unbind())).await {
            Ok(Ok(Ok(()))) => "Ok".to_string(),
            Ok(Ok(Err(e))) => format!("Err({})", world::err_class(&e)),
            Ok(Err(p)) => format!("Panic({})", p.site()),
            Err(()) => "Hung".into(),
        };
        tokio::time::sleep(std::time::Duration::from_millis(300)).await;
        ctl.release_writes();
        // read whatever arrives until the client shuts the transport (or nothing more can happen)
        let mut kinds = vec![];
        loop {
            match world::watchdog(server.request()).await {
                Ok(Some(w)) => kinds.push(w.msg.map(|m| m.op.kind().to_string()).unwrap_or_else(|_| "undecodable".into())),
                Ok(None) => break,
                Err(()) => {
                    kinds.push("SERVER-STILL-WAITING".into());
                    break;
                }
            }
        }
        let shut = server.client_shutdown_called() || server.client_dropped();
        // a server closes the connection when it is told to unbind (or, here, at the latest now)
        server.eof();
        let xo = x.await.unwrap_or_else(|_| "task-died".into());
        let mut wo = vec![];
        for w in waiters {
            wo.push(format!("{:?}", w.await.unwrap_or(Obs::Hung)));
        }
        let d = match world::watchdog(c.driver).await {
            Ok(_) => "returned",
            Err(()) => "Hung",
        };
        drop(ldap);
        (u, kinds, shut, xo, wo, d.to_string())
    });
    let (u, kinds, shut, xo, wo, d) = obs;
    let replay = json!({"lane":"unbind_under_backpressure","case":i});
    let desc = format!("unbind timeout {} ms -> {}; requests seen after the peer resumed reading {:?}; transport shut {}; stuck add {}; earlier operations {:?}; driver {}", unbind_timeout, u, kinds, shut, xo, wo, d);
    if !kinds.iter().any(|k| k == "unbind") {
        rep.violation("C04:unbind-with-expired-timeout:unbind-request-never-sent", desc.clone(), replay.clone());
    }
    if !shut {
        rep.violation("C04:unbind-with-expired-timeout:transport-not-closed", desc.clone(), replay.clone());
    }
    if d == "Hung" {
        rep.violation("C04:unbind-with-expired-timeout:driver-runs-on", desc.clone(), replay.clone());
    }
    if xo == "Hung" || wo.iter().any(|w| w.contains("Hung")) {
        rep.violation("C04:unbind-with-expired-timeout:pending-operation-hangs", desc.clone(), replay.clone());
    }
    if verbose {
        println!("{}", desc);
    }
    rep.count(&format!("unbind_call_{}", u.split('(').next().unwrap_or("?")), 1);
    if i < 2 {
        rep.sample(json!({"lane":"unbind_under_backpressure","case":i,"observed":desc}));
    }
    rep.case(Some(fnv(format!("{}{}{}", pending_before, big, unbind_timeout).as_bytes())));
}

fn rng_stall(big: usize) -> usize {
    // let a part of the large request through, then stall
    big / 3
}

pub fn unbind_under_backpressure(ctx: &Ctx) -> Report {
    let n = ctx.n(4_000, 1_000_000);
    par_cases(ctx, "unbind_under_backpressure", n, ctx.secs(20, 300), |i, rng, rep| run_unbind_stall_case(i, rng, rep, false))
}

// ---------------- malformed responses to pending operations ----------------

/// A frame the client cannot make sense of (well-formed envelope or not) arrives while a bind and a
/// search are pending: every operation future must complete with a value or an error. The workload
/// is C11's (which judges the driver); here the callers are judged.
pub fn malformed_results(ctx: &Ctx) -> Report {
    let n = ctx.n(60_000, 50_000_000);
    par_cases(ctx, "malformed_results", n, ctx.secs(25, 600), |i, rng, rep| {
        let (obs, input, label, _target) = crate::lanes::c11::observe_driver_case(rng, None);
        let replay = json!({"lane":"malformed_results","case":i,"input_hex":ber::hex(&input[..input.len().min(600)])});
        for (who, s) in std::iter::once(("bind", &obs.bind)).chain(obs.stream.iter().map(|s| ("search-stream", s))) {
            if let Some(p) = s.find("Panic(") {
                let site = s[p + 6..].trim_end_matches(')');
                rep.violation(format!("C04:operation-future-panics-on-an-undecodable-response:{}@{}", who, site), format!("frame {} ({}): {} -> {}", ber::hex(&input[..input.len().min(80)]), label, who, s), replay.clone());
            } else if s.contains("Hung") && obs.driver_panic.is_none() {
                rep.violation(format!("C04:operation-never-completes-after-an-undecodable-response:{}", who), format!("frame {} ({}): {} -> {}; driver {}", ber::hex(&input[..input.len().min(80)]), label, who, s, obs.driver), replay.clone());
            }
        }
        let complete = ber::outer_complete(&input).map(|t| t == input.len()).unwrap_or(false);
        if complete && crate::lanes::c11::envelope_class(&input) == "not-an-envelope" && obs.driver_panic.is_none() && !obs.bind_resolved_before_anything_else {
            rep.violation("C04:pending-operation-keeps-waiting-after-an-undecodable-frame", format!("frame {} ({}): complete by its own outer length and not an LDAPMessage, yet the pending bind was still waiting at the next quiescence barrier (it resolved only when more input or the end of the connection arrived: {})", ber::hex(&input[..input.len().min(80)]), label, obs.bind), replay.clone());
        }
        rep.count(&format!("bind_{}", obs.bind.split('(').next().unwrap_or("?")), 1);
        if i < 2 {
            rep.sample(json!({"lane":"malformed_results","case":i,"frame_hex":ber::hex(&input[..input.len().min(80)]),"kind":label,"bind":obs.bind,"stream":obs.stream,"driver":obs.driver}));
        }
        rep.case(Some(fnv(&input)));
    })
}

// ---------------- real transports (TCP and Unix sockets) ----------------

/// The in-memory transport exercises the driver, but closing is dispatched per transport type.
/// This lane repeats the "unbind / last handle dropped / server closes" scenarios on real
/// loopback TCP and Unix-socket connections and watches for EOF on the server side.
async fn real_scenario(unix: bool, scenario: u8, guard_s: u64) -> Result<(), String> {
    use tokio::io::{AsyncReadExt, AsyncWriteExt};
    use tokio::net::{TcpListener, UnixStream as TUnix};
    use std::time::Duration;
    // server side: answers every bind/delete, records EOF
    async fn serve<S: tokio::io::AsyncRead + tokio::io::AsyncWrite + Unpin>(mut s: S, close_after_first: bool) -> (bool, usize) {
        let mut buf: Vec<u8> = vec![];
        let mut tmp = [0u8; 4096];
        let mut nreq = 0;
        loop {
            while let Some(t) = ber::outer_complete(&buf) {
                let raw: Vec<u8> = buf.drain(..t).collect();
                nreq += 1;
                if let Ok(m) = crate::msg::decode_request(&raw) {
                    if let Some(r) = crate::msg::reply_for(&m.op, Res::ok("ok")) {
                        let _ = s.write_all(&ber::encode_min(&resp_node(m.id, &r, None))).await;
                    }
                    if close_after_first {
                        return (false, nreq);
                    }
                }
            }
            match s.read(&mut tmp).await {
                Ok(0) => return (true, nreq),
                Err(_) => return (true, nreq),
                Ok(n) => buf.extend_from_slice(&tmp[..n]),
            }
        }
    }
    let close_after_first = scenario == 2;
    let (conn, mut ldap, srv) = if unix {
        let (a, b) = std::os::unix::net::UnixStream::pair().map_err(|e| e.to_string())?;
        b.set_nonblocking(true).map_err(|e| e.to_string())?;
        let b = TUnix::from_std(b).map_err(|e| e.to_string())?;
        let srv = tokio::spawn(serve(b, close_after_first));
        let (c, l) = ldap3::LdapConnAsync::with_settings(ldap3::LdapConnSettings::new().set_std_stream(ldap3::StdStream::Unix(a)), "ldapi:///").await.map_err(|e| format!("setup: {}", e))?;
        (c, l, srv)
    } else {
        let l = TcpListener::bind("127.0.0.1:0").await.map_err(|e| e.to_string())?;
        let port = l.local_addr().unwrap().port();
        let srv = tokio::spawn(async move {
            match l.accept().await {
                Ok((s, _)) => serve(s, close_after_first).await,
                Err(_) => (false, 0),
            }
        });
        let (c, l) = ldap3::LdapConnAsync::new(&format!("ldap://127.0.0.1:{}", port)).await.map_err(|e| format!("setup: {}", e))?;
        (c, l, srv)
    };
    let drv = tokio::spawn(async move { conn.drive().await.map_err(|e| e.to_string()) });
    let guard = Duration::from_secs(guard_s);
    let t = |what: &str| format!("TIMEOUT:{}", what);
    // a round trip first
    tokio::time::timeout(guard, ldap.simple_bind("cn=x", "y")).await.map_err(|_| t("bind"))?.map_err(|e| format!("bind failed: {}", e))?;
    match scenario {
        0 => {
            // unbind while the handle stays alive: the server must see EOF, a later op must fail
            tokio::time::timeout(guard, ldap.unbind()).await.map_err(|_| t("unbind"))?.map_err(|e| format!("unbind failed: {}", e))?;
            let (eof, _) = tokio::time::timeout(guard, srv).await.map_err(|_| "NO-EOF-AFTER-UNBIND".to_string())?.map_err(|e| e.to_string())?;
            if !eof {
                return Err("server did not see EOF after unbind".into());
            }
            match tokio::time::timeout(guard, ldap.delete("cn=later")).await {
                Err(_) => return Err("LATER-OP-HANGS-AFTER-UNBIND".into()),
                Ok(Ok(_)) => return Err("LATER-OP-SUCCEEDS-AFTER-UNBIND".into()),
                Ok(Err(_)) => {}
            }
            tokio::time::timeout(guard, drv).await.map_err(|_| "DRIVER-RUNS-ON-AFTER-UNBIND".to_string())?.map_err(|e| e.to_string())?.ok();
        }
        1 => {
            // last handle dropped
            drop(ldap);
            let (eof, _) = tokio::time::timeout(guard, srv).await.map_err(|_| "NO-EOF-AFTER-LAST-HANDLE-DROPPED".to_string())?.map_err(|e| e.to_string())?;
            if !eof {
                return Err("server did not see EOF after the last handle was dropped".into());
            }
            tokio::time::timeout(guard, drv).await.map_err(|_| "DRIVER-RUNS-ON-AFTER-LAST-HANDLE-DROPPED".to_string())?.map_err(|e| e.to_string())?.map_err(|e| format!("driver failed after drop: {}", e))?;
        }
        _ => {
            // the server answered the bind and closed: the next op must fail, the driver must end
            match tokio::time::timeout(guard, ldap.delete("cn=after-close")).await {
                Err(_) => return Err("OP-HANGS-AFTER-SERVER-CLOSE".into()),
                Ok(Ok(_)) => return Err("OP-SUCCEEDS-AFTER-SERVER-CLOSE".into()),
                Ok(Err(_)) => {}
            }
            tokio::time::timeout(guard, drv).await.map_err(|_| "DRIVER-RUNS-ON-AFTER-SERVER-CLOSE".to_string())?.map_err(|e| e.to_string())?.ok();
        }
    }
    Ok(())
}

/// Connection loss while the one operation of StartTLS establishment is pending: the establishing
/// call must return an error (no connection timeout is configured, so nothing else bounds it).
pub const STARTTLS_KINDS: [&str; 7] = [
    "server-closes-before-reading",
    "server-closes-after-the-request",
    "response-for-an-unknown-id-then-close",
    "unsolicited-notice-then-close",
    "half-a-response-then-close",
    "unsolicited-notice-then-refusal",
    "response-for-an-unknown-id-then-refusal",
];

async fn starttls_scenario(kind: usize, guard_s: u64) -> Result<(), String> {
    use std::time::Duration;
    use tokio::io::{AsyncReadExt, AsyncWriteExt};
    use tokio::net::TcpListener;
    let l = TcpListener::bind("127.0.0.1:0").await.map_err(|e| format!("setup: {}", e))?;
    let port = l.local_addr().map_err(|e| format!("setup: {}", e))?.port();
    let srv = tokio::spawn(async move {
        let (mut s, _) = match l.accept().await {
            Ok(x) => x,
            Err(_) => return,
        };
        if kind == 0 {
            return;
        }
        let mut buf: Vec<u8> = vec![];
        let mut tmp = [0u8; 1024];
        let id = loop {
            if let Some(t) = ber::outer_complete(&buf) {
                match crate::msg::decode_request(&buf[..t]) {
                    Ok(m) => break m.id,
                    Err(_) => return,
                }
            }
            match s.read(&mut tmp).await {
                Ok(0) | Err(_) => return,
                Ok(n) => buf.extend_from_slice(&tmp[..n]),
            }
        };
        let ext = |id: i64, rc: u32| ber::encode_min(&resp_node(id, &Resp::Extended { res: Res::code(rc, "x"), name: None, value: None }, None));
        match kind {
            1 => {}
            2 => {
                let _ = s.write_all(&ext(id + 1000, 0)).await;
            }
            3 => {
                let _ = s.write_all(&ext(0, 52)).await;
            }
            4 => {
                let b = ext(id, 0);
                let _ = s.write_all(&b[..b.len() / 2]).await;
            }
            5 => {
                let _ = s.write_all(&ext(0, 52)).await;
                tokio::time::sleep(Duration::from_millis(50)).await;
                let _ = s.write_all(&ext(id, 2)).await;
                // stay around: only the refusal may end the establishment
                tokio::time::sleep(Duration::from_secs(guard_s + 2)).await;
            }
            _ => {
                let _ = s.write_all(&ext(id + 1000, 0)).await;
                tokio::time::sleep(Duration::from_millis(50)).await;
                let _ = s.write_all(&ext(id, 2)).await;
                tokio::time::sleep(Duration::from_secs(guard_s + 2)).await;
            }
        }
        let _ = s.flush().await;
        tokio::time::sleep(Duration::from_millis(100)).await;
    });
    let settings = ldap3::LdapConnSettings::new().set_starttls(true).set_no_tls_verify(true);
    let url = format!("ldap://127.0.0.1:{}", port);
    let res = tokio::time::timeout(Duration::from_secs(guard_s), ldap3::LdapConnAsync::with_settings(settings, &url)).await;
    srv.abort();
    match res {
        Err(_) => Err("ESTABLISHMENT-HANGS".into()),
        Ok(Ok(_)) => Err("establishment succeeded although StartTLS never succeeded".into()),
        Ok(Err(_)) => Ok(()),
    }
}

pub fn real_transports(ctx: &Ctx) -> Report {
    let mut rep = Report::new();
    let rt = tokio::runtime::Builder::new_multi_thread().worker_threads(2).enable_all().build().expect("rt");
    let reps = if ctx.tiny { 1 } else { ctx.n(3, 40) };
    for r in 0..reps {
        for unix in [false, true] {
            for scenario in 0..3u8 {
                let name = format!("{}:{}", if unix { "unix-socket" } else { "tcp" }, ["unbind-with-handle-kept", "last-handle-dropped", "server-closes"][scenario as usize]);
                let replay = json!({"lane":"real_transports","unix":unix,"scenario":scenario});
                // a wall-clock expiry is only believed if a second, much longer attempt expires too
                let mut res = rt.block_on(real_scenario(unix, scenario, 8));
                if let Err(e) = &res {
                    if e.chars().all(|c| c.is_ascii_uppercase() || c == '-' || c == ':') || e.starts_with("TIMEOUT") {
                        let second = rt.block_on(real_scenario(unix, scenario, 40));
                        if second.is_ok() {
                            rep.inconclusive(format!("{}: first attempt expired on the wall clock ({}), the retry passed", name, e));
                            continue;
                        }
                        res = second;
                    }
                }
                match res {
                    Ok(()) => rep.count(&format!("ok_{}", name), 1),
                    Err(e) if e.starts_with("setup:") => rep.inconclusive(format!("{}: {}", name, e)),
                    Err(e) => rep.violation(format!("C04:real-transport:{}:{}", name, e.split(':').next().unwrap_or("?").to_lowercase()), format!("{}: {}", name, e), replay),
                }
                rep.case(Some(fnv(format!("{}{}", name, r).as_bytes())));
            }
        }
    }
    // StartTLS establishment losing its connection (TCP only; the handshake itself is never reached)
    let mut hung: Vec<usize> = vec![];
    for r in 0..reps {
        for kind in 0..STARTTLS_KINDS.len() {
            if hung.contains(&kind) {
                // already established twice over (8 s, then 40 s alone); don't spend another minute per repetition
                continue;
            }
            let name = format!("starttls-establishment:{}", STARTTLS_KINDS[kind]);
            let replay = json!({"lane":"real_transports","starttls_kind":kind});
            let mut res = rt.block_on(starttls_scenario(kind, 8));
            if matches!(&res, Err(e) if e == "ESTABLISHMENT-HANGS") {
                let second = rt.block_on(starttls_scenario(kind, 40));
                if second.is_ok() {
                    rep.inconclusive(format!("{}: first attempt expired on the wall clock, the retry passed", name));
                    continue;
                }
                res = second;
            }
            match res {
                Ok(()) => rep.count(&format!("ok_{}", name), 1),
                Err(e) if e.starts_with("setup:") => rep.inconclusive(format!("{}: {}", name, e)),
                Err(e) if e == "ESTABLISHMENT-HANGS" => {
                    hung.push(kind);
                    rep.violation(format!("C04:real-transport:{}:establishment-hangs", name), format!("{}: LdapConnAsync::with_settings (StartTLS, no connection timeout) still pending after 8 s and, alone, after 40 s", name), replay)
                }
                Err(e) => rep.violation(format!("C04:real-transport:{}:establishment-succeeds", name), format!("{}: {}", name, e), replay),
            }
            rep.case(Some(fnv(format!("{}{}", name, r).as_bytes())));
        }
    }
    rt.shutdown_background();
    rep.sample(json!({"lane":"real_transports","starttls_establishment_kinds":STARTTLS_KINDS,"transports":["tcp loopback","unix socket pair (StdStream::Unix)"],"scenarios":["unbind with the handle kept alive","last handle dropped","server closes after a reply"]}));
    rep
}

// ---------------- a Search abandoned while its stream is still being read ----------------

/// Every search stream completes: a Search abandoned through another handle while its stream is
/// Active (the server honours the Abandon by sending nothing more, and stays connected) must wake
/// its reader with an error instead of leaving next() waiting; other work goes on.
pub fn abandoned_streams(ctx: &Ctx) -> Report {
    use crate::world::{invoke, Call};
    let n = ctx.n(3_000, 1_000_000);
    par_cases(ctx, "abandoned_streams", n, ctx.secs(10, 200), |i, rng, rep| {
        let sent = rng.usize(5);
        let read = rng.usize(sent + 1);
        let adapted = rng.bool();
        let reader_waiting = rng.bool();
        let rt = runtime(rng.next());
        let (after, other, drv) = rt.block_on(async move {
            let c = connect();
            let ldap = c.ldap;
            let mut server = c.server;
            let srv = tokio::spawn(async move {
                while let Some(w) = server.request().await {
                    if let Ok(m) = w.msg {
                        match &m.op {
                            crate::msg::Req::Search { .. } => {
                                let mut bytes = vec![];
                                for k in 0..sent {
                                    bytes.extend_from_slice(&ber::encode_min(&resp_node(m.id, &Resp::Entry { dn: format!("e={}", k).into_bytes(), attrs: vec![] }, None)));
                                }
                                server.send(&bytes);
                            }
                            // the Abandon is honoured: nothing more for that Search, no answer to the Abandon
                            crate::msg::Req::Abandon(_) => {}
                            op => {
                                if let Some(r) = crate::msg::reply_for(op, Res::ok("t:other")) {
                                    server.send(&ber::encode_min(&resp_node(m.id, &r, None)));
                                }
                            }
                        }
                    }
                }
            });
            let mut l = ldap.clone();
            let st = if adapted {
                let ad: Vec<Box<dyn ldap3::adapters::Adapter<'static, &str, Vec<&str>>>> = vec![Box::new(ldap3::adapters::EntriesOnly::new())];
                l.streaming_search_with(ad, "op=1", ldap3::Scope::Subtree, "(a=b)", vec!["*"]).await
            } else {
                l.streaming_search("op=1", ldap3::Scope::Subtree, "(a=b)", vec!["*"]).await
            };
            let mut st = match st {
                Ok(s) => s,
                Err(e) => return (vec![format!("START:{}", world::err_class(&e))], String::new(), String::new()),
            };
            for _ in 0..read {
                let _ = world::watchdog(st.next()).await;
            }
            let id = st.ldap_handle().last_id();
            let mut la = ldap.clone();
            let mut after: Vec<String> = vec![];
            if reader_waiting {
                // the reader is already waiting in next() when the Abandon goes out
                let reader = tokio::spawn(async move {
                    let mut log = vec![];
                    for _ in 0..sent + 2 {
                        match world::watchdog(st.next()).await {
                            Ok(Ok(Some(_))) => log.push("item".to_string()),
                            Ok(Ok(None)) => {
                                log.push("END:Ok(None)".into());
                                break;
                            }
                            Ok(Err(e)) => {
                                log.push(format!("END:Err({})", world::err_class(&e)));
                                break;
                            }
                            Err(()) => {
                                log.push("END:Hung".into());
                                break;
                            }
                        }
                    }
                    let r = st.finish().await;
                    log.push(format!("FINISH:rc={}", r.rc));
                    log
                });
                world::settle().await;
                let _ = invoke(&mut la, &Call::Abandon(id)).await;
                after = reader.await.unwrap_or_default();
            } else {
                let _ = invoke(&mut la, &Call::Abandon(id)).await;
                world::settle().await;
                for _ in 0..sent + 2 {
                    match world::watchdog(st.next()).await {
                        Ok(Ok(Some(_))) => after.push("item".to_string()),
                        Ok(Ok(None)) => {
                            after.push("END:Ok(None)".into());
                            break;
                        }
                        Ok(Err(e)) => {
                            after.push(format!("END:Err({})", world::err_class(&e)));
                            break;
                        }
                        Err(()) => {
                            after.push("END:Hung".into());
                            break;
                        }
                    }
                }
                let r = st.finish().await;
                after.push(format!("FINISH:rc={}", r.rc));
                drop(st);
            }
            let mut lo = ldap.clone();
            let other = match world::watchdog(invoke(&mut lo, &Call::Delete { dn: "op=2".into() })).await {
                Ok(o) => o.class(),
                Err(()) => "Hung".into(),
            };
            drop(ldap);
            drop(l);
            drop(la);
            drop(lo);
            let _ = srv.await;
            (after, other, format!("{:?}", c.driver.await))
        });
        let replay = json!({"lane":"abandoned_streams","case":i});
        let kind = if adapted { "behind-entries-only" } else { "direct" };
        if after.iter().any(|s| s == "END:Hung") {
            rep.violation(format!("C04:abandoned-search-stream-never-ends:{}{}", kind, if reader_waiting { ":reader-waiting-in-next()" } else { "" }), format!("{} of {} items read, then Abandon from another handle, server silent afterwards: {:?}", read, sent, after), replay.clone());
        } else if !after.iter().any(|s| s.starts_with("END:")) {
            rep.violation(format!("C04:abandoned-search-stream-does-not-end:{}", kind), format!("{:?}", after), replay.clone());
        }
        if other != "Ok" {
            rep.violation("C04:operation-after-an-abandon-does-not-complete", format!("{}; driver {}", other, drv), replay.clone());
        }
        if !drv.starts_with("Ok(Ok(Ok(") {
            rep.violation("C04:driver-does-not-end-cleanly-after-an-abandon", drv.clone(), replay);
        }
        rep.count(&format!("abandoned_stream_{}", kind), 1);
        rep.case(Some(fnv(format!("{}{}{}{}", sent, read, adapted, reader_waiting).as_bytes())));
    })
}
