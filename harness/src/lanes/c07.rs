//! C07 — BER encode/parse inverse, canonical encoding.
use crate::ber::{self, Enc, Node};
use crate::conv::{from_lber, lber_encode, to_lber};
use crate::prng::{fnv, Rng};
use crate::report::{case_rng, guarded, par_cases, Ctx, Report};
use lber::common::TagClass;
use lber::structures::{ASNTag, Boolean, Enumerated, Integer, Tag};
use serde_json::{json, Value};

fn gen_payload(rng: &mut Rng, big: bool) -> Vec<u8> {
    let len = if big {
        *rng.pick(&[65535usize, 65536, 65537, (1 << 24) - 1, 1 << 24, (1 << 24) + 1])
    } else {
        rng.len_biased(400)
    };
    if len > 70000 {
        // content irrelevant at this size, keep generation cheap
        let mut v = vec![0xA5u8; len];
        v[0] = rng.next() as u8;
        v[len - 1] = rng.next() as u8;
        v
    } else {
        rng.bytes(len)
    }
}

pub fn gen_tree(rng: &mut Rng, depth: usize, big: bool) -> Node {
    let class = rng.below(4) as u8;
    let tag = rng.below(31) as u8;
    if depth == 0 || rng.chance(2, 5) {
        let b = big && rng.chance(1, 2);
        Node::P { class, tag, data: gen_payload(rng, b) }
    } else {
        let n = match rng.below(6) {
            0 => 0,
            1 => 1,
            2 => 2,
            3 => 3,
            4 => rng.usize(8),
            _ => rng.usize(40),
        };
        let mut kids = Vec::new();
        for i in 0..n {
            kids.push(gen_tree(rng, depth - 1, big && i == 0));
        }
        Node::C { class, tag, kids }
    }
}

fn fp_bytes(b: &[u8]) -> u64 {
    if b.len() <= 256 {
        fnv(b)
    } else {
        fnv(&b[..128]) ^ fnv(&b[b.len() - 64..]) ^ (b.len() as u64).wrapping_mul(0x9E3779B97F4A7C15)
    }
}

fn check_tree(tree: &Node, trailer: &[u8], rep: &mut Report, replay: Value) -> Option<u64> {
    // encode with lber
    let enc = match guarded(|| lber_encode(to_lber(tree))) {
        Ok(e) => e,
        Err(p) => {
            rep.violation(format!("C07:encode:panic@{}", p.site()), format!("{:?}", p), replay);
            return None;
        }
    };
    // (c) canonical: equals the reference minimal definite encoding byte for byte
    let reference = ber::encode_min(tree);
    if enc != reference {
        // classify
        let sig = match ber::decode_exact(&enc) {
            Ok((n, st)) => {
                if &n != tree {
                    "C07:encode:decodes-to-different-tree"
                } else if !st.all_minimal {
                    "C07:encode:non-minimal-length"
                } else {
                    "C07:encode:bytes-differ"
                }
            }
            Err(_) => "C07:encode:output-not-valid-BER",
        };
        rep.violation(sig, format!("lber={} ref={}", ber::hex(&enc[..enc.len().min(64)]), ber::hex(&reference[..reference.len().min(64)])), replay.clone());
    }
    // (b) parse(encode(t) ++ trailer) == (trailer, t)
    let mut input = enc.clone();
    input.extend_from_slice(trailer);
    match guarded(|| lber::parse::parse_tag(&input).map(|(r, t)| (r.to_vec(), t))) {
        Ok(Ok((rest, t))) => {
            if rest != trailer {
                rep.violation("C07:parse:trailing-bytes-disturbed", format!("rest {} vs trailer {}", rest.len(), trailer.len()), replay.clone());
            }
            if &from_lber(&t) != tree {
                rep.violation("C07:parse:roundtrip-tree-differs", format!("input {}", ber::hex(&input[..input.len().min(64)])), replay.clone());
            }
        }
        Ok(Err(e)) => {
            rep.violation("C07:parse:rejects-own-encoding", format!("{:?}", e.map(|e| e.code)), replay.clone());
        }
        Err(p) => {
            rep.violation(format!("C07:parse:panic@{}", p.site()), format!("{:?}", p), replay.clone());
        }
    }
    Some(fp_bytes(&enc))
}

pub fn trees(ctx: &Ctx) -> Report {
    let n = ctx.n(150_000, 50_000_000);
    let mut rep = par_cases(ctx, "trees", n, ctx.secs(20, 400), |i, rng, rep| {
        let big = i % 500 == 499 && !ctx.tiny;
        let depth = 1 + rng.usize(if ctx.tiny { 3 } else { 6 });
        let tree = gen_tree(rng, depth, big);
        let tl = rng.len_biased(20);
        let trailer = rng.bytes(tl);
        let fp = check_tree(&tree, &trailer, rep, json!({"lane":"trees","case":i}));
        if i < 2 {
            rep.sample(json!({"lane":"trees","case":i,"tree":format!("{:?}", tree).chars().take(300).collect::<String>(),"trailer_len":trailer.len()}));
        }
        rep.max("max_depth", tree.depth() as u64);
        if big {
            rep.count("big_payload_cases", 1);
        }
        rep.case(fp);
    });
    // length-form boundaries, exhaustively on both sides, primitive and constructed
    let mut b = Report::new();
    for &len in &[0usize, 1, 126, 127, 128, 129, 254, 255, 256, 257, 65534, 65535, 65536, 65537, (1 << 24) - 1, 1 << 24, (1 << 24) + 1] {
        if ctx.tiny && len > 300 {
            continue;
        }
        for cons in [false, true] {
            let tree = if cons {
                // a constructed node whose body has exactly `len` bytes
                if len < 2 {
                    if len == 0 { Node::C { class: 0, tag: 16, kids: vec![] } } else { continue }
                } else {
                    // child header size depends on child payload length; search for a fit
                    let mut found = None;
                    for hl in [2usize, 3, 4, 5, 6] {
                        if len < hl { continue; }
                        let child = Node::P { class: 0, tag: 4, data: vec![0x5a; len - hl] };
                        if ber::encode_min(&child).len() == len {
                            found = Some(child);
                            break;
                        }
                    }
                    match found {
                        Some(c) => Node::C { class: 2, tag: 3, kids: vec![c] },
                        None => {
                            // two children
                            let c1 = Node::P { class: 0, tag: 4, data: vec![] };
                            let rest = len - 2;
                            let mut f2 = None;
                            for hl in [2usize, 3, 4, 5, 6] {
                                if rest < hl { continue; }
                                let child = Node::P { class: 0, tag: 4, data: vec![0x5a; rest - hl] };
                                if ber::encode_min(&child).len() == rest { f2 = Some(child); break; }
                            }
                            match f2 { Some(c2) => Node::C { class: 2, tag: 3, kids: vec![c1, c2] }, None => continue }
                        }
                    }
                }
            } else {
                Node::P { class: 1, tag: 30, data: vec![0xc3; len] }
            };
            let fp = check_tree(&tree, b"\x30\x00", &mut b, json!({"lane":"trees","boundary_len":len,"cons":cons}));
            b.count("boundary_cases", 1);
            b.case(fp);
        }
    }
    // every class x tag x P/C identifier octet
    for class in 0..4u8 {
        for tag in 0..31u8 {
            for cons in [false, true] {
                let tree = if cons { Node::C { class, tag, kids: vec![Node::P { class: 0, tag: 5, data: vec![] }] } } else { Node::P { class, tag, data: vec![1, 2, 3] } };
                let fp = check_tree(&tree, &[], &mut b, json!({"lane":"trees","ident":[class,tag,cons]}));
                b.count("identifier_cases", 1);
                b.case(fp);
            }
        }
    }
    b.exhaustive.push("all 4x31x2 identifier octets; payload/body lengths on both sides of the 1/2/3/4-octet boundaries".into());
    rep.merge(b);
    rep
}

fn check_int(v: i64, rep: &mut Report) {
    let want = ber::int_content(v);
    for (kind, is_enum) in [("integer", false), ("enumerated", true)] {
        let r = guarded(|| {
            if is_enum {
                Tag::Enumerated(Enumerated { inner: v, ..Default::default() }).into_structure()
            } else {
                Tag::Integer(Integer { inner: v, ..Default::default() }).into_structure()
            }
        });
        match r {
            Err(p) => {
                let cat = if v == i64::MIN { "i64-min" } else if v < 0 { "negative" } else { "non-negative" };
                rep.violation(format!("C07:{}:panic:{}", kind, cat), format!("value {} panicked: {:?}", v, p), json!({"lane":"integers","value":v.to_string()}));
            }
            Ok(st) => {
                let got = crate::conv::from_lber(&st);
                let (data, tag_ok) = match &got {
                    Node::P { class: 0, tag, data } => (data.clone(), *tag == if is_enum { 10 } else { 2 }),
                    _ => (vec![], false),
                };
                if !tag_ok {
                    rep.violation(format!("C07:{}:wrong-identifier", kind), format!("{:?}", got), json!({"lane":"integers","value":v.to_string()}));
                }
                if data != want {
                    let back = ber::int_value(&data);
                    let cat = if back == Some(v) {
                        "non-minimal"
                    } else if v == i64::MIN {
                        "wrong-value:i64-min"
                    } else if v < 0 {
                        "wrong-value:negative"
                    } else {
                        "wrong-value:non-negative"
                    };
                    rep.violation(
                        format!("C07:{}:content:{}", kind, cat),
                        format!("value {} encoded as {} (decodes to {:?}), shortest two's complement is {}", v, ber::hex(&data), back, ber::hex(&want)),
                        json!({"lane":"integers","value":v.to_string()}),
                    );
                }
                // and through the encoder + parser
                let bytes = lber_encode(st);
                match lber::parse::parse_tag(&bytes) {
                    Ok((rest, t)) => {
                        if !rest.is_empty() || crate::conv::from_lber(&t) != got {
                            rep.violation(format!("C07:{}:reparse-differs", kind), format!("value {}", v), json!({"lane":"integers","value":v.to_string()}));
                        }
                    }
                    Err(_) => rep.violation(format!("C07:{}:reparse-fails", kind), format!("value {}", v), json!({"lane":"integers","value":v.to_string()})),
                }
            }
        }
    }
    rep.case(Some(v as u64));
}

pub fn integers(ctx: &Ctx) -> Report {
    let mut rep = Report::new();
    // exhaustive band around zero (covers the 1/2/3-octet boundaries on both signs)
    let band: i64 = if ctx.tiny { 300 } else { 70_000 };
    for v in -band..=band {
        check_int(v, &mut rep);
    }
    rep.exhaustive.push(format!("all integers in -{}..={}", band, band));
    // every power of two +-1, both signs, extremes
    for k in 0..=63u32 {
        let p: i128 = 1i128 << k;
        for d in [-2i128, -1, 0, 1, 2] {
            for s in [1i128, -1] {
                let v = s * (p + d);
                if v >= i64::MIN as i128 && v <= i64::MAX as i128 {
                    check_int(v as i64, &mut rep);
                    rep.count("power_of_two_neighbourhood", 1);
                }
            }
        }
    }
    check_int(i64::MIN, &mut rep);
    check_int(i64::MAX, &mut rep);
    // booleans
    for v in [true, false] {
        let st = Tag::Boolean(Boolean { inner: v, ..Default::default() }).into_structure();
        let want = Node::P { class: 0, tag: 1, data: vec![if v { 0xff } else { 0 }] };
        if crate::conv::from_lber(&st) != want {
            rep.violation("C07:boolean:content", format!("{} -> {:?}", v, st), json!({"lane":"integers","boolean":v}));
        }
        let st2 = Tag::Boolean(Boolean { inner: v, class: TagClass::Context, id: 4 }).into_structure();
        let want2 = Node::P { class: 2, tag: 4, data: vec![if v { 0xff } else { 0 }] };
        if crate::conv::from_lber(&st2) != want2 {
            rep.violation("C07:boolean:content", format!("ctx {} -> {:?}", v, st2), json!({"lane":"integers","boolean":v}));
        }
        rep.case(Some(0xb001 + v as u64));
    }
    // random 64-bit values with random bit widths
    let n = ctx.n(2_000_000, 500_000_000);
    let r = par_cases(ctx, "integers", n, ctx.secs(10, 120), |_i, rng, rep| {
        let bits = 1 + rng.below(64) as u32;
        let mut v = rng.next();
        if bits < 64 {
            v &= (1u64 << bits) - 1;
        }
        let mut v = v as i64;
        if rng.bool() {
            v = v.wrapping_neg();
        }
        check_int(v, rep);
    });
    rep.merge(r);
    rep.sample(json!({"lane":"integers","value":-129,"reference_content":ber::hex(&ber::int_content(-129))}));
    rep.sample(json!({"lane":"integers","value":i64::MIN.to_string(),"reference_content":ber::hex(&ber::int_content(i64::MIN))}));
    rep
}

/// Valid definite-length BER with non-minimal length octets must parse to the reference tree.
pub fn nonminimal(ctx: &Ctx) -> Report {
    let n = ctx.n(150_000, 50_000_000);
    par_cases(ctx, "nonminimal", n, ctx.secs(15, 300), |i, rng, rep| {
        let depth = 1 + rng.usize(if ctx.tiny { 3 } else { 5 });
        let tree = gen_tree(rng, depth, false);
        let mut er = rng.fork();
        let bytes = Enc::random(&mut er).to_vec(&tree);
        let tl = rng.len_biased(12);
        let trailer = rng.bytes(tl);
        // reference decoder agrees with the generator (self-check of the model)
        match ber::decode_exact(&bytes) {
            Ok((n, st)) => {
                if n != tree {
                    rep.harness_error("reference decoder disagrees with reference encoder");
                    return;
                }
                if !st.all_minimal {
                    rep.count("cases_with_nonminimal_length", 1);
                }
            }
            Err(e) => {
                rep.harness_error(format!("reference decoder rejects reference encoding: {:?}", e));
                return;
            }
        }
        let mut input = bytes.clone();
        input.extend_from_slice(&trailer);
        let replay = json!({"lane":"nonminimal","case":i});
        match guarded(|| lber::parse::parse_tag(&input).map(|(r, t)| (r.to_vec(), t))) {
            Ok(Ok((rest, t))) => {
                if rest != trailer {
                    rep.violation("C07:parse-nonminimal:trailing-bytes-disturbed", ber::hex(&input[..input.len().min(48)]), replay.clone());
                }
                if from_lber(&t) != tree {
                    rep.violation("C07:parse-nonminimal:tree-differs-from-reference", ber::hex(&input[..input.len().min(48)]), replay);
                }
            }
            Ok(Err(e)) => rep.violation("C07:parse-nonminimal:rejected", format!("{:?} input {}", e.map(|e| e.code), ber::hex(&input[..input.len().min(48)])), replay),
            Err(p) => rep.violation(format!("C07:parse-nonminimal:panic@{}", p.site()), format!("{:?}", p), replay),
        }
        if i < 2 {
            rep.sample(json!({"lane":"nonminimal","case":i,"bytes":ber::hex(&bytes[..bytes.len().min(80)])}));
        }
        rep.case(Some(fp_bytes(&bytes)));
    })
}

// ---------------- trees built from the typed constructors ----------------

fn class_of(c: u8) -> TagClass {
    match c {
        0 => TagClass::Universal,
        1 => TagClass::Application,
        2 => TagClass::Context,
        _ => TagClass::Private,
    }
}

/// A random tree of lber's typed values (Sequence, Set, OctetString, Boolean, Null, Integer, Enumerated,
/// ExplicitTag) with arbitrary class and tag number, and the reference tree it denotes. Children of a
/// constructed value are sometimes repeated verbatim: a SET OF with equal members is still that many
/// members on the wire.
fn gen_typed(rng: &mut Rng, depth: usize) -> (Tag, Node) {
    use lber::structures::{ExplicitTag, Null, OctetString, Sequence, Set};
    let class = rng.below(4) as u8;
    let id = rng.below(31);
    let kind = if depth == 0 { 2 + rng.below(5) } else { rng.below(8) };
    match kind {
        0 | 1 => {
            let n = match rng.below(5) {
                0 => 0,
                1 => 1,
                _ => rng.usize(6),
            };
            let mut tags = vec![];
            let mut nodes = vec![];
            for _ in 0..n {
                let (t, nd) = gen_typed(rng, depth - 1);
                tags.push(t.clone());
                nodes.push(nd.clone());
                if rng.chance(1, 3) {
                    tags.push(t);
                    nodes.push(nd);
                }
            }
            let node = Node::C { class, tag: id as u8, kids: nodes };
            if kind == 0 {
                (Tag::Sequence(Sequence { id, class: class_of(class), inner: tags }), node)
            } else {
                (Tag::Set(Set { id, class: class_of(class), inner: tags }), node)
            }
        }
        2 => {
            let data = rng.bytes(rng.clone().usize(40));
            (Tag::OctetString(OctetString { id, class: class_of(class), inner: data.clone() }), Node::P { class, tag: id as u8, data })
        }
        3 => {
            let v = rng.bool();
            (Tag::Boolean(Boolean { id, class: class_of(class), inner: v }), Node::P { class, tag: id as u8, data: vec![if v { 0xff } else { 0 }] })
        }
        4 => (Tag::Null(Null { id, class: class_of(class), inner: () }), Node::P { class, tag: id as u8, data: vec![] }),
        5 => {
            let v = match rng.below(3) {
                0 => rng.below(300) as i64 - 150,
                1 => rng.next() as i64,
                _ => -(rng.below(1 << 40) as i64),
            };
            (Tag::Integer(Integer { id, class: class_of(class), inner: v }), Node::P { class, tag: id as u8, data: ber::int_content(v) })
        }
        6 => {
            let v = rng.below(70000) as i64 - 35000;
            (Tag::Enumerated(Enumerated { id, class: class_of(class), inner: v }), Node::P { class, tag: id as u8, data: ber::int_content(v) })
        }
        _ => {
            let (t, nd) = gen_typed(rng, depth - 1);
            (Tag::ExplicitTag(ExplicitTag { id, class: class_of(class), inner: Box::new(t) }), Node::C { class, tag: id as u8, kids: vec![nd] })
        }
    }
}

pub fn typed_trees(ctx: &Ctx) -> Report {
    use lber::structures::{SequenceOf, SetOf};
    let n = ctx.n(200_000, 500_000_000);
    par_cases(ctx, "typed_trees", n, ctx.secs(20, 600), |i, rng, rep| {
        let replay = json!({"lane":"typed_trees","case":i});
        let (tag, node) = if i % 5 == 4 {
            // SET OF / SEQUENCE OF with a run of equal members
            let v = rng.below(1000) as i64;
            let k = 1 + rng.usize(5);
            let members: Vec<Integer> = (0..k).map(|j| Integer { inner: if rng.chance(2, 3) { v } else { v + j as i64 }, ..Default::default() }).collect();
            let kids: Vec<Node> = members.iter().map(|m| Node::P { class: 0, tag: 2, data: ber::int_content(m.inner) }).collect();
            if rng.bool() {
                (Tag::StructureTag(SetOf { inner: members, ..Default::default() }.into_structure()), Node::C { class: 0, tag: 17, kids })
            } else {
                (Tag::StructureTag(SequenceOf { inner: members, ..Default::default() }.into_structure()), Node::C { class: 0, tag: 16, kids })
            }
        } else {
            gen_typed(rng, 1 + rng.clone().usize(if ctx.tiny { 2 } else { 4 }))
        };
        let enc = match guarded(|| lber_encode(tag.clone().into_structure())) {
            Ok(e) => e,
            Err(p) => {
                rep.violation(format!("C07:typed:encode:panic@{}", p.site()), format!("{:?}", tag).chars().take(300).collect::<String>(), replay);
                return;
            }
        };
        let reference = ber::encode_min(&node);
        if enc != reference {
            let sig = match ber::decode_exact(&enc) {
                Ok((n, _)) if n != node => "C07:typed:encode:decodes-to-different-tree",
                Ok(_) => "C07:typed:encode:bytes-differ",
                Err(_) => "C07:typed:encode:output-not-valid-BER",
            };
            rep.violation(sig, format!("value {} lber={} ref={}", format!("{:?}", tag).chars().take(200).collect::<String>(), ber::hex(&enc[..enc.len().min(64)]), ber::hex(&reference[..reference.len().min(64)])), replay.clone());
        }
        match guarded(|| lber::parse::parse_tag(&enc).map(|(r, t)| (r.len(), t))) {
            Ok(Ok((rest, t))) => {
                if rest != 0 || from_lber(&t) != node {
                    rep.violation("C07:typed:parse:roundtrip-tree-differs", format!("value {}", format!("{:?}", tag).chars().take(200).collect::<String>()), replay.clone());
                }
            }
            Ok(Err(_)) => rep.violation("C07:typed:parse:rejects-own-encoding", format!("enc {}", ber::hex(&enc[..enc.len().min(64)])), replay.clone()),
            Err(p) => rep.violation(format!("C07:typed:parse:panic@{}", p.site()), format!("enc {}", ber::hex(&enc[..enc.len().min(64)])), replay.clone()),
        }
        if i < 2 {
            rep.sample(json!({"lane":"typed_trees","case":i,"value":format!("{:?}", tag).chars().take(200).collect::<String>(),"encoding":ber::hex(&enc[..enc.len().min(48)])}));
        }
        rep.case(Some(fp_bytes(&enc)));
    })
}

pub fn replay(ctx: &Ctx, v: &Value) -> Report {
    let mut rep = Report::new();
    match v["lane"].as_str().unwrap_or("") {
        "integers" => {
            if let Some(s) = v["value"].as_str() {
                if let Ok(x) = s.parse::<i64>() {
                    check_int(x, &mut rep);
                }
            }
        }
        "trees" => {
            if let Some(i) = v["case"].as_u64() {
                let mut rng = case_rng(ctx.seed, "trees", i);
                let big = i % 500 == 499;
                let depth = 1 + rng.usize(6);
                let tree = gen_tree(&mut rng, depth, big);
                let tl = rng.len_biased(20);
                let trailer = rng.bytes(tl);
                let fp = check_tree(&tree, &trailer, &mut rep, v.clone());
                rep.case(fp);
            }
        }
        _ => {}
    }
    rep
}
