//! C06 — message framing does not depend on how the byte stream is segmented.
use crate::ber::{self, Enc, Node};
use crate::conv::from_lber;
use crate::lanes::c03::expect_ctrls;
use crate::msg::{resp_node, Req, Res, Resp, RespCtl};
use crate::prng::{fnv, Rng};
use crate::report::{case_rng, guarded, par_cases, Ctx, Report};
use crate::world::{self, connect, ctls_out, item_out, runtime, settle};
use bytes::BytesMut;
use ldap3::Scope;
use lber::structures::Tag;
use serde_json::{json, Value};
use std::sync::{Arc, Mutex};

fn payload(rng: &mut Rng, big: bool) -> Vec<u8> {
    let n = if big {
        *rng.pick(&[8100usize, 8192, 8193, 16384, 65535, 65536, 70000, 300_000])
    } else {
        *rng.pick(&[0usize, 0, 1, 5, 100, 120, 126, 127, 128, 129, 255, 256, 1000])
    };
    let mut v = vec![0x61u8; n];
    for (i, b) in v.iter_mut().enumerate().take(64) {
        *b = (i as u8) ^ (rng.next() as u8);
    }
    v
}

/// A response message for search `id`, number k, of a random kind and size.
fn gen_item(rng: &mut Rng, id: i64, k: usize, big: bool) -> (Resp, Option<Vec<RespCtl>>) {
    let r = match rng.below(8) {
        0 => Resp::Intermediate { name: None, value: None }, // 7-byte message
        1 => Resp::Intermediate { name: Some("1.2.3".into()), value: Some(format!("i:{}:{}", id, k).into_bytes()) },
        2 => Resp::Reference(vec![format!("ldap://r/{}.{}", id, k)]),
        // a wide message: one attribute with thousands of short values, or more than a thousand attributes
        3 if big => {
            let n = 1025 + rng.usize(3000);
            if rng.bool() {
                Resp::Entry { dn: format!("e={}.{}", id, k).into_bytes(), attrs: vec![(b"member".to_vec(), (0..n).map(|j| format!("u{}", j).into_bytes()).collect())] }
            } else {
                Resp::Entry { dn: format!("e={}.{}", id, k).into_bytes(), attrs: (0..n).map(|j| (format!("a{}", j).into_bytes(), vec![b"v".to_vec()])).collect() }
            }
        }
        _ => Resp::Entry { dn: format!("e={}.{}", id, k).into_bytes(), attrs: if rng.bool() { vec![(b"a".to_vec(), vec![payload(rng, big)])] } else { vec![] } },
    };
    let c = if rng.chance(1, 4) { crate::gen::gen_resp_controls(rng) } else { None };
    (r, c)
}

fn encode(rng: &mut Rng, id: i64, r: &Resp, c: &Option<Vec<RespCtl>>) -> Vec<u8> {
    let node = resp_node(id, r, c.as_deref());
    if rng.bool() {
        ber::encode_min(&node)
    } else {
        let mut er = rng.fork();
        Enc::random(&mut er).to_vec(&node)
    }
}

// ---------------- decoder lane (hook H4) ----------------

fn decode_once(buf: &mut BytesMut) -> Result<Result<Option<(i32, Node, Vec<world::CtlOut>)>, String>, crate::report::PanicInfo> {
    guarded(|| match ldap3::verif_decode(buf) {
        Ok(Some((id, (tag, ctrls)))) => {
            let node = match tag {
                Tag::StructureTag(st) => from_lber(&st),
                _ => Node::P { class: 0, tag: 5, data: vec![] },
            };
            Ok(Some((id, node, ctls_out(&ctrls))))
        }
        Ok(None) => Ok(None),
        Err(e) => Err(e.to_string()),
    })
}

pub fn decoder_prefixes(ctx: &Ctx) -> Report {
    let n = ctx.n(30_000, 10_000_000);
    par_cases(ctx, "decoder_prefixes", n, ctx.secs(25, 400), |i, rng, rep| {
        let id = 1 + rng.below(i32::MAX as u64 - 1) as i64;
        let big = rng.chance(1, 40);
        let (r, c) = gen_item(rng, id, 0, big);
        let bytes = encode(rng, id, &r, &c);
        let replay = json!({"lane":"decoder_prefixes","case":i});
        // every proper prefix (sampled stride for very large messages, but always the header region and the tail)
        let len = bytes.len();
        let mut cuts: Vec<usize> = if len <= 3000 { (0..len).collect() } else { (0..64).chain((64..len).step_by(997)).chain(len - 64..len).collect() };
        cuts.dedup();
        for &p in &cuts {
            let mut buf = BytesMut::from(&bytes[..p]);
            match decode_once(&mut buf) {
                Ok(Ok(None)) => {
                    if &buf[..] != &bytes[..p] {
                        rep.violation("C06:decoder:buffer-modified-on-incomplete-frame", format!("prefix {} of {}", p, len), replay.clone());
                    }
                }
                Ok(Ok(Some(_))) => rep.violation("C06:decoder:message-surfaced-before-last-byte", format!("prefix {} of {}: {}", p, len, ber::hex(&bytes[..len.min(40)])), replay.clone()),
                Ok(Err(e)) => {
                    let region = prefix_region(&bytes, p);
                    rep.violation(format!("C06:decoder:error-on-proper-prefix:{}", region), format!("prefix {} of {} ({}): {}", p, len, ber::hex(&bytes[..len.min(24)]), e), replay.clone());
                }
                Err(pn) => rep.violation(format!("C06:decoder:panic@{}", pn.site()), format!("prefix {} of {}", p, len), replay.clone()),
            }
            rep.count("prefixes_checked", 1);
        }
        // full message + trailer (the start of the next message, or arbitrary bytes)
        let tl = rng.len_biased(30);
        let trailer = if rng.bool() { rng.bytes(tl) } else { let (r2, c2) = gen_item(rng, id, 1, false); let b = encode(rng, id, &r2, &c2); b[..b.len().min(tl)].to_vec() };
        let mut full = bytes.clone();
        full.extend_from_slice(&trailer);
        let mut buf = BytesMut::from(&full[..]);
        match decode_once(&mut buf) {
            Ok(Ok(Some((gid, node, ctrls)))) => {
                if &buf[..] != &trailer[..] {
                    rep.violation("C06:decoder:consumed-wrong-number-of-bytes", format!("left {} bytes, trailer {} bytes", buf.len(), trailer.len()), replay.clone());
                }
                if gid as i64 != id || node != r.op_node() || ctrls != expect_ctrls(&c) {
                    rep.violation("C06:decoder:decoded-message-differs", format!("id {} vs {}", gid, id), replay.clone());
                }
            }
            other => rep.violation("C06:decoder:complete-message-not-delivered", format!("{:?}", other.map(|r| r.map(|o| o.is_some()))), replay.clone()),
        }
        if i < 2 {
            rep.sample(json!({"lane":"decoder_prefixes","case":i,"message_hex":ber::hex(&bytes[..len.min(60)]),"len":len,"prefixes":cuts.len()}));
        }
        rep.max("max_message_len", len as u64);
        rep.case(Some(fnv(&bytes[..len.min(2048)]) ^ len as u64));
    })
}

fn prefix_region(bytes: &[u8], p: usize) -> &'static str {
    match ber::header(bytes) {
        Ok((_, _, _, hl, _, _)) => {
            if p < 2 {
                "in-identifier-or-first-length-octet"
            } else if p < hl {
                "inside-length-octets"
            } else {
                "inside-body"
            }
        }
        Err(_) => "?",
    }
}

// ---------------- connection lane ----------------

#[derive(Clone, Debug)]
enum Partition {
    Bytewise,
    Single,
    /// one split at this offset of the concatenation
    SplitAt(usize),
    /// two splits
    SplitAt2(usize, usize),
    Random,
    /// chunks of a fixed size
    Fixed(usize),
}

fn cuts_for(p: &Partition, total: usize, rng: &mut Rng) -> Vec<usize> {
    // returns ascending cut offsets in (0,total)
    let mut v = match p {
        Partition::Bytewise => (1..total).collect(),
        Partition::Single => vec![],
        Partition::SplitAt(a) => vec![*a],
        Partition::SplitAt2(a, b) => vec![*a, *b],
        Partition::Fixed(n) => (1..).map(|k| k * n).take_while(|&x| x < total).collect(),
        Partition::Random => {
            let k = 1 + rng.usize(12);
            (0..k).map(|_| 1 + rng.usize(total.max(2) - 1)).collect()
        }
    };
    v.retain(|&x| x > 0 && x < total);
    v.sort();
    v.dedup();
    v
}

/// Deliver `msgs` (one search's items then Done) under the partition; after every chunk pass a
/// quiescence barrier and compare the number of items the client holds with the number of
/// messages completely sent.
fn deliver(msgs: &[Vec<u8>], expect: &[String], part: &Partition, rng: &mut Rng, rep: &mut Report, replay: &Value, sig_extra: &str) -> bool {
    deliver_opt(msgs, expect, part, rng, rep, replay, sig_extra, false)
}

/// `busy`: while the stream's bytes arrive, a second handle keeps issuing operations (answered at once),
/// so that the driver's other ready events compete with the incoming frames.
fn deliver_opt(msgs: &[Vec<u8>], expect: &[String], part: &Partition, rng: &mut Rng, rep: &mut Report, replay: &Value, sig_extra: &str, busy: bool) -> bool {
    // messages addressed to nobody (ID 0 / unknown ID) are recognised by their marker bytes
    let is_item: Vec<bool> = msgs.iter().map(|m| !contains(m, b"NOBODY")).collect();
    let total: usize = msgs.iter().map(|m| m.len()).sum();
    let mut ends = vec![];
    let mut acc = 0;
    for (m, item) in msgs.iter().zip(&is_item) {
        acc += m.len();
        if *item {
            ends.push(acc);
        }
    }
    let cuts = cuts_for(part, total, rng);
    let all: Vec<u8> = msgs.concat();
    // offsets at which one message ends and the next begins: only there may other traffic be inserted
    let mut boundaries: std::collections::HashSet<usize> = std::collections::HashSet::new();
    boundaries.insert(0);
    let mut bacc = 0;
    for m in msgs.iter() {
        bacc += m.len();
        boundaries.insert(bacc);
    }
    let rt = runtime(rng.next());
    let expect_v = expect.to_vec();
    let ends_in = ends.clone();
    let n_barriers = cuts.len() + 1;
    let check_every = if n_barriers > 400 { n_barriers / 200 } else { 1 };
    let (timeline, final_items, finish) = rt.block_on(async move {
        let c = connect();
        let mut ldap = c.ldap;
        let mut server = c.server;
        let got: Arc<Mutex<Vec<String>>> = Arc::new(Mutex::new(vec![]));
        let got2 = got.clone();
        let stop = Arc::new(std::sync::atomic::AtomicBool::new(false));
        let go = Arc::new(tokio::sync::Notify::new());
        let busy_task = if busy {
            let mut lb = ldap.clone();
            let stop2 = stop.clone();
            let go2 = go.clone();
            Some(tokio::spawn(async move {
                // the search goes first: the scripted messages are encoded for message ID 1
                go2.notified().await;
                let mut n = 0u64;
                while !stop2.load(std::sync::atomic::Ordering::SeqCst) {
                    match world::watchdog(lb.delete(&format!("op=busy{}", n))).await {
                        Ok(Ok(_)) => n += 1,
                        _ => break,
                    }
                }
                n
            }))
        } else {
            None
        };
        let client = tokio::spawn(async move {
            let mut st = match ldap.streaming_search("op=1", Scope::Subtree, "(a=b)", vec!["*"]).await {
                Ok(s) => s,
                Err(e) => return format!("start failed: {}", e),
            };
            loop {
                match st.next().await {
                    Ok(Some(e)) => got2.lock().unwrap().push(describe(&item_out(&e))),
                    Ok(None) => break,
                    Err(e) => return format!("next failed: {}", e),
                }
            }
            let r = st.finish().await;
            format!("rc={} text={}", r.rc, r.text)
        });
        // wait for the search request (the second handle's operations may come first)
        loop {
            match server.request().await {
                Some(w) => match &w.msg {
                    Ok(m) if matches!(m.op, Req::Search { .. }) => break,
                    Ok(m) => {
                        if let Some(r) = crate::msg::reply_for(&m.op, Res::ok("busy")) {
                            server.send(&ber::encode_min(&resp_node(m.id, &r, None)));
                        }
                    }
                    Err(_) => break,
                },
                None => break,
            }
        }
        go.notify_one();
        settle().await;
        let mut timeline: Vec<(usize, usize)> = vec![]; // (bytes sent, items held) at barriers
        let mut off = 0;
        let mut points = cuts.clone();
        points.push(all.len());
        for (bi, &p) in points.iter().enumerate() {
            // answers for the second handle's operations travel with the stream's bytes (between messages)
            while let Some(w) = if boundaries.contains(&off) { server.try_request() } else { None } {
                if let Ok(m) = &w.msg {
                    if let Some(r) = crate::msg::reply_for(&m.op, Res::ok("busy")) {
                        server.send(&ber::encode_min(&resp_node(m.id, &r, None)));
                    }
                }
            }
            server.send(&all[off..p]);
            off = p;
            if bi % check_every == 0 || bi + 1 == points.len() || ends_in.contains(&p) || ends_in.contains(&(p + 1)) {
                settle().await;
                timeline.push((p, got.lock().unwrap().len()));
            }
        }
        let mut client = client;
        let finish = match world::watchdog(&mut client).await {
            Ok(r) => r.unwrap_or_else(|_| "client panicked".into()),
            Err(()) => {
                // the reader can never complete: stop it so that its handle does not keep the driver alive
                client.abort();
                "HUNG".into()
            }
        };
        stop.store(true, std::sync::atomic::Ordering::SeqCst);
        if let Some(b) = busy_task {
            // let its last operation finish
            while let Some(w) = server.try_request() {
                if let Ok(m) = &w.msg {
                    if let Some(r) = crate::msg::reply_for(&m.op, Res::ok("busy")) {
                        server.send(&ber::encode_min(&resp_node(m.id, &r, None)));
                    }
                }
            }
            settle().await;
            while let Some(w) = server.try_request() {
                if let Ok(m) = &w.msg {
                    if let Some(r) = crate::msg::reply_for(&m.op, Res::ok("busy")) {
                        server.send(&ber::encode_min(&resp_node(m.id, &r, None)));
                    }
                }
            }
            b.abort();
        }
        server.eof();
        let _ = world::watchdog(c.driver).await;
        let f = got.lock().unwrap().clone();
        let _ = expect_v;
        (timeline, f, finish)
    });
    let mut ok = true;
    let n_items = is_item.iter().filter(|x| **x).count() - 1; // last is Done
    for (sent, held) in &timeline {
        let complete = ends.iter().filter(|&&e| e <= *sent).count().min(n_items);
        if *held > complete {
            rep.violation(format!("C06:message-surfaced-before-its-last-byte{}", sig_extra), format!("after {} bytes {} items held but only {} messages complete; partition {:?}", sent, held, complete, short(part)), replay.clone());
            ok = false;
        } else if *held < complete {
            rep.violation(format!("C06:complete-message-withheld{}", sig_extra), format!("after {} bytes and a quiescence barrier {} items held but {} messages complete; partition {:?}", sent, held, complete, short(part)), replay.clone());
            ok = false;
        }
    }
    if final_items != expect {
        let sig = if final_items.len() != expect.len() { "item-count-differs" } else { "items-differ" };
        rep.violation(format!("C06:delivered-sequence-depends-on-segmentation:{}{}", sig, sig_extra), format!("partition {:?}: got {} items, expected {}; finish {}", short(part), final_items.len(), expect.len(), finish), replay.clone());
        ok = false;
    }
    if !finish.starts_with("rc=0 text=done") {
        rep.violation(format!("C06:stream-did-not-complete{}", sig_extra), format!("partition {:?}: {}", short(part), finish), replay.clone());
        ok = false;
    }
    rep.count("barriers_checked", timeline.len() as u64);
    ok
}

fn contains(hay: &[u8], needle: &[u8]) -> bool {
    hay.windows(needle.len()).any(|w| w == needle)
}

fn short(p: &Partition) -> String {
    format!("{:?}", p)
}

fn describe(it: &world::ItemOut) -> String {
    format!("{:x}:{}", fnv(format!("{:?}", it).as_bytes()), match &it.node { Node::C { tag, .. } => *tag, _ => 0 })
}

fn expected_items(plan: &[(Resp, Option<Vec<RespCtl>>)]) -> Vec<String> {
    plan.iter()
        .map(|(m, c)| describe(&world::ItemOut { node: m.op_node(), ctrls: expect_ctrls(c), is_ref: matches!(m, Resp::Reference(_)), is_intermediate: matches!(m, Resp::Intermediate { .. }) }))
        .collect()
}

/// A well-formed message for nobody: unsolicited notification (ID 0) or a response to an unknown ID.
fn nobody(rng: &mut Rng) -> Vec<u8> {
    let id = if rng.bool() { 0 } else { 1_000_000 + rng.below(1000) as i64 };
    let r = if rng.bool() {
        Resp::Extended { res: Res::code(52, "NOBODY"), name: Some("1.3.6.1.4.1.1466.20036".into()), value: None }
    } else {
        Resp::Entry { dn: b"NOBODY".to_vec(), attrs: vec![] }
    };
    encode(rng, id, &r, &None)
}

fn gen_sequence(rng: &mut Rng, max_msgs: usize, allow_big: bool) -> (Vec<Vec<u8>>, Vec<String>) {
    let n = 1 + rng.usize(max_msgs);
    let mut plan = vec![];
    for k in 0..n {
        let big = allow_big && rng.chance(1, 6);
        plan.push(gen_item(rng, 1, k, big));
    }
    let mut msgs: Vec<Vec<u8>> = vec![];
    for (r, c) in &plan {
        if rng.chance(1, 6) {
            msgs.push(nobody(rng));
        }
        msgs.push(encode(rng, 1, r, c));
    }
    if rng.chance(1, 4) {
        msgs.push(nobody(rng));
    }
    msgs.push(ber::encode_min(&resp_node(1, &Resp::Done(Res::ok("done")), None)));
    (msgs, expected_items(&plan))
}

/// Random sequences under the standard partitions.
pub fn partitions(ctx: &Ctx) -> Report {
    let n = ctx.n(6_000, 2_000_000);
    par_cases(ctx, "partitions", n, ctx.secs(30, 600), |i, rng, rep| {
        let (msgs, expect) = gen_sequence(rng, if ctx.tiny { 4 } else { 30 }, !ctx.tiny);
        let total: usize = msgs.iter().map(|m| m.len()).sum();
        let replay = json!({"lane":"partitions","case":i});
        let mut parts = vec![Partition::Single, Partition::Random, Partition::Random, Partition::Fixed(*rng.pick(&[2usize, 3, 7, 8191, 8192, 8193, 4096]))];
        if total <= if ctx.tiny { 300 } else { 6000 } {
            parts.push(Partition::Bytewise);
        }
        let busy = i % 3 == 2;
        for p in &parts {
            deliver_opt(&msgs, &expect, p, rng, rep, &replay, if busy { ":busy-connection" } else { "" }, busy);
            rep.distinct("partitions", fnv(format!("{:?}{}", p, i).as_bytes()));
        }
        if busy {
            rep.count("sequences_delivered_while_another_handle_is_busy", 1);
        }
        if i < 2 {
            rep.sample(json!({"lane":"partitions","case":i,"messages":msgs.len(),"total_bytes":total,"sizes":msgs.iter().map(|m| m.len()).take(12).collect::<Vec<_>>(),"partitions":parts.iter().map(short).collect::<Vec<_>>()}));
        }
        rep.max("max_total_bytes", total as u64);
        rep.count("messages_delivered", (msgs.len() * parts.len()) as u64);
        rep.case(Some(fnv(&msgs.concat()[..total.min(4096)]) ^ total as u64));
    })
}

/// Long bursts: one search answered with thousands of small messages, written at once or in pieces.
/// What the client receives may not depend on how fast the bytes arrive relative to the reader
/// (a queue between driver and stream that overflows would make it so).
pub fn bursts(ctx: &Ctx) -> Report {
    let n = ctx.n(24, 3000);
    par_cases(ctx, "bursts", n, ctx.secs(30, 600), |i, rng, rep| {
        let count = if ctx.tiny { 40 } else { 1100 + rng.usize(5000) };
        let mut plan = vec![];
        for k in 0..count {
            let r = match rng.below(12) {
                0 => Resp::Reference(vec![format!("ldap://r{}/", k)]),
                1 => Resp::Intermediate { name: Some(format!("1.2.3.{}", k)), value: None },
                _ => Resp::Entry { dn: format!("e={}", k).into_bytes(), attrs: vec![] },
            };
            plan.push((r, None));
        }
        let mut msgs: Vec<Vec<u8>> = plan.iter().map(|(r, c)| encode(rng, 1, r, c)).collect();
        msgs.push(ber::encode_min(&resp_node(1, &Resp::Done(Res::ok("done")), None)));
        let expect = expected_items(&plan);
        let total: usize = msgs.iter().map(|m| m.len()).sum();
        let replay = json!({"lane":"bursts","case":i});
        let parts = [Partition::Single, Partition::Fixed(*rng.pick(&[701usize, 8192, 65536])), Partition::Random];
        for p in &parts {
            deliver(&msgs, &expect, p, rng, rep, &replay, ":long-burst");
        }
        // the same burst followed at once by the end of the connection, with a reader that only then
        // starts reading: everything had arrived, so everything is delivered
        if i % 2 == 0 {
            let all: Vec<u8> = msgs.concat();
            let want = expect.len();
            let rt = runtime(rng.next());
            let (got, fin) = rt.block_on(async move {
                let c = connect();
                let mut ldap = c.ldap;
                let mut server = c.server;
                let client = tokio::spawn(async move {
                    let mut st = match ldap.streaming_search("op=1", Scope::Subtree, "(a=b)", vec!["*"]).await {
                        Ok(s) => s,
                        Err(e) => return (0usize, format!("start failed: {}", e)),
                    };
                    tokio::time::sleep(std::time::Duration::from_millis(500)).await;
                    let mut n = 0;
                    loop {
                        match world::watchdog(st.next()).await {
                            Ok(Ok(Some(_))) => n += 1,
                            Ok(Ok(None)) => break,
                            Ok(Err(e)) => return (n, format!("next failed: {}", e)),
                            Err(()) => return (n, "HUNG".into()),
                        }
                    }
                    let r = st.finish().await;
                    (n, format!("rc={} text={}", r.rc, r.text))
                });
                let _ = server.request().await;
                server.send(&all);
                server.eof();
                let out = client.await.unwrap_or((0, "client died".into()));
                let _ = world::watchdog(c.driver).await;
                out
            });
            if got != want || !fin.starts_with("rc=0 text=done") {
                rep.violation("C06:burst-followed-by-eof:arrived-messages-not-delivered", format!("{} messages and the final result arrived in one piece, then the connection ended; a reader starting afterwards got {} items, {}", want, got, fin), replay.clone());
            }
            rep.count("bursts_followed_by_eof_checked", 1);
        }
        // one message larger than a megabyte in front of ordinary ones, cut near its header
        if i % 8 == 1 && !ctx.tiny {
            let big = 1_048_576 + rng.usize(3_000_000);
            let plan: Vec<(Resp, Option<Vec<RespCtl>>)> = vec![
                (Resp::Entry { dn: b"e=big".to_vec(), attrs: vec![(b"a".to_vec(), vec![vec![0x5a; big]])] }, None),
                (Resp::Entry { dn: b"e=small".to_vec(), attrs: vec![] }, None),
            ];
            let mut hm: Vec<Vec<u8>> = plan.iter().map(|(r, c)| encode(rng, 1, r, c)).collect();
            hm.push(ber::encode_min(&resp_node(1, &Resp::Done(Res::ok("done")), None)));
            let he = expected_items(&plan);
            for p in [Partition::Single, Partition::SplitAt(1 + rng.usize(8)), Partition::SplitAt(1 + rng.usize(8)), Partition::Fixed(8192), Partition::SplitAt(8000)] {
                deliver(&hm, &he, &p, rng, rep, &replay, ":message-over-a-megabyte");
            }
            rep.max("max_message_bytes", big as u64);
        }
        rep.max("max_messages_in_one_burst", count as u64);
        rep.max("max_total_bytes", total as u64);
        rep.count("messages_delivered", (msgs.len() * parts.len()) as u64);
        if i < 1 {
            rep.sample(json!({"lane":"bursts","case":i,"messages":msgs.len(),"total_bytes":total,"partitions":parts.iter().map(short).collect::<Vec<_>>()}));
        }
        rep.case(Some(fnv(&msgs.concat()[..4096.min(total)]) ^ total as u64));
    })
}

/// Every single split point (and, for short sequences, every pair) of a sequence's byte stream.
pub fn exhaustive_splits(ctx: &Ctx) -> Report {
    let n = ctx.n(400, 100_000);
    let mut rep = par_cases(ctx, "exhaustive_splits", n, ctx.secs(40, 600), |i, rng, rep| {
        let pairs = i % 4 == 0;
        let (msgs, expect) = gen_sequence(rng, if pairs { 2 } else { 4 }, false);
        let total: usize = msgs.iter().map(|m| m.len()).sum();
        if total > 700 || (pairs && total > 64) {
            // keep the exhaustive space bounded; such sequences are covered by `partitions`
            rep.count("skipped_too_long_for_exhaustive", 1);
            return;
        }
        let replay = json!({"lane":"exhaustive_splits","case":i});
        for a in 1..total {
            deliver(&msgs, &expect, &Partition::SplitAt(a), rng, rep, &replay, "");
            rep.count("single_splits", 1);
            if pairs {
                for b in a + 1..total {
                    deliver(&msgs, &expect, &Partition::SplitAt2(a, b), rng, rep, &replay, "");
                    rep.count("double_splits", 1);
                }
            }
        }
        rep.case(Some(fnv(&msgs.concat()) ^ total as u64));
    });
    rep.exhaustive.push("every single split point of each generated sequence (<=700 bytes) and every pair of split points for sequences <=64 bytes".into());
    rep.sample(json!({"lane":"exhaustive_splits","note":"each split is its own connection; after each chunk a quiescence barrier compares items held with messages completely sent"}));
    rep
}

pub fn replay(ctx: &Ctx, v: &Value) -> Report {
    let mut rep = Report::new();
    let lane = v["lane"].as_str().unwrap_or("partitions").to_string();
    if let Some(i) = v["case"].as_u64() {
        let mut rng = case_rng(ctx.seed, &lane, i);
        if lane == "partitions" {
            let (msgs, expect) = gen_sequence(&mut rng, 30, true);
            let parts = vec![Partition::Single, Partition::Random, Partition::Random, Partition::Bytewise];
            for p in &parts {
                let ok = deliver(&msgs, &expect, p, &mut rng, &mut rep, v, "");
                println!("partition {:?}: {}", p, if ok { "ok" } else { "VIOLATION" });
            }
        }
    }
    rep
}

/// Two searches share the connection and the reader of one gives up; whether the rest of both results
/// arrives in the same burst as the first part or in a later one, the other search is delivered the
/// same complete sequence.
pub fn given_up_neighbour(ctx: &Ctx) -> Report {
    let n = ctx.n(4_000, 2_000_000);
    par_cases(ctx, "given_up_neighbour", n, ctx.secs(10, 200), |i, rng, rep| {
        let o = crate::lanes::c10::dropped_neighbour_case(rng);
        let replay = json!({"lane":"given_up_neighbour","case":i});
        if o.b != o.b_expected {
            rep.violation(
                format!("C06:complete-messages-not-delivered:search-next-to-a-given-up-search:{}", if o.split { "rest-in-a-later-segment" } else { "one-segment" }),
                format!("{}: want {:?} got {:?}; driver {}", o.how, o.b_expected, o.b, o.driver),
                replay,
            );
        }
        rep.count(if o.split { "neighbour_rest_in_a_later_segment" } else { "neighbour_one_segment" }, 1);
        rep.case(Some(fnv(format!("{}{}{}", o.how, o.split, o.b_expected.len()).as_bytes())));
    })
}
