//! Lane registry: property id -> lanes.
use crate::report::{Ctx, Report};
use serde_json::{json, Value};

pub mod c01;
pub mod c02;
pub mod c03;
pub mod c04;
pub mod c05;
pub mod c06;
pub mod c07;
pub mod c08;
pub mod c09;
pub mod c10;
pub mod c11;
pub mod c12;
pub mod c13;
pub mod c14;
pub mod c15;
pub mod c16;
pub mod c17;
pub mod c18;
pub mod c19;
pub mod c20;
pub mod starttls;

type LaneFn = fn(&Ctx) -> Report;

pub fn lanes_of(id: &str) -> Vec<(&'static str, LaneFn)> {
    match id {
        "C01" => vec![("routing", c01::routing), ("hostile_ids", c01::hostile_ids), ("abandoned", c01::abandoned), ("routing_threads", c01::routing_threads), ("nested_searches", c01::nested_searches), ("stale_requests", c01::stale_requests), ("starttls_strays", c01::starttls_strays), ("dropped_neighbour", c01::dropped_neighbour)],
        "C02" => vec![("requests", c02::requests), ("modifiers", c02::modifiers), ("composed_requests", c02::composed_requests), ("cloned_handles", c02::cloned_handles)],
        "C03" => vec![("responses", c03::responses), ("helpers", c03::helpers), ("paged_results", c03::paged_results), ("starttls_results", c03::starttls_results), ("odd_result_codes", c03::odd_result_codes)],
        "C04" => vec![("cuts", c04::cuts), ("write_errors", c04::write_errors), ("handle_drops", c04::handle_drops), ("real_transports", c04::real_transports), ("paged_connection_loss", c16::paging_faults), ("malformed_results", c04::malformed_results), ("late_readers", c04::late_readers), ("unbind_under_backpressure", c04::unbind_under_backpressure), ("abandoned_streams", c04::abandoned_streams)],
        "C05" => vec![("wrap", c05::wrap), ("threads", c05::threads), ("boundaries", c05::boundaries)],
        "C06" => vec![("decoder_prefixes", c06::decoder_prefixes), ("partitions", c06::partitions), ("exhaustive_splits", c06::exhaustive_splits), ("bursts", c06::bursts), ("given_up_neighbour", c06::given_up_neighbour)],
        "C07" => vec![("trees", c07::trees), ("integers", c07::integers), ("nonminimal", c07::nonminimal), ("typed_trees", c07::typed_trees)],
        "C08" => vec![("generated", c08::generated), ("exhaustive", c08::exhaustive), ("mutated", c08::mutated), ("rejection", c08::rejection_classes)],
        "C09" => vec![("exhaustive_short", c09::exhaustive_short), ("exhaustive_meta", c09::exhaustive_meta), ("random", c09::random)],
        "C10" => vec![("streams", c10::streams), ("search_collect", c10::search_collect), ("sync_streams", c10::sync_streams), ("paged_early_finish", c10::paged_early_finish), ("dropped_neighbour", c10::dropped_neighbour), ("lagging_reader", c10::lagging_reader), ("paged_final_result", c10::paged_final_result)],
        "C11" => vec![("decoder", c11::decoder), ("driver", c11::driver), ("stack", c11::stack), ("starttls_garbage", c11::starttls_garbage), ("idle_connection", c11::idle_connection)],
        "C12" => vec![("timeouts", c12::timeouts), ("stalled_driver", c12::stalled_driver)],
        "C13" => vec![("histories", c13::histories), ("long_histories", c13::long_histories), ("tls_connections", c13::tls_connections), ("given_up_searches", c13::given_up_searches), ("dead_connection", c13::dead_connection)],
        "C14" => vec![("differential", c14::differential), ("constructors", c14::constructors)],
        "C15" => vec![("random", c15::random), ("patterns", c15::patterns), ("through_connection", c15::through_connection)],
        "C16" => vec![("paging", c16::paging), ("sync_front_end", c16::sync_front_end)],
        "C17" => vec![("matrix", c17::matrix_lane)],
        "C18" => vec![("table", c18::table)],
        "C19" => vec![("requests", c19::requests), ("responses", c19::responses), ("envelope", c19::envelope), ("attached_controls", c19::attached_controls), ("exops_through_connection", c19::exops_through_connection)],
        "C20" => vec![("random", c20::random), ("errors", c20::errors)],
        _ => vec![],
    }
}

pub fn run(ctx: &Ctx, id: &str, only: Option<&str>) -> Vec<Value> {
    let mut out = vec![];
    // thorough tier: one time budget per property, shared equally by its lanes
    let budget: u64 = std::env::var("VERIF_THOROUGH_SECS").ok().and_then(|v| v.parse().ok()).unwrap_or(600);
    let n_lanes = lanes_of(id).len().max(1) as u64;
    let ctx = &Ctx { lane_cap_s: Some((budget / n_lanes).max(20)), ..ctx.clone() };
    for (name, f) in lanes_of(id) {
        if let Some(o) = only {
            if o != name {
                continue;
            }
        }
        // lanes that need child processes or real sockets cannot run inside the Miri interpreter
        if cfg!(miri) && matches!(name, "stack" | "real_transports" | "sync_streams" | "tls_connections" | "starttls_strays" | "starttls_results" | "starttls_garbage" | "constructors" | "sync_front_end" | "differential") {
            continue;
        }
        let t = std::time::Instant::now();
        let mut j = if cfg!(miri) {
            f(ctx).to_json(name)
        } else {
            // every lane bounds its own work; a lane that is still running long after that (a library that
            // spins inside one call, say) is left behind on its thread so that the remaining lanes - one of
            // which may well name the reason - still run and the report still gets written
            // (lanes on real sockets and real threads legitimately sit out wall-clock guards - 8 s, then 40 s alone, per
            // hanging scenario - when the library under test hangs; the in-memory lanes never wait for real time)
            let real_time = matches!(name, "routing_threads" | "starttls_strays" | "starttls_results" | "real_transports" | "threads" | "sync_streams" | "stack" | "starttls_garbage" | "tls_connections" | "differential" | "sync_front_end" | "constructors" | "matrix" | "table");
            let cap = if ctx.quick() { if real_time { 900 } else { 150 } } else { ctx.lane_cap_s.unwrap_or(600) * 2 + if real_time { 900 } else { 300 } };
            let (txr, rxr) = std::sync::mpsc::channel();
            let c2 = ctx.clone();
            let _ = std::thread::Builder::new().stack_size(32 << 20).spawn(move || {
                let rep = f(&c2);
                let _ = txr.send(rep.to_json(name));
            });
            match rxr.recv_timeout(std::time::Duration::from_secs(cap)) {
                Ok(j) => j,
                Err(_) => {
                    let mut rep = Report::new();
                    rep.harness_error(format!("lane {} was still running {} s after it was started (its own budget is a fraction of that); left behind", name, cap));
                    rep.to_json(name)
                }
            }
        };
        j["wall_s"] = json!(t.elapsed().as_secs_f64());
        out.push(j);
    }
    out
}

pub fn replay(ctx: &Ctx, id: &str, v: &Value) -> Value {
    let rep = match id {
        "C01" => c01::replay(ctx, v),
        "C02" => c02::replay(ctx, v),
        "C03" => c03::replay(ctx, v),
        "C04" => c04::replay(ctx, v),
        "C05" => c05::replay(ctx, v),
        "C06" => c06::replay(ctx, v),
        "C07" => c07::replay(ctx, v),
        "C08" => c08::replay(ctx, v),
        "C09" => c09::replay(ctx, v),
        "C10" => c10::replay(ctx, v),
        "C11" => c11::replay(ctx, v),
        "C12" => c12::replay(ctx, v),
        "C13" => c13::replay(ctx, v),
        "C14" => c14::replay(ctx, v),
        "C15" => c15::replay(ctx, v),
        "C16" => c16::replay(ctx, v),
        "C17" => c17::replay(ctx, v),
        "C18" => c18::replay(ctx, v),
        "C19" => c19::replay(ctx, v),
        "C20" => c20::replay(ctx, v),
        _ => Report::new(),
    };
    rep.to_json("replay")
}

pub fn child_main(args: &[String]) -> i32 {
    match args.first().map(|s| s.as_str()) {
        Some("c11-stack") => {
            let depth: usize = args.get(1).and_then(|s| s.parse().ok()).unwrap_or(10);
            let shape = args.get(2).map(|s| s.as_str()).unwrap_or("seq");
            c11::stack_child(depth, shape)
        }
        Some("c11-shard") => c11::shard_child(&args[1..]),
        _ => 2,
    }
}
