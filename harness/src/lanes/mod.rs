//! Lane registry: property id -> lanes.
use crate::report::{Ctx, Report};
use serde_json::{json, Value};

pub mod c07;

type LaneFn = fn(&Ctx) -> Report;

pub fn lanes_of(id: &str) -> Vec<(&'static str, LaneFn)> {
    match id {
        "C07" => vec![("trees", c07::trees), ("integers", c07::integers), ("nonminimal", c07::nonminimal)],
        _ => vec![],
    }
}

pub fn run(ctx: &Ctx, id: &str, only: Option<&str>) -> Vec<Value> {
    let mut out = vec![];
    for (name, f) in lanes_of(id) {
        if let Some(o) = only {
            if o != name {
                continue;
            }
        }
        let t = std::time::Instant::now();
        let rep = f(ctx);
        let mut j = rep.to_json(name);
        j["wall_s"] = json!(t.elapsed().as_secs_f64());
        out.push(j);
    }
    out
}

pub fn replay(ctx: &Ctx, id: &str, v: &Value) -> Value {
    let rep = match id {
        "C07" => c07::replay(ctx, v),
        _ => Report::new(),
    };
    rep.to_json("replay")
}

pub fn child_main(_args: &[String]) -> i32 {
    2
}
