//! C02 — each request on the wire is exactly the RFC 4511 PDU the caller asked for; modifiers
//! affect exactly the next operation.
use crate::ber;
use crate::filter_ref as fr;
use crate::gen;
use crate::msg::{reply_for, resp_bytes, Ctl, Req, ReqMsg, Res};
use crate::prng::{fnv, Rng};
use crate::report::{case_rng, par_cases, Ctx, Report};
use crate::world::{self, connect, invoke, runtime, Call, ModSpec, Outcome, SearchSpec};
use ldap3::adapters::{Adapter, EntriesOnly, PagedResults};
use ldap3::controls::RawControl;
use serde_json::{json, Value};
use std::collections::HashSet;
use std::time::Duration;

/// Normalise SET OF fields (value sets) so that they compare as multisets.
pub fn normalise(r: &Req) -> Req {
    let mut r = r.clone();
    match &mut r {
        Req::Add { attrs, .. } => {
            for (_, v) in attrs.iter_mut() {
                v.sort();
            }
        }
        Req::Modify { mods, .. } => {
            for (_, _, v) in mods.iter_mut() {
                v.sort();
            }
        }
        _ => {}
    }
    r
}

fn req_field_diff(want: &Req, got: &Req) -> String {
    if std::mem::discriminant(want) != std::mem::discriminant(got) {
        return format!("{}-sent-as-{}", want.kind(), got.kind());
    }
    match (want, got) {
        (Req::Search { base: b1, scope: s1, deref: d1, size: z1, time: t1, types_only: y1, filter: f1, attrs: a1 }, Req::Search { base: b2, scope: s2, deref: d2, size: z2, time: t2, types_only: y2, filter: f2, attrs: a2 }) => {
            if b1 != b2 { "search:base".into() }
            else if s1 != s2 { "search:scope".into() }
            else if d1 != d2 { "search:derefAliases".into() }
            else if z1 != z2 { "search:sizeLimit".into() }
            else if t1 != t2 { "search:timeLimit".into() }
            else if y1 != y2 { "search:typesOnly".into() }
            else if f1 != f2 { "search:filter".into() }
            else if a1 != a2 { "search:attributes".into() }
            else { "search:?".into() }
        }
        (Req::ModDn { dn: a, rdn: b, delold: c, newsup: d }, Req::ModDn { dn: a2, rdn: b2, delold: c2, newsup: d2 }) => {
            if a != a2 { "modifydn:entry".into() } else if b != b2 { "modifydn:newrdn".into() } else if c != c2 { "modifydn:deleteoldrdn".into() } else if d != d2 { "modifydn:newSuperior".into() } else { "modifydn:?".into() }
        }
        (Req::Modify { dn: a, mods: m }, Req::Modify { dn: a2, mods: m2 }) => {
            if a != a2 { "modify:object".into() } else if m.len() != m2.len() { "modify:change-count".into() } else {
                for (x, y) in m.iter().zip(m2) {
                    if x.0 != y.0 { return "modify:operation".into(); }
                    if x.1 != y.1 { return "modify:type".into(); }
                    if x.2 != y.2 { return "modify:values".into(); }
                }
                "modify:?".into()
            }
        }
        (Req::Bind { version: v, dn: d, auth: a }, Req::Bind { version: v2, dn: d2, auth: a2 }) => {
            if v != v2 { "bind:version".into() } else if d != d2 { "bind:name".into() } else if a != a2 { "bind:authentication".into() } else { "bind:?".into() }
        }
        _ => format!("{}:fields", want.kind()),
    }
}

pub fn compare_request(call_kind: &str, want: &Req, want_ctrls: &Option<Vec<Ctl>>, got: &ReqMsg, rep: &mut Report, replay: &Value) {
    let (w, g) = (normalise(want), normalise(&got.op));
    if w != g {
        rep.violation(format!("C02:request:{}", req_field_diff(&w, &g)), format!("call {}: want {} got {}", call_kind, trunc(&w), trunc(&g)), replay.clone());
    }
    if want_ctrls != &got.controls {
        let d = match (want_ctrls, &got.controls) {
            (None, Some(_)) => "unexpected-controls".to_string(),
            (Some(_), None) => "controls-missing".to_string(),
            (Some(a), Some(b)) => {
                if a.len() != b.len() { "count".into() } else {
                    let mut d = "?".to_string();
                    for (x, y) in a.iter().zip(b) {
                        if x.oid != y.oid { d = "oid-or-order".into(); break; }
                        if x.crit != y.crit { d = "criticality".into(); break; }
                        if x.val != y.val { d = "value".into(); break; }
                    }
                    d
                }
            }
            _ => "?".into(),
        };
        rep.violation(format!("C02:controls:{}", d), format!("call {}: want {:?} got {:?}", call_kind, trunc(want_ctrls), trunc(&got.controls)), replay.clone());
    }
    if !got.all_lengths_minimal {
        rep.violation("C02:non-minimal-length-octets", format!("call {}", call_kind), replay.clone());
    }
    if got.id < 1 || got.id > i32::MAX as i64 {
        rep.violation("C02:message-id-out-of-range", format!("{}", got.id), replay.clone());
    }
}

fn trunc<T: std::fmt::Debug>(t: &T) -> String {
    format!("{:?}", t).chars().take(600).collect()
}

fn ok_reply(m: &ReqMsg) -> Vec<u8> {
    match reply_for(&m.op, Res::ok(&format!("t:{}", m.id))) {
        Some(r) => resp_bytes(m.id, &r, None),
        None => vec![],
    }
}

fn run_requests_case(i: u64, rng: &mut Rng, rep: &mut Report, verbose: bool) {
    let nops = 1 + rng.usize(8);
    let big = rng.chance(1, 12);
    let mut calls: Vec<(Call, Option<Vec<Ctl>>)> = vec![];
    for k in 0..nops {
        let mut c = gen::gen_call(rng, i * 100 + k as u64, big, true);
        if rng.chance(1, 12) {
            c = Call::Abandon(match rng.below(5) { 0 => 1, 1 => i32::MAX, 2 => 128, 3 => *rng.pick(&[255, 256, 32_767, 32_768, 40_000, 65_535, 65_536, 8_388_607, 8_388_608, 16_777_216]), _ => 1 + rng.below(i32::MAX as u64 - 1) as i32 });
        }
        let ctrls = if rng.chance(1, 2) { Some(gen::gen_req_controls(rng)) } else { None };
        calls.push((c, ctrls));
    }
    if rng.chance(1, 3) {
        calls.push((Call::Unbind, if rng.bool() { Some(gen::gen_req_controls(rng)) } else { None }));
    }
    let rt = runtime(rng.next());
    let calls2 = calls.clone();
    // the message ID is part of the PDU: half of the cases start somewhere else in the ID range,
    // in particular just below the octet boundaries of the INTEGER encoding
    let start_id: i32 = if rng.bool() { 0 } else if rng.bool() { *rng.pick(&[126, 254, 32_766, 39_990, 65_534, 8_388_606, 16_777_214, i32::MAX - 12]) } else { rng.below(i32::MAX as u64 - 20) as i32 };
    let (outs, ids, log) = rt.block_on(async move {
        let c = connect();
        let mut ldap = c.ldap;
        ldap.verif_set_last_id(start_id);
        let mut server = c.server;
        let srv = tokio::spawn(async move {
            while let Some(w) = server.request().await {
                if let Ok(m) = &w.msg {
                    let b = ok_reply(m);
                    server.send(&b);
                }
            }
            server.log
        });
        let mut outs = vec![];
        let mut ids = vec![];
        for (call, ctrls) in &calls2 {
            if let Some(cs) = ctrls {
                ldap.with_controls(world::raw_controls(cs));
            }
            outs.push(world::watchdog(invoke(&mut ldap, call)).await.unwrap_or(Outcome::Hung));
            ids.push((ldap.last_id(), ldap.verif_id_table().0));
        }
        drop(ldap);
        let log = srv.await.unwrap_or_default();
        let _ = c.driver.await;
        (outs, ids, log)
    });
    let replay = json!({"lane":"requests","case":i});
    if log.len() != calls.len() {
        rep.violation("C02:wire-message-count", format!("{} calls produced {} wire messages", calls.len(), log.len()), replay.clone());
    }
    for (k, ((call, ctrls), w)) in calls.iter().zip(&log).enumerate() {
        match &w.msg {
            Err(e) => rep.violation(format!("C02:undecodable-request:{}", call.kind()), format!("{} raw {}", e, ber::hex(&w.raw[..w.raw.len().min(80)])), replay.clone()),
            Ok(m) => {
                compare_request(call.kind(), &call.expected(), ctrls, m, rep, &replay);
                // message ID == last_id() (not available for search(), which runs on a clone) == table's last
                let (last_id, table_last) = ids[k];
                if !matches!(call, Call::Search(_)) && m.id != last_id as i64 {
                    rep.violation("C02:message-id-differs-from-last_id", format!("wire {} last_id {}", m.id, last_id), replay.clone());
                }
                if m.id != table_last as i64 {
                    rep.violation("C02:message-id-differs-from-id-table", format!("wire {} table {}", m.id, table_last), replay.clone());
                }
                if m.id != start_id as i64 + k as i64 + 1 {
                    rep.violation("C02:message-id-not-sequential-on-fresh-connection", format!("wire {} expected {} (counter started at {})", m.id, start_id as i64 + k as i64 + 1, start_id), replay.clone());
                }
                rep.count(&format!("op_{}", call.kind()), 1);
                rep.max("max_request_bytes", w.raw.len() as u64);
                if ctrls.is_some() {
                    rep.count("requests_with_controls", 1);
                }
            }
        }
        if verbose {
            println!("{} -> {}", call.kind(), outs[k].class());
        }
        match &outs[k] {
            Outcome::Res(_) | Outcome::Search(..) | Outcome::Unit => {}
            o => rep.violation(format!("C02:call-failed:{}", call.kind()), format!("{:?}", trunc(o)), replay.clone()),
        }
    }
    if i < 2 {
        rep.sample(json!({"lane":"requests","case":i,"calls":calls.iter().map(|c| c.0.kind()).collect::<Vec<_>>(),"first_request_hex":log.first().map(|w| ber::hex(&w.raw[..w.raw.len().min(120)]))}));
    }
    let mut h = 0u64;
    for w in &log {
        h = h.wrapping_mul(31).wrapping_add(fnv(&w.raw[..w.raw.len().min(4096)]));
    }
    rep.case(Some(h));
}

pub fn requests(ctx: &Ctx) -> Report {
    let n = ctx.n(50_000, 20_000_000);
    par_cases(ctx, "requests", n, ctx.secs(25, 500), |i, rng, rep| run_requests_case(i, rng, rep, false))
}

// ---------------- requests the library composes itself ----------------

/// Requests that are not a 1:1 image of one call: the follow-up pages of a PagedResults search (each
/// must be the caller's search again: same base, scope, options, filter, attributes and controls,
/// plus the paging control with the requested size and the cookie last returned), and extended
/// operations / controls built from the library's typed structs, read back from the wire.
fn run_composed_case(i: u64, rng: &mut Rng, rep: &mut Report, verbose: bool) {
    use crate::lanes::c13::{behaviour_server, parse_paged, PAGED_OID};
    use crate::ber::{Node, CTX, UNIV};
    let tok = i * 10;
    let kind = rng.below(3);
    let replay = json!({"lane":"composed_requests","case":i});
    // ---- what to do
    let mut spec = gen::gen_search(rng, tok);
    let n_entries = 1 + rng.usize(12);
    let page = 1 + rng.below(5) as i32;
    spec.base = format!("op={},b=paged{}x{}", tok, n_entries, page);
    if spec.opts.is_none() || rng.bool() {
        spec.opts = Some((rng.below(4) as u8, rng.bool(), *rng.pick(&[0, 1, 30, 500, 100_000]), *rng.pick(&[0, 1, 3, 127, 128, 100_000])));
    }
    let mut ctrls: Vec<Ctl> = if rng.bool() { gen::gen_req_controls(rng) } else { vec![] };
    ctrls.retain(|c| c.oid != PAGED_OID.as_bytes());
    let behind_entries_only = rng.bool();
    let pm = (rng.bool(), rng.bool(), rng.bool());
    let pm_vals = (format!("uid=u{},dc=x", rng.below(1000)), format!("old{}", rng.below(1000)), format!("n\u{e9}w{}", rng.below(1000)));
    let typed_kind = rng.below(7);
    let sync_mode_persist = rng.bool();
    let sync_cookie: Option<Vec<u8>> = match rng.below(3) { 0 => None, 1 => Some(vec![]), _ => Some(format!("ck{}", rng.below(1000)).into_bytes()) };
    let sync_hint = rng.bool();
    let sync_cookie2 = sync_cookie.clone();
    let authz = format!("dn:cn=proxy{},dc=x", rng.below(100));
    let rd_attrs: Vec<String> = (0..rng.usize(14)).map(|k| format!("attribute-number-{}", k)).collect();
    let critical = rng.bool();
    let rt = runtime(rng.next());
    let (spec2, ctrls2, pm_vals2, authz2, rd2) = (spec.clone(), ctrls.clone(), pm_vals.clone(), authz.clone(), rd_attrs.clone());
    let (outcome, seen) = rt.block_on(async move {
        let c = connect();
        let mut ldap = c.ldap;
        let srv = tokio::spawn(behaviour_server(c.server));
        let outcome: String = match kind {
            0 => {
                if !ctrls2.is_empty() {
                    ldap.with_controls(world::raw_controls(&ctrls2));
                }
                ldap.with_search_options(world::search_options(spec2.opts.unwrap()));
                let adapters: Vec<Box<dyn Adapter<'static, String, Vec<String>>>> = if behind_entries_only { vec![Box::new(EntriesOnly::new()), Box::new(PagedResults::new(page))] } else { vec![Box::new(PagedResults::new(page))] };
                let f = String::from_utf8_lossy(&spec2.filter_str).into_owned();
                match world::watchdog(async {
                    let mut st = ldap.streaming_search_with(adapters, &spec2.base, world::scope_of(spec2.scope), &f, spec2.attrs.clone()).await?;
                    let mut n = 0;
                    while let Some(_e) = st.next().await? {
                        n += 1;
                    }
                    let r = st.finish().await;
                    Ok::<_, ldap3::LdapError>(format!("items={} rc={}", n, r.rc))
                })
                .await
                {
                    Ok(Ok(s)) => s,
                    Ok(Err(e)) => format!("Err({})", e),
                    Err(()) => "Hung".into(),
                }
            }
            1 => {
                let exop: ldap3::exop::Exop = match typed_kind % 4 {
                    3 => ldap3::exop::EndTxn { txn_id: &authz2, commit: critical }.into(),
                    0 => ldap3::exop::PasswordModify { user_id: if pm.0 { Some(&pm_vals2.0) } else { None }, old_pass: if pm.1 { Some(&pm_vals2.1) } else { None }, new_pass: if pm.2 { Some(&pm_vals2.2) } else { None } }.into(),
                    1 => ldap3::exop::WhoAmI.into(),
                    _ => ldap3::exop::StartTxn.into(),
                };
                match world::watchdog(ldap.extended(exop)).await {
                    Ok(Ok(r)) => format!("rc={}", (r.1).rc),
                    Ok(Err(e)) => format!("Err({})", e),
                    Err(()) => "Hung".into(),
                }
            }
            _ => {
                let rc: RawControl = match typed_kind {
                    0 => ldap3::controls::ProxyAuth { authzid: authz2.clone() }.into(),
                    1 => {
                        if critical {
                            ldap3::controls::MakeCritical::critical(ldap3::controls::ManageDsaIt).into()
                        } else {
                            ldap3::controls::ManageDsaIt.into()
                        }
                    }
                    2 => ldap3::controls::PreRead::new(rd2.iter().map(|s| s.as_str()).collect::<Vec<_>>()).into(),
                    3 => ldap3::controls::PostRead::new(rd2.iter().map(|s| s.as_str()).collect::<Vec<_>>()).into(),
                    4 => ldap3::controls::RelaxRules.into(),
                    5 => {
                        let sr = ldap3::controls::SyncRequest { mode: if sync_mode_persist { ldap3::controls::RefreshMode::RefreshAndPersist } else { ldap3::controls::RefreshMode::RefreshOnly }, cookie: sync_cookie2.clone(), reload_hint: sync_hint };
                        if critical {
                            ldap3::controls::MakeCritical::critical(sr).into()
                        } else {
                            sr.into()
                        }
                    }
                    _ => ldap3::controls::TxnSpec { txn_id: &authz2 }.into(),
                };
                ldap.with_controls(vec![rc]);
                match world::watchdog(ldap.delete(&format!("op={},b=normal", tok))).await {
                    Ok(Ok(r)) => format!("rc={}", r.rc),
                    Ok(Err(e)) => format!("Err({})", e),
                    Err(()) => "Hung".into(),
                }
            }
        };
        drop(ldap);
        let seen = srv.await.unwrap_or_default();
        let _ = c.driver.await;
        (outcome, seen)
    });
    if verbose {
        println!("kind {} typed {} -> {} ; {} requests", kind, typed_kind, outcome, seen.len());
    }
    if outcome.starts_with("Err(") || outcome == "Hung" {
        rep.violation(format!("C02:call-failed:composed-{}", ["paged-search", "typed-exop", "typed-control"][kind as usize]), outcome.clone(), replay.clone());
    }
    let seq_of_strings = |v: &[String]| Node::C { class: UNIV, tag: 16, kids: v.iter().map(|a| ber::octets(a.as_bytes())).collect() };
    match kind {
        0 => {
            let want = Call::Search(spec.clone()).expected();
            let pages_expected = (n_entries + page as usize - 1) / page as usize;
            if seen.len() != pages_expected {
                rep.violation("C02:paged:number-of-page-requests", format!("{} entries in pages of {}: {} requests seen", n_entries, page, seen.len()), replay.clone());
            }
            let mut off = 0usize;
            for (k, m) in seen.iter().enumerate() {
                let all = m.controls.clone().unwrap_or_default();
                let others: Vec<Ctl> = all.iter().filter(|c| c.oid != PAGED_OID.as_bytes()).cloned().collect();
                let paged: Vec<&Ctl> = all.iter().filter(|c| c.oid == PAGED_OID.as_bytes()).collect();
                let others_opt = if others.is_empty() { None } else { Some(others) };
                let want_ctrls = if ctrls.is_empty() { None } else { Some(ctrls.clone()) };
                let fake = ReqMsg { id: m.id, op: m.op.clone(), controls: others_opt, all_lengths_minimal: m.all_lengths_minimal };
                let mut sub = Report::new();
                compare_request("paged-search", &want, &want_ctrls, &fake, &mut sub, &replay);
                for v in sub.violations.values() {
                    rep.violation(format!("{}:page-{}", v.signature, if k == 0 { "1" } else { "n" }), v.detail.clone(), replay.clone());
                }
                match paged.as_slice() {
                    [c] => match c.val.as_ref().and_then(|v| parse_paged(v)) {
                        Some((size, cookie)) => {
                            if size != page as i64 {
                                rep.violation("C02:paged:page-size-differs-from-the-requested-one", format!("page {}: size {} requested {}", k + 1, size, page), replay.clone());
                            }
                            let want_cookie = if k == 0 { vec![] } else { off.to_string().into_bytes() };
                            if cookie != want_cookie {
                                rep.violation("C02:paged:cookie-is-not-the-one-last-returned", format!("page {}: cookie {:?} expected {:?}", k + 1, cookie, want_cookie), replay.clone());
                            }
                        }
                        None => rep.violation("C02:paged:paging-control-value-undecodable", format!("page {}", k + 1), replay.clone()),
                    },
                    _ => rep.violation("C02:paged:not-exactly-one-paging-control", format!("page {}: {}", k + 1, paged.len()), replay.clone()),
                }
                off = (off + page as usize).min(n_entries);
                rep.count("paged_page_requests_checked", 1);
            }
        }
        1 => {
            let m = match seen.first() {
                Some(m) => m,
                None => {
                    rep.violation("C02:wire-message-count", "typed exop: nothing on the wire".to_string(), replay.clone());
                    rep.case(None);
                    return;
                }
            };
            let (want_name, want_val): (&str, Option<Node>) = match typed_kind % 4 {
                3 => {
                    // RFC 5805: SEQUENCE { commit BOOLEAN DEFAULT TRUE, identifier OCTET STRING }
                    let mut kids = vec![];
                    if !critical {
                        kids.push(ber::boolean(false));
                    }
                    kids.push(ber::octets(authz.as_bytes()));
                    ("1.3.6.1.1.21.3", Some(ber::seq(kids)))
                }
                0 => {
                    let mut kids = vec![];
                    if pm.0 {
                        kids.push(ber::ctx_prim(0, pm_vals.0.as_bytes()));
                    }
                    if pm.1 {
                        kids.push(ber::ctx_prim(1, pm_vals.1.as_bytes()));
                    }
                    if pm.2 {
                        kids.push(ber::ctx_prim(2, pm_vals.2.as_bytes()));
                    }
                    ("1.3.6.1.4.1.4203.1.11.1", Some(ber::seq(kids)))
                }
                1 => ("1.3.6.1.4.1.4203.1.11.3", None),
                _ => ("1.3.6.1.1.21.1", None),
            };
            match &m.op {
                Req::Extended { name, val } => {
                    if name != want_name.as_bytes() {
                        rep.violation("C02:request:extended:name", format!("{:?} expected {}", String::from_utf8_lossy(name), want_name), replay.clone());
                    }
                    let got = val.as_ref().map(|v| ber::decode_exact(v).map(|x| x.0));
                    let ok = match (&want_val, &got) {
                        (None, None) => true,
                        // an all-absent PasswordModify may omit the value or send an empty SEQUENCE
                        (Some(Node::C { kids, .. }), None) if kids.is_empty() => true,
                        (Some(w), Some(Ok(g))) => w == g,
                        _ => false,
                    };
                    if !ok {
                        rep.violation(format!("C02:request:extended:value:{}", ["PasswordModify", "WhoAmI", "StartTxn", "EndTxn"][(typed_kind % 4) as usize]), format!("fields present {:?}: got {:?} expected {:?}", pm, got, want_val), replay.clone());
                    }
                }
                other => rep.violation("C02:request:extended-sent-as-something-else", format!("{:?}", other.kind()), replay.clone()),
            }
            rep.count("typed_exops_checked", 1);
        }
        _ => {
            let m = match seen.first() {
                Some(m) => m,
                None => {
                    rep.violation("C02:wire-message-count", "typed control: nothing on the wire".to_string(), replay.clone());
                    rep.case(None);
                    return;
                }
            };
            let (oid, crit, val): (&str, bool, Option<Vec<u8>>) = match typed_kind {
                0 => ("2.16.840.1.113730.3.4.18", true, Some(authz.clone().into_bytes())),
                1 => ("2.16.840.1.113730.3.4.2", critical, None),
                2 => ("1.3.6.1.1.13.1", false, Some(ber::encode_min(&seq_of_strings(&rd_attrs)))),
                3 => ("1.3.6.1.1.13.2", false, Some(ber::encode_min(&seq_of_strings(&rd_attrs)))),
                4 => ("1.3.6.1.4.1.4203.666.5.12", false, None),
                5 => {
                    // RFC 4533: SEQUENCE { mode ENUMERATED, cookie OCTET STRING OPTIONAL, reloadHint BOOLEAN DEFAULT FALSE }
                    let mut kids = vec![ber::enumerated(if sync_mode_persist { 3 } else { 1 })];
                    if let Some(c) = &sync_cookie {
                        kids.push(ber::octets(c));
                    }
                    if sync_hint {
                        kids.push(ber::boolean(true));
                    }
                    ("1.3.6.1.4.1.4203.1.9.1.1", critical, Some(ber::encode_min(&ber::seq(kids))))
                }
                _ => ("1.3.6.1.1.21.2", true, Some(authz.clone().into_bytes())),
            };
            let want = Some(vec![Ctl { oid: oid.as_bytes().to_vec(), crit, val }]);
            if m.controls != want {
                rep.violation(format!("C02:controls:typed:{}", ["ProxyAuth", "ManageDsaIt", "PreRead", "PostRead", "RelaxRules", "SyncRequest", "TxnSpec"][typed_kind as usize]), format!("got {} expected {}", trunc(&m.controls), trunc(&want)), replay.clone());
            }
            let _ = CTX;
            rep.count("typed_controls_checked", 1);
        }
    }
    if i < 3 {
        let kind_name = ["paged-search", "typed-exop", "typed-control"][kind as usize];
        rep.sample(json!({"lane":"composed_requests","case":i,"kind":kind_name,"requests_seen":seen.len(),"outcome":outcome}));
    }
    rep.case(Some(fnv(format!("{}{}{:?}{:?}{}{}", kind, typed_kind, pm, spec.opts, n_entries, page).as_bytes())));
}

pub fn composed_requests(ctx: &Ctx) -> Report {
    let n = ctx.n(20_000, 10_000_000);
    par_cases(ctx, "composed_requests", n, ctx.secs(20, 400), |i, rng, rep| run_composed_case(i, rng, rep, false))
}

// ---------------- modifiers and cloned handles ----------------

/// Modifiers belong to the handle they were set on and to its next operation: a clone taken while
/// controls / a timeout / search options are pending starts without them, and the original still
/// applies them to its own next operation.
fn run_clone_case(i: u64, rng: &mut Rng, rep: &mut Report, verbose: bool) {
    let ctrls = { let mut c = gen::gen_req_controls(rng); if c.is_empty() { c.push(Ctl { oid: b"1.2.3.4.77".to_vec(), crit: true, val: None }); } c };
    let set_controls = rng.bool();
    let set_timeout = rng.bool();
    let set_opts = rng.bool() || (!set_controls && !set_timeout);
    let opts = (1 + rng.below(3) as u8, true, 1 + rng.below(500) as i32, 1 + rng.below(500) as i32);
    let clone_does_search = rng.bool();
    let tok = i * 10;
    let rt = runtime(rng.next());
    let ctrls2 = ctrls.clone();
    let (clone_out, orig_out, log) = rt.block_on(async move {
        let c = connect();
        let mut ldap = c.ldap;
        let mut server = c.server;
        let srv = tokio::spawn(async move {
            let tx = server.tx();
            while let Some(w) = server.request().await {
                if let Ok(m) = &w.msg {
                    let b = ok_reply(m);
                    // every reply takes 300 ms: an operation that inherited the 100 ms timeout fails
                    let tx = tx.clone();
                    tokio::spawn(async move {
                        tokio::time::sleep(Duration::from_millis(300)).await;
                        tx.send(&b);
                    });
                }
            }
            server.log
        });
        if set_controls {
            ldap.with_controls(world::raw_controls(&ctrls2));
        }
        if set_timeout {
            ldap.with_timeout(Duration::from_millis(100));
        }
        if set_opts {
            ldap.with_search_options(world::search_options(opts));
        }
        let mut cl = ldap.clone();
        let clone_out = if clone_does_search {
            match world::watchdog(world::Caught::new(cl.search(&format!("op={}", tok + 1), ldap3::Scope::Base, "(a=b)", vec!["x"]))).await {
                Ok(Ok(Ok(_))) => "Ok".to_string(),
                Ok(Ok(Err(e))) => format!("Err({})", world::err_class(&e)),
                Ok(Err(p)) => format!("Panic({})", p.site()),
                Err(()) => "Hung".into(),
            }
        } else {
            world::watchdog(invoke(&mut cl, &Call::Delete { dn: format!("op={}", tok + 1) })).await.unwrap_or(Outcome::Hung).class()
        };
        // the original's own next operation: a search, so that all three kinds of modifiers show
        let orig_out = match world::watchdog(world::Caught::new(ldap.search(&format!("op={}", tok + 2), ldap3::Scope::Base, "(a=b)", vec!["x"]))).await {
            Ok(Ok(Ok(_))) => "Ok".to_string(),
            Ok(Ok(Err(e))) => format!("Err({})", world::err_class(&e)),
            Ok(Err(p)) => format!("Panic({})", p.site()),
            Err(()) => "Hung".into(),
        };
        tokio::time::sleep(Duration::from_secs(5)).await;
        drop(ldap);
        drop(cl);
        let log = srv.await.unwrap_or_default();
        let _ = c.driver.await;
        (clone_out, orig_out, log)
    });
    let replay = json!({"lane":"cloned_handles","case":i});
    let find = |t: u64| log.iter().filter_map(|w| w.msg.as_ref().ok()).find(|m| m.op.token_field().and_then(gen::token_of) == Some(t));
    let set_desc = format!("set on the original before clone(): controls {} timeout {} search options {}", set_controls, set_timeout, set_opts);
    // the clone's operation: nothing inherited
    if !clone_out.starts_with("Ok") {
        rep.violation(if clone_out.contains("Timeout") { "C02:modifier-leak:timeout:into-a-cloned-handle".to_string() } else { format!("C02:call-failed:on-a-cloned-handle:{}", clone_out) }, format!("{}; operation on the clone: {}", set_desc, clone_out), replay.clone());
    }
    match find(tok + 1) {
        None => rep.violation("C02:wire-message-count", "the clone's request never reached the wire".to_string(), replay.clone()),
        Some(m) => {
            if m.controls.is_some() {
                rep.violation("C02:modifier-leak:controls:into-a-cloned-handle", format!("{}; the clone's request carries {}", set_desc, trunc(&m.controls)), replay.clone());
            }
            if let Req::Search { deref, size, time, types_only, .. } = &m.op {
                if (*deref, *size, *time, *types_only) != (0, 0, 0, false) {
                    rep.violation("C02:modifier-leak:search-options:into-a-cloned-handle", format!("{}; the clone's search went out with deref {} size {} time {} typesOnly {}", set_desc, deref, size, time, types_only), replay.clone());
                }
            }
        }
    }
    // the original's operation: exactly what was set
    match find(tok + 2) {
        None => rep.violation("C02:wire-message-count", "the original's request never reached the wire".to_string(), replay.clone()),
        Some(m) => {
            let want_ctrls = if set_controls { Some(ctrls.clone()) } else { None };
            if m.controls != want_ctrls {
                rep.violation("C02:modifier-lost:controls:after-clone", format!("{}; the original's request carries {}", set_desc, trunc(&m.controls)), replay.clone());
            }
            if let Req::Search { deref, size, time, types_only, .. } = &m.op {
                let want = if set_opts { (opts.0 as i64, opts.3 as i64, opts.2 as i64, opts.1) } else { (0, 0, 0, false) };
                if (*deref, *size, *time, *types_only) != want {
                    rep.violation("C02:modifier-lost:search-options:after-clone", format!("{}; the original's search went out with deref {} size {} time {} typesOnly {} expected {:?}", set_desc, deref, size, time, types_only, want), replay.clone());
                }
            }
        }
    }
    let want_orig = if set_timeout { "Err(Timeout)" } else { "Ok" };
    if orig_out != want_orig {
        rep.violation("C02:modifier-lost:timeout:after-clone", format!("{}; the original's search (reply after 300 ms): {} expected {}", set_desc, orig_out, want_orig), replay.clone());
    }
    if verbose {
        println!("{} -> clone {} original {}", set_desc, clone_out, orig_out);
    }
    rep.count("clone_cases", 1);
    if i < 2 {
        rep.sample(json!({"lane":"cloned_handles","case":i,"set":set_desc,"clone":clone_out,"original":orig_out}));
    }
    rep.case(Some(fnv(format!("{}{}{}{}{:?}", set_controls, set_timeout, set_opts, clone_does_search, ctrls).as_bytes())));
}

pub fn cloned_handles(ctx: &Ctx) -> Report {
    let n = ctx.n(10_000, 5_000_000);
    par_cases(ctx, "cloned_handles", n, ctx.secs(15, 300), |i, rng, rep| run_clone_case(i, rng, rep, false))
}

// ---------------- modifiers ----------------

#[derive(Clone, Debug)]
enum Action {
    Normal(Call),
    /// add() with an empty value set -> AddNoValues before anything is sent
    AddNoValues(String),
    /// modify() with Mod::Add and an empty set -> AddNoValues
    ModifyAddEmpty(String),
    /// search() with an unparsable filter -> FilterParsing
    BadFilter(String),
    /// PagedResults adapter with a caller-supplied paging control -> AdapterInit
    PagedClash(String),
}

#[derive(Clone, Debug)]
struct Step {
    controls: Option<Vec<Ctl>>,
    timeout_ms: Option<u64>,
    opts: Option<(u8, bool, i32, i32)>,
    action: Action,
    /// server answers the request carrying this step's token after this many virtual ms
    delay_ms: u64,
}

fn gen_steps(rng: &mut Rng, i: u64) -> Vec<Step> {
    let n = 2 + rng.usize(7);
    let mut v = vec![];
    for k in 0..n {
        let tok = i * 100 + k as u64;
        let action = match rng.below(10) {
            0 => Action::AddNoValues(gen::token_dn(tok, rng)),
            1 => Action::ModifyAddEmpty(gen::token_dn(tok, rng)),
            2 => Action::BadFilter(gen::token_dn(tok, rng)),
            3 => Action::PagedClash(gen::token_dn(tok, rng)),
            4 | 5 => Action::Normal(Call::Search(SearchSpec { opts: None, ..gen::gen_search(rng, tok) })),
            // an Abandon is an operation too: whatever was set for it is spent on it
            6 if rng.bool() => Action::Normal(Call::Abandon(1 + rng.below(50) as i32)),
            _ => Action::Normal(gen::gen_call(rng, tok, false, false)),
        };
        let controls = if rng.chance(2, 5) { Some({ let mut c = gen::gen_req_controls(rng); c.retain(|c| c.oid != b"1.2.840.113556.1.4.319"); c }) } else { None };
        let timeout_ms = if rng.chance(2, 5) { Some(*rng.pick(&[500u64, 1000, 3000])) } else { None };
        let opts = if rng.chance(2, 5) { Some((1 + rng.below(3) as u8, true, 1 + rng.below(1000) as i32, 1 + rng.below(1000) as i32)) } else { None };
        let delay_ms = *rng.pick(&[0u64, 0, 100, 2000, 10_000]);
        v.push(Step { controls, timeout_ms, opts, action, delay_ms });
    }
    v
}

async fn run_step(ldap: &mut ldap3::Ldap, s: &Step) -> Outcome {
    if let Some(c) = &s.controls {
        let mut cs: Vec<RawControl> = world::raw_controls(c);
        if let Action::PagedClash(_) = s.action {
            cs.push(ldap3::controls::PagedResults { size: 5, cookie: vec![] }.into());
        }
        ldap.with_controls(cs);
    } else if let Action::PagedClash(_) = s.action {
        ldap.with_controls(ldap3::controls::PagedResults { size: 5, cookie: vec![] });
    }
    if let Some(t) = s.timeout_ms {
        ldap.with_timeout(Duration::from_millis(t));
    }
    if let Some(o) = s.opts {
        ldap.with_search_options(world::search_options(o));
    }
    match &s.action {
        Action::Normal(call) => invoke(ldap, call).await,
        Action::AddNoValues(dn) => invoke(ldap, &Call::Add { dn: dn.clone(), attrs: vec![(b"cn".to_vec(), vec![b"x".to_vec()]), (b"sn".to_vec(), vec![])] }).await,
        Action::ModifyAddEmpty(dn) => invoke(ldap, &Call::Modify { dn: dn.clone(), mods: vec![ModSpec::Replace(b"a".to_vec(), vec![]), ModSpec::Add(b"b".to_vec(), vec![])] }).await,
        Action::BadFilter(dn) => {
            let r = world::Caught::new(ldap.search(dn, ldap3::Scope::Base, "(a=b", vec!["x"])).await;
            match r {
                Ok(Ok(_)) => Outcome::Unit,
                Ok(Err(e)) => Outcome::Err(world::err_class(&e).into(), e.to_string()),
                Err(p) => Outcome::Panic(p.site()),
            }
        }
        Action::PagedClash(dn) => {
            let adapters: Vec<Box<dyn Adapter<_, _>>> = vec![Box::new(EntriesOnly::new()), Box::new(PagedResults::new(5))];
            let r = world::Caught::new(ldap.streaming_search_with(adapters, dn, ldap3::Scope::Base, "(a=b)", vec!["x"])).await;
            match r {
                Ok(Ok(_)) => Outcome::Unit,
                Ok(Err(e)) => Outcome::Err(world::err_class(&e).into(), e.to_string()),
                Err(p) => Outcome::Panic(p.site()),
            }
        }
    }
}

fn run_modifiers_case(i: u64, rng: &mut Rng, rep: &mut Report, verbose: bool) {
    let steps = gen_steps(rng, i);
    let delays: std::collections::HashMap<u64, u64> = steps.iter().enumerate().map(|(k, s)| (i * 100 + k as u64, s.delay_ms)).collect();
    let rt = runtime(rng.next());
    let steps2 = steps.clone();
    let (outs, log, early_n) = rt.block_on(async move {
        let c = connect();
        let mut ldap = c.ldap;
        let mut server = c.server;
        let early = std::sync::Arc::new(std::sync::atomic::AtomicU64::new(0));
        let early2 = early.clone();
        let srv = tokio::spawn(async move {
            let tx = server.tx();
            while let Some(w) = server.request().await {
                if let Ok(m) = &w.msg {
                    let b = ok_reply(m);
                    let d = m.op.token_field().and_then(gen::token_of).and_then(|t| delays.get(&t).copied()).unwrap_or(0);
                    if d == 0 {
                        tx.send(&b);
                    } else {
                        // a Search gets part of its answer at once: the timeout set for it governs
                        // the whole operation, not only the wait for the first reply
                        if let Req::Search { .. } = &m.op {
                            if m.id % 2 == 0 {
                                tx.send(&resp_bytes(m.id, &crate::msg::Resp::Entry { dn: b"cn=first".to_vec(), attrs: vec![] }, None));
                                early.fetch_add(1, std::sync::atomic::Ordering::SeqCst);
                            }
                        }
                        let tx = tx.clone();
                        tokio::spawn(async move {
                            tokio::time::sleep(Duration::from_millis(d)).await;
                            tx.send(&b);
                        });
                    }
                }
            }
            server.log
        });
        let mut outs = vec![];
        for s in &steps2 {
            outs.push(world::watchdog(run_step(&mut ldap, s)).await.unwrap_or(Outcome::Hung));
        }
        // let late replies drain, then close
        tokio::time::sleep(Duration::from_secs(60)).await;
        drop(ldap);
        let log = srv.await.unwrap_or_default();
        let _ = c.driver.await;
        (outs, log, early2.load(std::sync::atomic::Ordering::SeqCst))
    });
    rep.count("searches_answered_in_two_parts", early_n);
    let replay = json!({"lane":"modifiers","case":i});
    // index wire requests by token
    let mut by_tok: std::collections::HashMap<u64, Vec<&ReqMsg>> = Default::default();
    for w in &log {
        if let Ok(m) = &w.msg {
            if let Some(t) = m.op.token_field().and_then(gen::token_of) {
                by_tok.entry(t).or_default().push(m);
            }
        }
    }
    // where each modifier kind was last set (step index), to name the origin of a leak
    let mut last_set: [Option<usize>; 3] = [None, None, None];
    let descs: Vec<String> = steps
        .iter()
        .map(|s| match &s.action {
            Action::Normal(c) => c.kind().to_string(),
            Action::AddNoValues(_) => "add-with-empty-value-set".into(),
            Action::ModifyAddEmpty(_) => "modify-add-with-empty-value-set".into(),
            Action::BadFilter(_) => "search-with-invalid-filter".into(),
            Action::PagedClash(_) => "paged-search-with-caller-paging-control".into(),
        })
        .collect();
    let origin = |idx: Option<usize>| -> String {
        match idx {
            Some(j) => match &steps[j].action {
                Action::Normal(Call::Search(_)) => "search".into(),
                Action::Normal(_) => "non-search-operation".into(),
                _ => descs[j].clone(),
            },
            None => "unknown".into(),
        }
    };
    for (k, (s, out)) in steps.iter().zip(&outs).enumerate() {
        let tok = i * 100 + k as u64;
        let desc = descs[k].clone();
        let wire = by_tok.get(&tok);
        match &s.action {
            Action::Normal(call) => {
                let tokless = call.expected().token_field().and_then(gen::token_of).is_none();
                let eff_delay = if tokless { 0 } else { s.delay_ms };
                let ms: Vec<&ReqMsg> = if tokless { vec![] } else { wire.cloned().unwrap_or_default() };
                if !tokless {
                    if ms.len() != 1 {
                        rep.violation("C02:modifiers:request-count", format!("step {} ({}) produced {} requests", k, desc, ms.len()), replay.clone());
                    } else {
                        // expectation: exactly this step's modifiers
                        let mut want_call = call.clone();
                        if let Call::Search(sp) = &mut want_call {
                            sp.opts = s.opts;
                        }
                        let want_ctrls = s.controls.clone();
                        let leak_c = s.controls.is_none() && ms[0].controls.is_some();
                        let leak_o = matches!(call, Call::Search(_)) && s.opts.is_none() && matches!(&ms[0].op, Req::Search { deref, .. } if *deref != 0);
                        if leak_c {
                            rep.violation(format!("C02:modifier-leak:controls:set-for:{}", origin(last_set[0])), format!("step {} ({}) carries controls {:?} set at step {:?}; steps {:?}", k, desc, trunc(&ms[0].controls), last_set[0], descs), replay.clone());
                        }
                        if leak_o {
                            rep.violation(format!("C02:modifier-leak:search-options:set-for:{}", origin(last_set[2])), format!("step {} ({}) carries search options set at step {:?}; steps {:?}", k, desc, last_set[2], descs), replay.clone());
                        }
                        if !leak_c && !leak_o {
                            compare_request(&desc, &want_call.expected(), &want_ctrls, ms[0], rep, &replay);
                        }
                    }
                }
                let must_timeout = s.timeout_ms.map(|t| eff_delay > t).unwrap_or(false);
                let may_timeout = s.timeout_ms.map(|t| eff_delay == t).unwrap_or(false);
                match out {
                    Outcome::Err(c, _) if c == "Timeout" => {
                        if !must_timeout && !may_timeout {
                            if s.timeout_ms.is_none() {
                                rep.violation(format!("C02:modifier-leak:timeout:set-for:{}", origin(last_set[1])), format!("step {} ({}) had no timeout but timed out (reply delay {} ms); timeout set at step {:?}; steps {:?}", k, desc, eff_delay, last_set[1], descs), replay.clone());
                            } else {
                                rep.violation("C02:modifiers:timeout-too-early", format!("step {} timeout {:?} delay {}", k, s.timeout_ms, eff_delay), replay.clone());
                            }
                        } else {
                            rep.count("timeouts_observed", 1);
                        }
                    }
                    Outcome::Res(_) | Outcome::Search(..) | Outcome::Unit => {
                        if must_timeout {
                            rep.violation("C02:modifiers:timeout-not-applied", format!("step {} ({}) timeout {:?} delay {}", k, desc, s.timeout_ms, eff_delay), replay.clone());
                        }
                    }
                    o => rep.violation(format!("C02:modifiers:call-failed:{}", desc), format!("{:?}", trunc(o)), replay.clone()),
                }
            }
            _ => {
                let want = match &s.action {
                    Action::AddNoValues(_) | Action::ModifyAddEmpty(_) => "AddNoValues",
                    Action::BadFilter(_) => "FilterParsing",
                    _ => "AdapterInit",
                };
                match out {
                    Outcome::Err(c, _) if c == want => {}
                    o => rep.violation(format!("C02:modifiers:local-failure-class:{}", desc), format!("expected Err({}) got {:?}", want, trunc(o)), replay.clone()),
                }
                if wire.map(|w| !w.is_empty()).unwrap_or(false) {
                    rep.violation(format!("C02:modifiers:locally-failed-op-reached-wire:{}", desc), format!("step {}", k), replay.clone());
                }
                rep.count("local_failures", 1);
            }
        }
        if s.controls.is_some() || s.timeout_ms.is_some() || s.opts.is_some() {
            rep.count("steps_with_modifiers", 1);
        }
        if s.controls.is_some() || matches!(s.action, Action::PagedClash(_)) {
            last_set[0] = Some(k);
        }
        if s.timeout_ms.is_some() {
            last_set[1] = Some(k);
        }
        if s.opts.is_some() {
            last_set[2] = Some(k);
        }
        if verbose {
            println!("step {} {} mods(c={},t={:?},o={}) delay {} -> {}", k, desc, s.controls.is_some(), s.timeout_ms, s.opts.is_some(), s.delay_ms, out.class());
        }
    }
    if i < 2 {
        rep.sample(json!({"lane":"modifiers","case":i,"steps":steps.iter().map(|s| format!("{:?} c={} t={:?} o={} delay={}", std::mem::discriminant(&s.action), s.controls.is_some(), s.timeout_ms, s.opts.is_some(), s.delay_ms)).collect::<Vec<_>>()}));
    }
    let sig: String = steps.iter().map(|s| format!("{}{}{}{}{}", match &s.action { Action::Normal(c) => c.kind(), Action::AddNoValues(_) => "A", Action::ModifyAddEmpty(_) => "M", Action::BadFilter(_) => "F", Action::PagedClash(_) => "P" }, s.controls.is_some() as u8, s.timeout_ms.unwrap_or(0), s.opts.is_some() as u8, s.delay_ms)).collect();
    rep.case(Some(fnv(sig.as_bytes())));
    let _ = HashSet::<u8>::new();
    let _ = fr::is_special(0);
}

pub fn modifiers(ctx: &Ctx) -> Report {
    let n = ctx.n(50_000, 20_000_000);
    par_cases(ctx, "modifiers", n, ctx.secs(25, 500), |i, rng, rep| run_modifiers_case(i, rng, rep, false))
}

pub fn replay(ctx: &Ctx, v: &Value) -> Report {
    let mut rep = Report::new();
    let lane = v["lane"].as_str().unwrap_or("requests");
    if let Some(i) = v["case"].as_u64() {
        let mut rng = case_rng(ctx.seed, lane, i);
        if lane == "modifiers" {
            run_modifiers_case(i, &mut rng, &mut rep, true);
        } else {
            run_requests_case(i, &mut rng, &mut rep, true);
        }
    }
    rep
}
