//! C02 — each request on the wire is exactly the RFC 4511 PDU the caller asked for; modifiers
//! affect exactly the next operation.
use crate::ber;
use crate::filter_ref as fr;
use crate::gen;
use crate::msg::{reply_for, resp_bytes, Ctl, Req, ReqMsg, Res};
use crate::prng::{fnv, Rng};
use crate::report::{case_rng, par_cases, Ctx, Report};
use crate::world::{self, connect, invoke, runtime, Call, ModSpec, Outcome, SearchSpec};
use ldap3::adapters::{Adapter, EntriesOnly, PagedResults};
use ldap3::controls::RawControl;
use serde_json::{json, Value};
use std::collections::HashSet;
use std::time::Duration;

/// Normalise SET OF fields (value sets) so that they compare as multisets.
pub fn normalise(r: &Req) -> Req {
    let mut r = r.clone();
    match &mut r {
        Req::Add { attrs, .. } => {
            for (_, v) in attrs.iter_mut() {
                v.sort();
            }
        }
        Req::Modify { mods, .. } => {
            for (_, _, v) in mods.iter_mut() {
                v.sort();
            }
        }
        _ => {}
    }
    r
}

fn req_field_diff(want: &Req, got: &Req) -> String {
    if std::mem::discriminant(want) != std::mem::discriminant(got) {
        return format!("{}-sent-as-{}", want.kind(), got.kind());
    }
    match (want, got) {
        (Req::Search { base: b1, scope: s1, deref: d1, size: z1, time: t1, types_only: y1, filter: f1, attrs: a1 }, Req::Search { base: b2, scope: s2, deref: d2, size: z2, time: t2, types_only: y2, filter: f2, attrs: a2 }) => {
            if b1 != b2 { "search:base".into() }
            else if s1 != s2 { "search:scope".into() }
            else if d1 != d2 { "search:derefAliases".into() }
            else if z1 != z2 { "search:sizeLimit".into() }
            else if t1 != t2 { "search:timeLimit".into() }
            else if y1 != y2 { "search:typesOnly".into() }
            else if f1 != f2 { "search:filter".into() }
            else if a1 != a2 { "search:attributes".into() }
            else { "search:?".into() }
        }
        (Req::ModDn { dn: a, rdn: b, delold: c, newsup: d }, Req::ModDn { dn: a2, rdn: b2, delold: c2, newsup: d2 }) => {
            if a != a2 { "modifydn:entry".into() } else if b != b2 { "modifydn:newrdn".into() } else if c != c2 { "modifydn:deleteoldrdn".into() } else if d != d2 { "modifydn:newSuperior".into() } else { "modifydn:?".into() }
        }
        (Req::Modify { dn: a, mods: m }, Req::Modify { dn: a2, mods: m2 }) => {
            if a != a2 { "modify:object".into() } else if m.len() != m2.len() { "modify:change-count".into() } else {
                for (x, y) in m.iter().zip(m2) {
                    if x.0 != y.0 { return "modify:operation".into(); }
                    if x.1 != y.1 { return "modify:type".into(); }
                    if x.2 != y.2 { return "modify:values".into(); }
                }
                "modify:?".into()
            }
        }
        (Req::Bind { version: v, dn: d, auth: a }, Req::Bind { version: v2, dn: d2, auth: a2 }) => {
            if v != v2 { "bind:version".into() } else if d != d2 { "bind:name".into() } else if a != a2 { "bind:authentication".into() } else { "bind:?".into() }
        }
        _ => format!("{}:fields", want.kind()),
    }
}

pub fn compare_request(call_kind: &str, want: &Req, want_ctrls: &Option<Vec<Ctl>>, got: &ReqMsg, rep: &mut Report, replay: &Value) {
    let (w, g) = (normalise(want), normalise(&got.op));
    if w != g {
        rep.violation(format!("C02:request:{}", req_field_diff(&w, &g)), format!("call {}: want {} got {}", call_kind, trunc(&w), trunc(&g)), replay.clone());
    }
    if want_ctrls != &got.controls {
        let d = match (want_ctrls, &got.controls) {
            (None, Some(_)) => "unexpected-controls".to_string(),
            (Some(_), None) => "controls-missing".to_string(),
            (Some(a), Some(b)) => {
                if a.len() != b.len() { "count".into() } else {
                    let mut d = "?".to_string();
                    for (x, y) in a.iter().zip(b) {
                        if x.oid != y.oid { d = "oid-or-order".into(); break; }
                        if x.crit != y.crit { d = "criticality".into(); break; }
                        if x.val != y.val { d = "value".into(); break; }
                    }
                    d
                }
            }
            _ => "?".into(),
        };
        rep.violation(format!("C02:controls:{}", d), format!("call {}: want {:?} got {:?}", call_kind, trunc(want_ctrls), trunc(&got.controls)), replay.clone());
    }
    if !got.all_lengths_minimal {
        rep.violation("C02:non-minimal-length-octets", format!("call {}", call_kind), replay.clone());
    }
    if got.id < 1 || got.id > i32::MAX as i64 {
        rep.violation("C02:message-id-out-of-range", format!("{}", got.id), replay.clone());
    }
}

fn trunc<T: std::fmt::Debug>(t: &T) -> String {
    format!("{:?}", t).chars().take(600).collect()
}

fn ok_reply(m: &ReqMsg) -> Vec<u8> {
    match reply_for(&m.op, Res::ok(&format!("t:{}", m.id))) {
        Some(r) => resp_bytes(m.id, &r, None),
        None => vec![],
    }
}

fn run_requests_case(i: u64, rng: &mut Rng, rep: &mut Report, verbose: bool) {
    let nops = 1 + rng.usize(8);
    let big = rng.chance(1, 12);
    let mut calls: Vec<(Call, Option<Vec<Ctl>>)> = vec![];
    for k in 0..nops {
        let mut c = gen::gen_call(rng, i * 100 + k as u64, big, true);
        if rng.chance(1, 12) {
            c = Call::Abandon(match rng.below(4) { 0 => 1, 1 => i32::MAX, 2 => 128, _ => 1 + rng.below(i32::MAX as u64 - 1) as i32 });
        }
        let ctrls = if rng.chance(1, 2) { Some(gen::gen_req_controls(rng)) } else { None };
        calls.push((c, ctrls));
    }
    if rng.chance(1, 3) {
        calls.push((Call::Unbind, if rng.bool() { Some(gen::gen_req_controls(rng)) } else { None }));
    }
    let rt = runtime(rng.next());
    let calls2 = calls.clone();
    let (outs, ids, log) = rt.block_on(async move {
        let c = connect();
        let mut ldap = c.ldap;
        let mut server = c.server;
        let srv = tokio::spawn(async move {
            while let Some(w) = server.request().await {
                if let Ok(m) = &w.msg {
                    let b = ok_reply(m);
                    server.send(&b);
                }
            }
            server.log
        });
        let mut outs = vec![];
        let mut ids = vec![];
        for (call, ctrls) in &calls2 {
            if let Some(cs) = ctrls {
                ldap.with_controls(world::raw_controls(cs));
            }
            outs.push(world::watchdog(invoke(&mut ldap, call)).await.unwrap_or(Outcome::Hung));
            ids.push((ldap.last_id(), ldap.verif_id_table().0));
        }
        drop(ldap);
        let log = srv.await.unwrap_or_default();
        let _ = c.driver.await;
        (outs, ids, log)
    });
    let replay = json!({"lane":"requests","case":i});
    if log.len() != calls.len() {
        rep.violation("C02:wire-message-count", format!("{} calls produced {} wire messages", calls.len(), log.len()), replay.clone());
    }
    for (k, ((call, ctrls), w)) in calls.iter().zip(&log).enumerate() {
        match &w.msg {
            Err(e) => rep.violation(format!("C02:undecodable-request:{}", call.kind()), format!("{} raw {}", e, ber::hex(&w.raw[..w.raw.len().min(80)])), replay.clone()),
            Ok(m) => {
                compare_request(call.kind(), &call.expected(), ctrls, m, rep, &replay);
                // message ID == last_id() (not available for search(), which runs on a clone) == table's last
                let (last_id, table_last) = ids[k];
                if !matches!(call, Call::Search(_)) && m.id != last_id as i64 {
                    rep.violation("C02:message-id-differs-from-last_id", format!("wire {} last_id {}", m.id, last_id), replay.clone());
                }
                if m.id != table_last as i64 {
                    rep.violation("C02:message-id-differs-from-id-table", format!("wire {} table {}", m.id, table_last), replay.clone());
                }
                if m.id != k as i64 + 1 {
                    rep.violation("C02:message-id-not-sequential-on-fresh-connection", format!("wire {} expected {}", m.id, k + 1), replay.clone());
                }
                rep.count(&format!("op_{}", call.kind()), 1);
                rep.max("max_request_bytes", w.raw.len() as u64);
                if ctrls.is_some() {
                    rep.count("requests_with_controls", 1);
                }
            }
        }
        if verbose {
            println!("{} -> {}", call.kind(), outs[k].class());
        }
        match &outs[k] {
            Outcome::Res(_) | Outcome::Search(..) | Outcome::Unit => {}
            o => rep.violation(format!("C02:call-failed:{}", call.kind()), format!("{:?}", trunc(o)), replay.clone()),
        }
    }
    if i < 2 {
        rep.sample(json!({"lane":"requests","case":i,"calls":calls.iter().map(|c| c.0.kind()).collect::<Vec<_>>(),"first_request_hex":log.first().map(|w| ber::hex(&w.raw[..w.raw.len().min(120)]))}));
    }
    let mut h = 0u64;
    for w in &log {
        h = h.wrapping_mul(31).wrapping_add(fnv(&w.raw[..w.raw.len().min(4096)]));
    }
    rep.case(Some(h));
}

pub fn requests(ctx: &Ctx) -> Report {
    let n = ctx.n(50_000, 20_000_000);
    par_cases(ctx, "requests", n, ctx.secs(25, 500), |i, rng, rep| run_requests_case(i, rng, rep, false))
}

// ---------------- modifiers ----------------

#[derive(Clone, Debug)]
enum Action {
    Normal(Call),
    /// add() with an empty value set -> AddNoValues before anything is sent
    AddNoValues(String),
    /// modify() with Mod::Add and an empty set -> AddNoValues
    ModifyAddEmpty(String),
    /// search() with an unparsable filter -> FilterParsing
    BadFilter(String),
    /// PagedResults adapter with a caller-supplied paging control -> AdapterInit
    PagedClash(String),
}

#[derive(Clone, Debug)]
struct Step {
    controls: Option<Vec<Ctl>>,
    timeout_ms: Option<u64>,
    opts: Option<(u8, bool, i32, i32)>,
    action: Action,
    /// server answers the request carrying this step's token after this many virtual ms
    delay_ms: u64,
}

fn gen_steps(rng: &mut Rng, i: u64) -> Vec<Step> {
    let n = 2 + rng.usize(7);
    let mut v = vec![];
    for k in 0..n {
        let tok = i * 100 + k as u64;
        let action = match rng.below(10) {
            0 => Action::AddNoValues(gen::token_dn(tok, rng)),
            1 => Action::ModifyAddEmpty(gen::token_dn(tok, rng)),
            2 => Action::BadFilter(gen::token_dn(tok, rng)),
            3 => Action::PagedClash(gen::token_dn(tok, rng)),
            4 | 5 => Action::Normal(Call::Search(SearchSpec { opts: None, ..gen::gen_search(rng, tok) })),
            _ => Action::Normal(gen::gen_call(rng, tok, false, false)),
        };
        let controls = if rng.chance(2, 5) { Some({ let mut c = gen::gen_req_controls(rng); c.retain(|c| c.oid != b"1.2.840.113556.1.4.319"); c }) } else { None };
        let timeout_ms = if rng.chance(2, 5) { Some(*rng.pick(&[500u64, 1000, 3000])) } else { None };
        let opts = if rng.chance(2, 5) { Some((1 + rng.below(3) as u8, true, 1 + rng.below(1000) as i32, 1 + rng.below(1000) as i32)) } else { None };
        let delay_ms = *rng.pick(&[0u64, 0, 100, 2000, 10_000]);
        v.push(Step { controls, timeout_ms, opts, action, delay_ms });
    }
    v
}

async fn run_step(ldap: &mut ldap3::Ldap, s: &Step) -> Outcome {
    if let Some(c) = &s.controls {
        let mut cs: Vec<RawControl> = world::raw_controls(c);
        if let Action::PagedClash(_) = s.action {
            cs.push(ldap3::controls::PagedResults { size: 5, cookie: vec![] }.into());
        }
        ldap.with_controls(cs);
    } else if let Action::PagedClash(_) = s.action {
        ldap.with_controls(ldap3::controls::PagedResults { size: 5, cookie: vec![] });
    }
    if let Some(t) = s.timeout_ms {
        ldap.with_timeout(Duration::from_millis(t));
    }
    if let Some(o) = s.opts {
        ldap.with_search_options(world::search_options(o));
    }
    match &s.action {
        Action::Normal(call) => invoke(ldap, call).await,
        Action::AddNoValues(dn) => invoke(ldap, &Call::Add { dn: dn.clone(), attrs: vec![(b"cn".to_vec(), vec![b"x".to_vec()]), (b"sn".to_vec(), vec![])] }).await,
        Action::ModifyAddEmpty(dn) => invoke(ldap, &Call::Modify { dn: dn.clone(), mods: vec![ModSpec::Replace(b"a".to_vec(), vec![]), ModSpec::Add(b"b".to_vec(), vec![])] }).await,
        Action::BadFilter(dn) => {
            let r = world::Caught::new(ldap.search(dn, ldap3::Scope::Base, "(a=b", vec!["x"])).await;
            match r {
                Ok(Ok(_)) => Outcome::Unit,
                Ok(Err(e)) => Outcome::Err(world::err_class(&e).into(), e.to_string()),
                Err(p) => Outcome::Panic(p.site()),
            }
        }
        Action::PagedClash(dn) => {
            let adapters: Vec<Box<dyn Adapter<_, _>>> = vec![Box::new(EntriesOnly::new()), Box::new(PagedResults::new(5))];
            let r = world::Caught::new(ldap.streaming_search_with(adapters, dn, ldap3::Scope::Base, "(a=b)", vec!["x"])).await;
            match r {
                Ok(Ok(_)) => Outcome::Unit,
                Ok(Err(e)) => Outcome::Err(world::err_class(&e).into(), e.to_string()),
                Err(p) => Outcome::Panic(p.site()),
            }
        }
    }
}

fn run_modifiers_case(i: u64, rng: &mut Rng, rep: &mut Report, verbose: bool) {
    let steps = gen_steps(rng, i);
    let delays: std::collections::HashMap<u64, u64> = steps.iter().enumerate().map(|(k, s)| (i * 100 + k as u64, s.delay_ms)).collect();
    let rt = runtime(rng.next());
    let steps2 = steps.clone();
    let (outs, log) = rt.block_on(async move {
        let c = connect();
        let mut ldap = c.ldap;
        let mut server = c.server;
        let srv = tokio::spawn(async move {
            let tx = server.tx();
            while let Some(w) = server.request().await {
                if let Ok(m) = &w.msg {
                    let b = ok_reply(m);
                    let d = m.op.token_field().and_then(gen::token_of).and_then(|t| delays.get(&t).copied()).unwrap_or(0);
                    if d == 0 {
                        tx.send(&b);
                    } else {
                        let tx = tx.clone();
                        tokio::spawn(async move {
                            tokio::time::sleep(Duration::from_millis(d)).await;
                            tx.send(&b);
                        });
                    }
                }
            }
            server.log
        });
        let mut outs = vec![];
        for s in &steps2 {
            outs.push(world::watchdog(run_step(&mut ldap, s)).await.unwrap_or(Outcome::Hung));
        }
        // let late replies drain, then close
        tokio::time::sleep(Duration::from_secs(60)).await;
        drop(ldap);
        let log = srv.await.unwrap_or_default();
        let _ = c.driver.await;
        (outs, log)
    });
    let replay = json!({"lane":"modifiers","case":i});
    // index wire requests by token
    let mut by_tok: std::collections::HashMap<u64, Vec<&ReqMsg>> = Default::default();
    for w in &log {
        if let Ok(m) = &w.msg {
            if let Some(t) = m.op.token_field().and_then(gen::token_of) {
                by_tok.entry(t).or_default().push(m);
            }
        }
    }
    // where each modifier kind was last set (step index), to name the origin of a leak
    let mut last_set: [Option<usize>; 3] = [None, None, None];
    let descs: Vec<String> = steps
        .iter()
        .map(|s| match &s.action {
            Action::Normal(c) => c.kind().to_string(),
            Action::AddNoValues(_) => "add-with-empty-value-set".into(),
            Action::ModifyAddEmpty(_) => "modify-add-with-empty-value-set".into(),
            Action::BadFilter(_) => "search-with-invalid-filter".into(),
            Action::PagedClash(_) => "paged-search-with-caller-paging-control".into(),
        })
        .collect();
    let origin = |idx: Option<usize>| -> String {
        match idx {
            Some(j) => match &steps[j].action {
                Action::Normal(Call::Search(_)) => "search".into(),
                Action::Normal(_) => "non-search-operation".into(),
                _ => descs[j].clone(),
            },
            None => "unknown".into(),
        }
    };
    for (k, (s, out)) in steps.iter().zip(&outs).enumerate() {
        let tok = i * 100 + k as u64;
        let desc = descs[k].clone();
        let wire = by_tok.get(&tok);
        match &s.action {
            Action::Normal(call) => {
                let tokless = call.expected().token_field().and_then(gen::token_of).is_none();
                let eff_delay = if tokless { 0 } else { s.delay_ms };
                let ms: Vec<&ReqMsg> = if tokless { vec![] } else { wire.cloned().unwrap_or_default() };
                if !tokless {
                    if ms.len() != 1 {
                        rep.violation("C02:modifiers:request-count", format!("step {} ({}) produced {} requests", k, desc, ms.len()), replay.clone());
                    } else {
                        // expectation: exactly this step's modifiers
                        let mut want_call = call.clone();
                        if let Call::Search(sp) = &mut want_call {
                            sp.opts = s.opts;
                        }
                        let want_ctrls = s.controls.clone();
                        let leak_c = s.controls.is_none() && ms[0].controls.is_some();
                        let leak_o = matches!(call, Call::Search(_)) && s.opts.is_none() && matches!(&ms[0].op, Req::Search { deref, .. } if *deref != 0);
                        if leak_c {
                            rep.violation(format!("C02:modifier-leak:controls:set-for:{}", origin(last_set[0])), format!("step {} ({}) carries controls {:?} set at step {:?}; steps {:?}", k, desc, trunc(&ms[0].controls), last_set[0], descs), replay.clone());
                        }
                        if leak_o {
                            rep.violation(format!("C02:modifier-leak:search-options:set-for:{}", origin(last_set[2])), format!("step {} ({}) carries search options set at step {:?}; steps {:?}", k, desc, last_set[2], descs), replay.clone());
                        }
                        if !leak_c && !leak_o {
                            compare_request(&desc, &want_call.expected(), &want_ctrls, ms[0], rep, &replay);
                        }
                    }
                }
                let must_timeout = s.timeout_ms.map(|t| eff_delay > t).unwrap_or(false);
                let may_timeout = s.timeout_ms.map(|t| eff_delay == t).unwrap_or(false);
                match out {
                    Outcome::Err(c, _) if c == "Timeout" => {
                        if !must_timeout && !may_timeout {
                            if s.timeout_ms.is_none() {
                                rep.violation(format!("C02:modifier-leak:timeout:set-for:{}", origin(last_set[1])), format!("step {} ({}) had no timeout but timed out (reply delay {} ms); timeout set at step {:?}; steps {:?}", k, desc, eff_delay, last_set[1], descs), replay.clone());
                            } else {
                                rep.violation("C02:modifiers:timeout-too-early", format!("step {} timeout {:?} delay {}", k, s.timeout_ms, eff_delay), replay.clone());
                            }
                        } else {
                            rep.count("timeouts_observed", 1);
                        }
                    }
                    Outcome::Res(_) | Outcome::Search(..) | Outcome::Unit => {
                        if must_timeout {
                            rep.violation("C02:modifiers:timeout-not-applied", format!("step {} ({}) timeout {:?} delay {}", k, desc, s.timeout_ms, eff_delay), replay.clone());
                        }
                    }
                    o => rep.violation(format!("C02:modifiers:call-failed:{}", desc), format!("{:?}", trunc(o)), replay.clone()),
                }
            }
            _ => {
                let want = match &s.action {
                    Action::AddNoValues(_) | Action::ModifyAddEmpty(_) => "AddNoValues",
                    Action::BadFilter(_) => "FilterParsing",
                    _ => "AdapterInit",
                };
                match out {
                    Outcome::Err(c, _) if c == want => {}
                    o => rep.violation(format!("C02:modifiers:local-failure-class:{}", desc), format!("expected Err({}) got {:?}", want, trunc(o)), replay.clone()),
                }
                if wire.map(|w| !w.is_empty()).unwrap_or(false) {
                    rep.violation(format!("C02:modifiers:locally-failed-op-reached-wire:{}", desc), format!("step {}", k), replay.clone());
                }
                rep.count("local_failures", 1);
            }
        }
        if s.controls.is_some() || s.timeout_ms.is_some() || s.opts.is_some() {
            rep.count("steps_with_modifiers", 1);
        }
        if s.controls.is_some() || matches!(s.action, Action::PagedClash(_)) {
            last_set[0] = Some(k);
        }
        if s.timeout_ms.is_some() {
            last_set[1] = Some(k);
        }
        if s.opts.is_some() {
            last_set[2] = Some(k);
        }
        if verbose {
            println!("step {} {} mods(c={},t={:?},o={}) delay {} -> {}", k, desc, s.controls.is_some(), s.timeout_ms, s.opts.is_some(), s.delay_ms, out.class());
        }
    }
    if i < 2 {
        rep.sample(json!({"lane":"modifiers","case":i,"steps":steps.iter().map(|s| format!("{:?} c={} t={:?} o={} delay={}", std::mem::discriminant(&s.action), s.controls.is_some(), s.timeout_ms, s.opts.is_some(), s.delay_ms)).collect::<Vec<_>>()}));
    }
    let sig: String = steps.iter().map(|s| format!("{}{}{}{}{}", match &s.action { Action::Normal(c) => c.kind(), Action::AddNoValues(_) => "A", Action::ModifyAddEmpty(_) => "M", Action::BadFilter(_) => "F", Action::PagedClash(_) => "P" }, s.controls.is_some() as u8, s.timeout_ms.unwrap_or(0), s.opts.is_some() as u8, s.delay_ms)).collect();
    rep.case(Some(fnv(sig.as_bytes())));
    let _ = HashSet::<u8>::new();
    let _ = fr::is_special(0);
}

pub fn modifiers(ctx: &Ctx) -> Report {
    let n = ctx.n(50_000, 20_000_000);
    par_cases(ctx, "modifiers", n, ctx.secs(25, 500), |i, rng, rep| run_modifiers_case(i, rng, rep, false))
}

pub fn replay(ctx: &Ctx, v: &Value) -> Report {
    let mut rep = Report::new();
    let lane = v["lane"].as_str().unwrap_or("requests");
    if let Some(i) = v["case"].as_u64() {
        let mut rng = case_rng(ctx.seed, lane, i);
        if lane == "modifiers" {
            run_modifiers_case(i, &mut rng, &mut rep, true);
        } else {
            run_requests_case(i, &mut rng, &mut rep, true);
        }
    }
    rep
}
