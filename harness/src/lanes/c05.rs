//! C05 — in-flight operations never share a message ID; IDs stay within 1..2^31-1.
use crate::ber;
use crate::gen;
use crate::lanes::c13::{paged_value, parse_paged, PAGED_OID};
use crate::msg::{reply_for, resp_node, CritEnc, Req, Res, Resp, RespCtl};
use crate::pipe::{self};
use crate::prng::{fnv, Rng};
use crate::report::{case_rng, par_cases, Ctx, Report};
use crate::world::{self, connect, invoke, runtime, Call, Outcome};
use ldap3::{Ldap, LdapConnAsync, Scope};
use serde_json::{json, Value};
use std::collections::{BTreeSet, HashMap, HashSet};
use std::sync::atomic::{AtomicU64, Ordering::SeqCst};
use std::sync::{Arc, Mutex};

const MAX: i32 = i32::MAX;

/// Reference allocator: last+1, wrap MAX -> 1, skip IDs in use.
fn model_next(last: i32, inuse: &BTreeSet<i32>) -> i32 {
    let mut n = last;
    loop {
        n = if n == MAX { 1 } else { n + 1 };
        if !inuse.contains(&n) {
            return n;
        }
    }
}

#[derive(Clone, Copy, Debug, PartialEq)]
enum Park {
    /// single operation, server silent
    Single,
    /// streaming search, server sent k entries which the client has read, and `unread` more which it
    /// has not (a reader lagging far behind still owns its ID); stream kept open
    Stream(usize, usize),
    /// streaming search read to its end (SearchResultDone received, ID released) but not yet
    /// finish()ed; finish() is called at the very end, when its old ID may belong to someone else
    DoneStream,
    /// streaming search whose next() timed out (ID scrubbed and free again), finish()ed at the very end
    TimedOutStream,
    /// PagedResults search whose first page ran (and ended) under the slot's ID and whose second page is
    /// in flight under an ID from the pen (PEN + token + 1); finish()ed at the very end, when the first
    /// page's ID may belong to someone else: only the second page's ID may be released
    PagedLater,
    /// streaming search (k entries read) that is abandoned through another handle while parked (its ID
    /// is free from then on); its reader comes back at the very end, gets the error and finish()es
    AbandonedStream(usize),
}

/// IDs far away from both ends of the range, used for the second page of `Park::PagedLater`.
const PEN: i32 = 1_000_000;

/// Server: requests whose DN says b=silent are never answered, b=eK get K entries and no Done,
/// everything else is answered at once. Records (token, wire id) in arrival order.
async fn wrap_server(mut server: pipe::ServerEnd, log: Arc<Mutex<Vec<(u64, i64, String)>>>) {
    while let Some(w) = server.request().await {
        let m = match w.msg {
            Ok(m) => m,
            Err(_) => continue,
        };
        let field = m.op.token_field().map(|f| String::from_utf8_lossy(f).into_owned()).unwrap_or_default();
        let tok = gen::token_of(field.as_bytes()).unwrap_or(0);
        log.lock().unwrap().push((tok, m.id, m.op.kind().to_string()));
        let b = field.split(',').find_map(|p| p.strip_prefix("b=")).unwrap_or("now").to_string();
        if b == "silent" {
            continue;
        }
        match &m.op {
            Req::Search { .. } => {
                if b == "pg" {
                    // two-page result: page 1 = one entry + Done with a cookie; page 2 = one entry, no Done
                    let ctl = m.controls.as_ref().and_then(|cs| cs.iter().find(|c| c.oid == PAGED_OID.as_bytes()));
                    let cookie = ctl.and_then(|c| c.val.as_ref()).and_then(|v| parse_paged(v)).map(|(_, c)| c).unwrap_or_default();
                    let mut bytes = ber::encode_min(&resp_node(m.id, &Resp::Entry { dn: format!("e={}.{}", tok, if cookie.is_empty() { 0 } else { 1 }).into_bytes(), attrs: vec![] }, None));
                    if cookie.is_empty() {
                        let c = RespCtl { oid: PAGED_OID.into(), crit: CritEnc::Absent, val: Some(paged_value(2, b"page2")) };
                        bytes.extend_from_slice(&ber::encode_min(&resp_node(m.id, &Resp::Done(Res::ok("page")), Some(&[c]))));
                    }
                    server.send(&bytes);
                } else if let Some(k) = b.strip_prefix('e') {
                    let k: usize = k.parse().unwrap_or(0);
                    let mut bytes = vec![];
                    for j in 0..k {
                        bytes.extend_from_slice(&ber::encode_min(&resp_node(m.id, &Resp::Entry { dn: format!("e={}.{}", tok, j).into_bytes(), attrs: vec![] }, None)));
                    }
                    server.send(&bytes);
                } else {
                    server.send(&ber::encode_min(&resp_node(m.id, &Resp::Done(Res::ok("done")), None)));
                }
            }
            op => {
                if let Some(r) = reply_for(op, Res::ok("ok")) {
                    server.send(&ber::encode_min(&resp_node(m.id, &r, None)));
                }
            }
        }
    }
}

fn run_wrap_case(i: u64, pattern: u32, k_below: i32, rng: &mut Rng, rep: &mut Report, verbose: bool) {
    // IDs 1..4 and MAX-3..MAX; bit b of `pattern` says whether slot b is parked
    let slots: Vec<i32> = vec![1, 2, 3, 4, MAX - 3, MAX - 2, MAX - 1, MAX];
    let parked: Vec<(i32, Park)> = slots.iter().enumerate().filter(|(b, _)| pattern >> b & 1 == 1).map(|(_, id)| (*id, match rng.below(8) { 0 | 1 => Park::Single, 2 | 3 => Park::Stream(rng.usize(3), *rng.pick(&[0usize, 0, 0, 1, 40, 1025, 3000])), 4 => Park::DoneStream, 5 => Park::TimedOutStream, 6 => Park::AbandonedStream(rng.usize(3)), _ => Park::PagedLater })).collect();
    let n_ops = (2 * k_below + 8) as usize;
    // 0 = answered at once, 1 = left pending, 2 = an operation that times out at once followed, without
    // yielding to the driver, by a new pending operation for which the timed-out ID is the next candidate
    let leave_pending: Vec<u8> = (0..n_ops).map(|_| match rng.below(10) { 0 | 1 => 1, 2 => 2, _ => 0 }).collect();
    let rt = runtime(rng.next());
    let parked2 = parked.clone();
    let lp = leave_pending.clone();
    let log: Arc<Mutex<Vec<(u64, i64, String)>>> = Arc::new(Mutex::new(vec![]));
    let log2 = log.clone();
    let log3 = log.clone();
    let (events, final_table, probes, outstanding_at_end) = rt.block_on(async move {
        let c = connect();
        let ldap = c.ldap;
        let srv = tokio::spawn(wrap_server(c.server, log2));
        // park real pending operations on the chosen IDs
        let mut keep: Vec<Box<dyn std::any::Any>> = vec![];
        let mut done_streams = vec![];
        let mut paged_streams = vec![];
        let mut paged_toks: Vec<u64> = vec![];
        let mut abandoned_streams = vec![];
        let mut abandoned_toks: Vec<u64> = vec![];
        let mut probes: Vec<(i32, i32, String)> = vec![];
        let mut tok = 1u64;
        let mut events: Vec<(String, u64, i32, Vec<i32>)> = vec![]; // (what, token, last_after, inuse_after)
        for (id, kind) in &parked2 {
            ldap.verif_set_last_id(*id - 1);
            match kind {
                Park::Single => {
                    let mut l = ldap.clone();
                    let dn = format!("op={},b=silent", tok);
                    keep.push(Box::new(tokio::spawn(async move { invoke(&mut l, &Call::Delete { dn }).await })));
                    world::settle().await;
                }
                Park::Stream(k, unread) => {
                    let mut l = ldap.clone();
                    let base = format!("op={},b=e{}", tok, k + unread);
                    let mut st = l.streaming_search(&base, Scope::Base, "(a=b)", vec!["*"]).await.expect("park stream");
                    for _ in 0..*k {
                        let _ = st.next().await;
                    }
                    world::settle().await;
                    keep.push(Box::new(st));
                }
                Park::AbandonedStream(k) => {
                    let mut l = ldap.clone();
                    let base = format!("op={},b=e{}", tok, k);
                    let mut st = l.streaming_search(&base, Scope::Base, "(a=b)", vec!["*"]).await.expect("park stream to abandon");
                    for _ in 0..*k {
                        let _ = st.next().await;
                    }
                    world::settle().await;
                    let t = ldap.verif_id_table();
                    events.push(("park".into(), tok, t.0, t.1));
                    let mut la = ldap.clone();
                    let _ = invoke(&mut la, &Call::Abandon(*id)).await;
                    world::settle().await;
                    abandoned_streams.push(st);
                    abandoned_toks.push(tok);
                }
                Park::TimedOutStream => {
                    let mut l = ldap.clone();
                    let base = format!("op={},b=silent", tok);
                    l.with_timeout(std::time::Duration::from_millis(50));
                    let mut st = l.streaming_search(&base, Scope::Base, "(a=b)", vec!["*"]).await.expect("park timed-out stream");
                    let _ = st.next().await; // times out after 50 virtual ms
                    world::settle().await;
                    done_streams.push(st);
                }
                Park::PagedLater => {
                    let mut l = ldap.clone();
                    let base = format!("op={},b=pg", tok);
                    let adapters: Vec<Box<dyn ldap3::adapters::Adapter<'static, String, Vec<String>>>> = vec![Box::new(ldap3::adapters::PagedResults::new(1))];
                    let mut st = l.streaming_search_with(adapters, &base, Scope::Base, "(a=b)", vec!["*".to_string()]).await.expect("park paged stream");
                    let _ = st.next().await; // the entry of page 1
                    world::settle().await;
                    let t = ldap.verif_id_table();
                    events.push(("park-paged-1".into(), tok, t.0, t.1));
                    // the next call consumes page 1's result and starts page 2, which gets an ID from the pen
                    ldap.verif_set_last_id(PEN + tok as i32);
                    let _ = st.next().await; // the entry of page 2
                    world::settle().await;
                    paged_streams.push(st);
                    paged_toks.push(tok);
                }
                Park::DoneStream => {
                    let mut l = ldap.clone();
                    let base = format!("op={},b=now", tok);
                    let mut st = l.streaming_search(&base, Scope::Base, "(a=b)", vec!["*"]).await.expect("park done stream");
                    while let Ok(Some(_)) = st.next().await {}
                    world::settle().await;
                    done_streams.push(st);
                }
            }
            let t = ldap.verif_id_table();
            events.push((match kind { Park::DoneStream | Park::TimedOutStream => "park-done".into(), Park::PagedLater => "park-paged-2".into(), Park::AbandonedStream(_) => "abandoned".into(), _ => "park".into() }, tok, t.0, t.1));
            tok += 1;
        }
        // position the counter below the wrap point and issue operations
        ldap.verif_set_last_id(MAX - k_below);
        let t = ldap.verif_id_table();
        events.push(("position".into(), 0, t.0, t.1));
        let mut main = ldap.clone();
        for p in lp.iter() {
            if *p == 2 {
                let before = ldap.verif_id_table().0;
                let mut la = ldap.clone();
                la.with_timeout(std::time::Duration::ZERO);
                let _ = invoke(&mut la, &Call::Delete { dn: format!("op={},b=silent", 1_000_000 + tok) }).await;
                // the timed-out ID is the next candidate again; the new operation is started in the same
                // poll, before the driver can have processed the scrub of the timed-out one
                ldap.verif_set_last_id(before);
                let mut lb = ldap.clone();
                let dn = format!("op={},b=silent", tok);
                let mut fut = Box::pin(async move { invoke(&mut lb, &Call::Delete { dn }).await });
                std::future::poll_fn(|cx| {
                    let _ = std::future::Future::poll(fut.as_mut(), cx);
                    std::task::Poll::Ready(())
                })
                .await;
                keep.push(Box::new(tokio::spawn(fut)));
                world::settle().await;
                let t = ldap.verif_id_table();
                events.push(("issue-after-timeout".into(), tok, t.0, t.1));
            } else if *p == 1 {
                let mut l = ldap.clone();
                let dn = format!("op={},b=silent", tok);
                keep.push(Box::new(tokio::spawn(async move { invoke(&mut l, &Call::Delete { dn }).await })));
                world::settle().await;
                let t = ldap.verif_id_table();
                events.push(("issue-pending".into(), tok, t.0, t.1));
            } else {
                // every operation kind allocates its ID the same way, binds (which other implementations treat
                // as a fresh start of the session) included
                let dn = format!("op={},b=now", tok);
                let call = match tok % 5 {
                    0 => Call::Bind { dn, pw: "secret".into() },
                    1 => Call::Compare { dn, attr: "a".into(), val: b"v".to_vec() },
                    2 => Call::ModDn { dn, rdn: "cn=x".into(), delold: false, newsup: None },
                    _ => Call::Delete { dn },
                };
                let o = world::watchdog(invoke(&mut main, &call)).await.unwrap_or(Outcome::Hung);
                world::settle().await;
                let t = ldap.verif_id_table();
                events.push((format!("issue-answered:{}", o.class()), tok, t.0, t.1));
            }
            tok += 1;
        }
        // a handle whose last operation completed long ago issues an Abandon that times out at once, while
        // the ID of that last operation belongs to a new, pending operation
        let p_last = main.last_id();
        if p_last > 0 && !ldap.verif_id_table().1.contains(&p_last) {
            ldap.verif_set_last_id(if p_last == 1 { MAX } else { p_last - 1 });
            let mut l = ldap.clone();
            let dn = format!("op={},b=silent", tok);
            keep.push(Box::new(tokio::spawn(async move { invoke(&mut l, &Call::Delete { dn }).await })));
            world::settle().await;
            let t = ldap.verif_id_table();
            events.push(("issue-pending-on-a-recycled-id".into(), tok, t.0, t.1));
            tok += 1;
            main.with_timeout(std::time::Duration::ZERO);
            let _ = invoke(&mut main, &Call::Abandon(1_234_567)).await;
            world::settle().await;
            let t = ldap.verif_id_table();
            events.push(("abandon".into(), 0, t.0, t.1));
        }
        let _ = tok;
        // now finish() the streams that ended long ago: nothing may change for anybody else
        if !done_streams.is_empty() || !paged_streams.is_empty() || !abandoned_streams.is_empty() {
            for st in abandoned_streams.iter_mut() {
                // the reader comes back and learns that its search is gone
                let _ = st.next().await;
                let _ = st.finish().await;
            }
            for st in done_streams.iter_mut() {
                let _ = st.finish().await;
            }
            for st in paged_streams.iter_mut() {
                let _ = st.finish().await;
            }
            world::settle().await;
            let t = ldap.verif_id_table();
            events.push(("finish-done-streams".into(), 0, t.0, t.1));
        }
        // probes: for every operation that is still outstanding, make its ID the next candidate and
        // allocate once; the allocator must step over it
        let outstanding_now: Vec<i64> = {
            let lg = log3.lock().unwrap();
            let answered_or_done: std::collections::HashSet<u64> = events.iter().filter(|e| e.0.starts_with("issue-answered") || e.0 == "park-done").map(|e| e.1).collect();
            let mut ids: Vec<i64> = vec![];
            let mut seen_tok: HashMap<u64, usize> = HashMap::new();
            for (t, id, _) in lg.iter() {
                let nth = seen_tok.entry(*t).or_insert(0);
                *nth += 1;
                let paged = paged_toks.contains(t) || abandoned_toks.contains(t) || *t == 0;
                // paged streams: both pages are over (page 1 ended, page 2 was finished above)
                if answered_or_done.contains(t) || paged || *t >= 1_000_000 {
                    continue;
                }
                ids.push(*id);
            }
            ids
        };
        for x in outstanding_now.iter() {
            if *x < 1 || *x > MAX as i64 {
                continue;
            }
            let x = *x as i32;
            ldap.verif_set_last_id(if x == 1 { MAX } else { x - 1 });
            let o = world::watchdog(invoke(&mut main, &Call::Delete { dn: format!("op={},b=now", 2_000_000 + x as u64 % 1_000_000) })).await.unwrap_or(Outcome::Hung);
            world::settle().await;
            probes.push((x, main.last_id(), o.class()));
        }
        let final_table = ldap.verif_id_table();
        drop(keep);
        drop(main);
        drop(ldap);
        srv.abort();
        let _ = srv.await;
        c.driver.abort();
        (events, final_table, probes, outstanding_now)
    });
    let replay = json!({"lane":"wrap","case":i,"pattern":pattern,"k_below":k_below});
    let wire = log.lock().unwrap().clone();
    let mut wire_ids: HashMap<u64, Vec<i64>> = HashMap::new();
    for (t, id, _) in wire.iter() {
        wire_ids.entry(*t).or_default().push(*id);
    }
    // parked operations got tokens 1.. in order
    let parked_tok: HashMap<i32, u64> = parked.iter().enumerate().map(|(k, (id, _))| (*id, k as u64 + 1)).collect();
    // replay the history. Judged (this is what the property states): every wire ID lies in 1..=MAX, no
    // request goes out under the ID of an operation that is still outstanding, operations near the wrap
    // point complete, and (probes) the allocator steps over the ID of every outstanding operation.
    // The reference allocator (last+1, wrap, skip) and the library's in-use table are compared as well,
    // but only counted: another allocation order or other bookkeeping does not break the property.
    let mut inuse: BTreeSet<i32> = BTreeSet::new(); // model of the library's table
    let mut outstanding: BTreeSet<i64> = BTreeSet::new(); // wire IDs of operations still waiting
    let mut last = 0;
    let mut wrapped = false;
    for (what, tok, last_after, inuse_after) in &events {
        if what == "position" {
            last = MAX - k_below;
            continue;
        }
        if what == "finish-done-streams" {
            // finishing a paged stream on its second page releases that page's ID (and only that)
            inuse.retain(|x| !(*x > PEN && *x < PEN + 1000));
            outstanding.retain(|x| !(*x > PEN as i64 && *x < PEN as i64 + 1000));
            let model_inuse: Vec<i32> = inuse.iter().copied().collect();
            if inuse_after != &model_inuse {
                rep.count("table_differs_from_model_after_finishing_ended_streams(not judged by itself)", 1);
            }
            continue;
        }
        if what == "park" || what == "park-done" || what == "park-paged-1" {
            // counter was set to id-1 by the harness
            let id = parked.iter().find(|(pid, _)| parked_tok.get(pid) == Some(tok)).map(|p| p.0).unwrap_or(0);
            last = id - 1;
        }
        if what == "park-paged-2" {
            // page 1 has ended in the meantime (its ID is free); the counter was moved to the pen
            let id = parked.iter().find(|(pid, _)| parked_tok.get(pid) == Some(tok)).map(|p| p.0).unwrap_or(0);
            inuse.remove(&id);
            last = PEN + *tok as i32;
        }
        if what == "abandoned" {
            // the parked stream was abandoned: the Abandon took the next ID for a moment, the stream's ID is free
            let id = parked.iter().find(|(pid, _)| parked_tok.get(pid) == Some(tok)).map(|p| p.0).unwrap_or(0);
            let a = model_next(last, &inuse);
            last = a;
            inuse.remove(&id);
            outstanding.remove(&(id as i64));
            let model_inuse: Vec<i32> = inuse.iter().copied().collect();
            if *last_after != last || inuse_after != &model_inuse {
                rep.count("quiescent_points_where_the_table_differs_from_the_model(not judged)", 1);
            }
            continue;
        }
        if what == "abandon" {
            last = model_next(last, &inuse);
            let model_inuse: Vec<i32> = inuse.iter().copied().collect();
            if *last_after != last || inuse_after != &model_inuse {
                rep.count("quiescent_points_where_the_table_differs_from_the_model(not judged)", 1);
            }
            continue;
        }
        if what == "issue-pending-on-a-recycled-id" {
            // the harness put the counter just below the ID in question
            last = *last_after - 1;
            if last == 0 {
                last = MAX;
            }
        }
        let mut timed_out_id: Option<i32> = None;
        if what == "issue-after-timeout" {
            // the timed-out operation took the next ID and still holds it when its successor allocates
            let a = model_next(last, &inuse);
            inuse.insert(a);
            timed_out_id = Some(a);
        }
        let want = model_next(last, &inuse);
        if want < last {
            wrapped = true;
        }
        let got = wire_ids.get(tok).and_then(|v| v.get(if what == "park-paged-2" { 1 } else { 0 })).copied();
        match got {
            None => rep.violation("C05:request-not-seen-on-the-wire", format!("{} token {}", what, tok), replay.clone()),
            Some(g) => {
                if g < 1 || g > MAX as i64 {
                    rep.violation("C05:message-id-out-of-range", format!("{} token {}: wire id {}", what, tok, g), replay.clone());
                }
                if outstanding.contains(&g) {
                    rep.violation("C05:id-of-an-outstanding-operation-reused", format!("{} token {} went out with wire id {} while operations with IDs {:?} were outstanding", what, tok, g, outstanding), replay.clone());
                } else if g != want as i64 {
                    rep.count("allocations_differing_from_the_reference_allocator(not judged)", 1);
                }
                match what.as_str() {
                    "park" | "park-paged-2" | "issue-pending" | "issue-after-timeout" | "issue-pending-on-a-recycled-id" => {
                        outstanding.insert(g);
                    }
                    _ => {}
                }
            }
        }
        last = want;
        inuse.insert(want);
        if let Some(a) = timed_out_id {
            // by the quiescent point the driver has processed the scrub of the timed-out operation
            inuse.remove(&a);
        }
        if what == "park-done" || what == "park-paged-1" {
            // SearchResultDone arrived: the ID is free again
            inuse.remove(&want);
        }
        if what.starts_with("issue-answered") {
            if !what.ends_with(":Ok") {
                rep.violation("C05:operation-failed-near-wrap", format!("{} token {}", what, tok), replay.clone());
            }
            inuse.remove(&want);
        }
        let model_inuse: Vec<i32> = inuse.iter().copied().collect();
        if *last_after != last || inuse_after != &model_inuse {
            rep.count("quiescent_points_where_the_table_differs_from_the_model(not judged)", 1);
        }
        if verbose {
            println!("{} token {} wire {:?} want {} table ({}, {:?}) outstanding {:?}", what, tok, got, want, last_after, inuse_after, outstanding);
        }
    }
    // probes
    for (x, got, outcome) in &probes {
        rep.count("probes(allocation with an outstanding ID as next candidate)", 1);
        if *got == *x {
            rep.violation("C05:allocator-hands-out-the-id-of-an-outstanding-operation", format!("with the counter just below {} (operation still outstanding; all outstanding: {:?}) the next operation went out with ID {}", x, outstanding_at_end, got), replay.clone());
        } else if outstanding_at_end.contains(&(*got as i64)) {
            rep.violation("C05:allocator-hands-out-the-id-of-an-outstanding-operation", format!("probe below {} got {} which belongs to another outstanding operation {:?}", x, got, outstanding_at_end), replay.clone());
        }
        if *got < 1 {
            rep.violation("C05:message-id-out-of-range", format!("probe below {} got {}", x, got), replay.clone());
        }
        if outcome != "Ok" {
            rep.violation("C05:operation-failed-near-wrap", format!("probe below {}: {}", x, outcome), replay.clone());
        }
    }
    if verbose {
        println!("probes {:?}", probes);
    }
    let _ = final_table;
    if wrapped {
        rep.count("cases_that_wrapped", 1);
    }
    if parked.iter().any(|(_, k)| matches!(k, Park::Stream(_, u) if *u > 1024)) {
        rep.count("cases_with_a_parked_stream_lagging_by_more_than_1024_items", 1);
    }
    rep.count("allocations_checked", events.len() as u64 - 1);
    rep.distinct("parked_patterns", pattern as u64);
    if i < 2 {
        rep.sample(json!({"lane":"wrap","case":i,"parked":format!("{:?}", parked),"counter_positioned_at":format!("MAX-{}", k_below),"wire_ids":wire.iter().map(|w| w.1).collect::<Vec<_>>()}));
    }
    rep.case(if wrapped { Some((pattern as u64) << 8 | k_below as u64 | (fnv(format!("{:?}{:?}", parked, leave_pending).as_bytes()) << 16)) } else { None });
}

/// Every subset of {1..4, MAX-3..MAX} parked x counter positions MAX-k, k in 0..=8.
pub fn wrap(ctx: &Ctx) -> Report {
    let reps = ctx.n(4, 400);
    let total = 256 * 9 * reps;
    let mut rep = par_cases(ctx, "wrap", total, ctx.secs(60, 600), |i, rng, rep| {
        let pattern = (i % 256) as u32;
        let k = ((i / 256) % 9) as i32;
        run_wrap_case(i, pattern, k, rng, rep, false)
    });
    if rep.counters.get("stopped_by_time_budget").is_none() {
        rep.exhaustive.push("every subset of {1,2,3,4,MAX-3,MAX-2,MAX-1,MAX} parked on real pending operations x counter positions MAX-0..MAX-8".into());
    }
    rep
}

// ---------------- real threads ----------------

#[derive(Default)]
struct Shared {
    outstanding: Mutex<HashSet<i64>>,
    violations: Mutex<Vec<String>>,
    requests: AtomicU64,
    max_outstanding: AtomicU64,
}

fn run_threads_case(i: u64, rng: &mut Rng, rep: &mut Report, tiny: bool) {
    let workers = if tiny { 2 } else { 2 + rng.usize(7) };
    let tasks = if tiny { 3 } else { 4 + rng.usize(45) };
    let rounds = if tiny { 3 } else { 20 + rng.usize(200) };
    let start_near_wrap = rng.chance(1, 3);
    let rt = tokio::runtime::Builder::new_multi_thread().worker_threads(workers).enable_time().build().expect("mt runtime");
    let sh = Arc::new(Shared::default());
    let sh2 = sh.clone();
    let mut srng = rng.fork();
    let burst_min = if rng.bool() { tasks } else { 1 + rng.usize(tasks) };
    let outcome = rt.block_on(async move {
        let (client, mut server) = pipe::pair();
        let (conn, ldap) = LdapConnAsync::verif_from_io(Box::new(client));
        let drv = tokio::spawn(async move { conn.drive().await.map_err(|e| e.to_string()) });
        if start_near_wrap {
            ldap.verif_set_last_id(MAX - (tasks as i32 * 3));
        }
        let srv = tokio::spawn(async move {
            // hold replies until `burst_min` requests are outstanding (or nothing more is coming), then answer
            // them all at once in random order: every waiting task wakes and allocates at the same moment
            let mut held: Vec<(i64, Req)> = vec![];
            loop {
                let w = if held.len() >= burst_min { server.try_request() } else {
                    match tokio::time::timeout(std::time::Duration::from_millis(if held.is_empty() { 5000 } else { 2 }), server.request()).await {
                        Ok(Some(w)) => Some(w),
                        Ok(None) => {
                            if held.is_empty() { break; }
                            None
                        }
                        Err(_) => {
                            if held.is_empty() && server.client_closed() { break; }
                            None
                        }
                    }
                };
                match w {
                    Some(w) => {
                        if let Err(e) = &w.msg {
                            // not a request at all (e.g. a message ID that is not a BER INTEGER in range): nobody will
                            // ever be answered under it; end the connection instead of leaving its caller waiting
                            sh2.violations.lock().unwrap().push(format!("undecodable:{} {}", e, ber::hex(&w.raw[..w.raw.len().min(24)])));
                            server.eof();
                            break;
                        }
                        if let Ok(m) = w.msg {
                            sh2.requests.fetch_add(1, SeqCst);
                            if m.id < 1 || m.id > MAX as i64 {
                                sh2.violations.lock().unwrap().push(format!("range:{}", m.id));
                            }
                            if matches!(m.op, Req::Abandon(_)) {
                                continue;
                            }
                            let mut o = sh2.outstanding.lock().unwrap();
                            if !o.insert(m.id) {
                                sh2.violations.lock().unwrap().push(format!("dup:{}", m.id));
                            }
                            let n = o.len() as u64;
                            drop(o);
                            sh2.max_outstanding.fetch_max(n, SeqCst);
                            held.push((m.id, m.op));
                        }
                    }
                    None => {
                        if held.is_empty() {
                            continue;
                        }
                        srng.shuffle(&mut held);
                        let mut bytes = vec![];
                        for (id, op) in held.drain(..) {
                            sh2.outstanding.lock().unwrap().remove(&id);
                            if let Some(r) = reply_for(&op, Res::ok("ok")) {
                                bytes.extend_from_slice(&ber::encode_min(&resp_node(id, &r, None)));
                            }
                        }
                        server.send(&bytes);
                    }
                }
            }
        });
        let mut hs = vec![];
        for t in 0..tasks {
            let mut l: Ldap = ldap.clone();
            hs.push(tokio::spawn(async move {
                let mut fails = 0u32;
                for r in 0..rounds {
                    let res = if (t + r) % 7 == 0 {
                        // a locally completing operation: allocates an ID without a server round trip
                        l.abandon(MAX / 2).await.map(|_| ())
                    } else {
                        if (t + r) % 11 == 3 {
                            // binds are operations like any other as far as IDs go
                            l.simple_bind(&format!("op={}", t * 100000 + r), "secret").await.map(|_| ())
                        } else {
                            l.delete(&format!("op={}", t * 100000 + r)).await.map(|_| ())
                        }
                    };
                    if res.is_err() {
                        fails += 1;
                    }
                }
                fails
            }));
        }
        drop(ldap);
        let mut fails = 0;
        // generous wall-clock guard: its expiry says nothing about the property
        let guard = tokio::time::Instant::now() + std::time::Duration::from_secs(120);
        for h in hs {
            match tokio::time::timeout_at(guard, h).await {
                Ok(r) => fails += r.unwrap_or(1000),
                Err(_) => return (0, "GUARD-EXPIRED".to_string()),
            }
        }
        let _ = tokio::time::timeout_at(guard, srv).await;
        let d = tokio::time::timeout_at(guard, drv).await;
        (fails, format!("{:?}", d))
    });
    if outcome.1 == "GUARD-EXPIRED" {
        rep.inconclusive(format!("threads case {}: client tasks still running after 120 s of wall-clock time", i));
        rep.case(None);
        return;
    }
    let replay = json!({"lane":"threads","case":i});
    let v = sh.violations.lock().unwrap().clone();
    let dups: Vec<&String> = v.iter().filter(|s| s.starts_with("dup")).collect();
    if !dups.is_empty() {
        rep.violation("C05:two-in-flight-operations-share-a-message-id", format!("{} duplicate(s), e.g. {:?}; {} workers {} tasks", dups.len(), &dups[..dups.len().min(5)], workers, tasks), replay.clone());
    }
    if let Some(u) = v.iter().find(|s| s.starts_with("undecodable")) {
        rep.violation("C05:request-not-decodable(message-id-not-a-valid-integer-in-range)", format!("{}; {} workers {} tasks", u, workers, tasks), replay.clone());
    }
    if v.iter().any(|s| s.starts_with("range")) {
        rep.violation("C05:message-id-out-of-range", format!("{:?}", &v[..v.len().min(5)]), replay.clone());
    }
    if outcome.0 > 0 && dups.is_empty() && !v.iter().any(|s| s.starts_with("undecodable")) {
        rep.violation("C05:operations-failed-under-concurrency", format!("{} failed; driver {}", outcome.0, outcome.1), replay.clone());
    }
    rep.count("requests_checked", sh.requests.load(SeqCst));
    rep.max("max_outstanding_at_once", sh.max_outstanding.load(SeqCst));
    rep.max("max_worker_threads", workers as u64);
    if start_near_wrap {
        rep.count("cases_starting_below_wrap", 1);
    }
    if i < 2 {
        rep.sample(json!({"lane":"threads","case":i,"worker_threads":workers,"tasks":tasks,"rounds":rounds,"requests":sh.requests.load(SeqCst),"max_outstanding":sh.max_outstanding.load(SeqCst)}));
    }
    rep.case(Some(fnv(format!("{}{}{}{}", workers, tasks, rounds, i).as_bytes())));
}

/// Cloned handles on a multi-thread runtime (real OS threads), server releasing replies in bursts.
pub fn threads(ctx: &Ctx) -> Report {
    let n = ctx.n(300, 30_000);
    // each case owns a multi-thread runtime; run few cases at a time so that worker threads get real cores
    let mut c2 = ctx.clone();
    c2.threads = 2;
    let tiny = ctx.tiny;
    par_cases(&c2, "threads", n, ctx.secs(40, 900), |i, rng, rep| run_threads_case(i, rng, rep, tiny))
}

pub fn replay(ctx: &Ctx, v: &Value) -> Report {
    let mut rep = Report::new();
    if let Some(i) = v["case"].as_u64() {
        let lane = v["lane"].as_str().unwrap_or("wrap");
        let mut rng = case_rng(ctx.seed, lane, i);
        if lane == "wrap" {
            run_wrap_case(i, v["pattern"].as_u64().unwrap_or(0) as u32, v["k_below"].as_i64().unwrap_or(0) as i32, &mut rng, &mut rep, true);
        } else {
            run_threads_case(i, &mut rng, &mut rep, false);
        }
    }
    rep
}

// ---------------- octet boundaries of the ID's INTEGER encoding ----------------

/// The ID a request leaves the client with is the ID the client allocated for it, everywhere in the
/// range: the counter is positioned (ID hook) a few steps below 2^k and 2^k - 2^(k-8)... for every k,
/// a handful of operations of different kinds is run across the boundary, and the IDs the scripted
/// server decodes (with its own strict INTEGER reader) must be the allocated ones, in 1..=2^31-1.
pub fn boundaries(ctx: &Ctx) -> Report {
    let mut rep = Report::new();
    let mut points: Vec<i32> = vec![];
    for k in 7..31u32 {
        let p = 1i64 << k;
        for d in [0i64, -(1 << (k.saturating_sub(8))), 1 << (k.saturating_sub(8)), p / 2] {
            let v = p + d;
            if v > 8 && v < MAX as i64 - 8 {
                points.push(v as i32);
            }
        }
    }
    points.extend_from_slice(&[0x8000, 0x807f, 0x8080, 0xff7f, 0xffff, 0x80_0000, 0x80_007f, 0xff_ff7f, 0x7fff_ff00]);
    points.sort_unstable();
    points.dedup();
    if ctx.tiny {
        points.truncate(6);
    }
    let mut rng = case_rng(ctx.seed, "boundaries", 0);
    for (pi, &p) in points.iter().enumerate() {
        let rt = runtime(rng.next());
        let span = 6usize;
        let (allocated, wire) = rt.block_on(async move {
            let pi = pi;
            let c = connect();
            let mut ldap = c.ldap;
            let mut server = c.server;
            let srv = tokio::spawn(async move {
                let mut seen: Vec<(i64, String, bool)> = vec![];
                while let Some(w) = server.request().await {
                    match &w.msg {
                        Ok(m) => {
                            // strict: the INTEGER content must be the shortest form
                            let strict = match ber::decode(&w.raw) {
                                Ok((ber::Node::C { kids, .. }, _, _)) => matches!(kids.first(), Some(ber::Node::P { data, .. }) if *data == ber::int_content(m.id)),
                                _ => false,
                            };
                            seen.push((m.id, m.op.kind().to_string(), strict));
                            if matches!(&m.op, Req::Del(dn) if dn == b"op=hold") {
                                continue;
                            }
                            if let Some(r) = reply_for(&m.op, Res::ok("ok")) {
                                server.send(&ber::encode_min(&resp_node(m.id, &r, None)));
                            }
                        }
                        Err(e) => seen.push((i64::MIN, format!("undecodable: {} {}", e, ber::hex(&w.raw[..w.raw.len().min(24)])), false)),
                    }
                }
                seen
            });
            ldap.verif_set_last_id(p - (span as i32) / 2);
            let mut allocated = vec![];
            for k in 0..span {
                let call = match k % 3 {
                    0 => Call::Delete { dn: format!("op={}", k) },
                    1 => Call::Compare { dn: format!("op={}", k), attr: "a".into(), val: b"v".to_vec() },
                    _ => Call::Extended { name: "1.3.6.1.4.1.4203.1.11.3".into(), val: None },
                };
                let o = world::watchdog(invoke(&mut ldap, &call)).await.unwrap_or(Outcome::Hung);
                allocated.push((ldap.last_id(), o.class()));
            }
            // the session ends with an Unbind, a request like any other as far as its message ID goes: sent from a
            // handle that never ran an operation of its own, or from one whose last operation is still outstanding
            // (its caller gave up on it; the server never answers "hold")
            let mut lu = ldap.clone();
            if pi % 2 == 1 {
                let _ = tokio::time::timeout(std::time::Duration::from_millis(20), invoke(&mut lu, &Call::Delete { dn: "op=hold".into() })).await;
                allocated.push((lu.last_id(), "Ok".to_string()));
            }
            let _ = world::watchdog(lu.unbind()).await;
            drop(lu);
            drop(ldap);
            let seen = srv.await.unwrap_or_default();
            let _ = c.driver.await;
            (allocated, seen)
        });
        let replay = json!({"lane":"boundaries","point":p});
        for (k, (id, outcome)) in allocated.iter().enumerate() {
            match wire.get(k) {
                Some((wid, kind, strict)) => {
                    if *wid == i64::MIN {
                        rep.violation("C05:request-not-decodable-near-an-octet-boundary-of-the-id", format!("allocated ID {}: {}", id, kind), replay.clone());
                    } else if *wid != *id as i64 {
                        rep.violation(if *wid < 1 || *wid > MAX as i64 { "C05:id-out-of-range-on-the-wire" } else { "C05:wire-id-differs-from-the-allocated-id" }, format!("the client allocated ID {} ({}), the request left with message ID {}", id, kind, wid), replay.clone());
                    } else if !*strict {
                        rep.count("ids_in_a_non_shortest_encoding(not judged)", 1);
                    }
                    if outcome != "Ok" && *wid == *id as i64 {
                        rep.violation("C05:operation-failed-near-an-octet-boundary-of-the-id", format!("ID {} ({}): {}", id, kind, outcome), replay.clone());
                    }
                }
                None => rep.violation("C05:request-missing-near-an-octet-boundary-of-the-id", format!("allocated ID {} never reached the server (outcome {})", id, outcome), replay.clone()),
            }
            rep.count("ids_checked_across_octet_boundaries", 1);
        }
        match wire.get(allocated.len()) {
            Some((uid, kind, _)) if kind == "unbind" => {
                let outstanding: Vec<i64> = if pi % 2 == 1 { allocated.last().map(|a| vec![a.0 as i64]).unwrap_or_default() } else { vec![] };
                if *uid < 1 || *uid > MAX as i64 {
                    rep.violation("C05:id-out-of-range-on-the-wire:unbind", format!("the UnbindRequest left with message ID {} (handle {})", uid, if pi % 2 == 1 { "whose last operation is outstanding" } else { "that never ran an operation" }), replay.clone());
                } else if outstanding.contains(uid) {
                    rep.violation("C05:id-of-an-outstanding-operation-reused:unbind", format!("the UnbindRequest left with message ID {}, the ID of the handle's last operation, which is still outstanding", uid), replay.clone());
                } else {
                    rep.count("unbind_ids_checked", 1);
                }
            }
            other => rep.violation("C05:request-missing-near-an-octet-boundary-of-the-id:unbind", format!("expected the UnbindRequest as request {}, the server saw {:?}", allocated.len() + 1, other), replay.clone()),
        }
        rep.case(Some(p as u64));
        if pi < 2 {
            rep.sample(json!({"lane":"boundaries","counter_positioned_below":p,"allocated":allocated.iter().map(|a| a.0).collect::<Vec<_>>(),"wire":wire.iter().map(|w| w.0).collect::<Vec<_>>()}));
        }
    }
    rep.exhaustive.push("counter positions around 2^k, 2^k +- 2^(k-8) and 1.5 * 2^k for every k in 7..=30, six operations across each".into());
    rep
}
