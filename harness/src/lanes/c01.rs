//! C01 — responses are routed to the operation whose message ID they carry.
use crate::ber::{self, Enc};
use crate::gen;
use crate::lanes::c03::{expect_ctrls, expect_res, plan_response};
use crate::msg::{resp_node, Res, Resp, RespCtl};
use crate::pipe::{Chunking, ServerEnd};
use crate::prng::{fnv, Rng};
use crate::report::{case_rng, par_cases, Ctx, Report};
use crate::world::{self, connect, invoke, item_out, res_out, runtime, Call, Caught, ItemOut, Outcome};
use ldap3::{Ldap, Scope};
use serde_json::{json, Value};
use std::collections::{HashMap, VecDeque};
use std::sync::atomic::Ordering::SeqCst;

type Plan = Vec<(Resp, Option<Vec<RespCtl>>)>;

#[derive(Clone, Debug, Default)]
pub struct MuxLog {
    /// token -> (wire id, planned messages)
    pub plans: HashMap<u64, (i64, Plan)>,
    /// order in which (wire id, index) were sent
    pub send_order: Vec<(i64, usize)>,
    pub nobody_sent: u64,
    pub hostile_sent: u64,
    pub flushes: u64,
}

#[derive(Clone, Copy, Debug)]
pub struct MuxOpts {
    pub nobody: bool,
    pub hostile_ids: bool,
    /// the ID counter wraps around during this case
    pub wraps: bool,
}

fn nobody_message(rng: &mut Rng, used: &[i64], done: &[i64], wraps: bool) -> Vec<u8> {
    // unsolicited (ID 0), late (ID of a completed op), unknown ID
    let kind = rng.below(4);
    // "unknown" IDs come from a band the counter never reaches in these lanes (it starts at 0 or
    // just below the wrap point); IDs of completed operations are only used while IDs cannot be
    // re-allocated (no wrap in this case): a "late" response for an ID that is in use again would,
    // correctly, be delivered to its new owner.
    let id = match kind {
        0 => 0,
        1 if !done.is_empty() && !wraps => *rng.pick(done),
        _ => loop {
            let c = (1i64 << 30) + rng.below(1 << 20) as i64;
            if !used.contains(&c) {
                break c;
            }
        },
    };
    let res = Res { rc: 52, matched: String::new(), text: format!("NOBODY:{}", id), refs: None };
    let r = match rng.below(4) {
        0 => Resp::Extended { res, name: Some("1.3.6.1.4.1.1466.20036".into()), value: None },
        1 => Resp::Done(res),
        2 => Resp::Entry { dn: format!("NOBODY={}", id).into_bytes(), attrs: vec![] },
        _ => Resp::Modify(res),
    };
    let mut node = resp_node(id, &r, None);
    if kind == 0 && rng.bool() {
        // Active Directory's malformed Notice of Disconnection: OID outside the ExtendedResponse
        if let ber::Node::C { kids, .. } = &mut node {
            kids.push(ber::ctx_prim(10, b"1.3.6.1.4.1.1466.20036"));
        }
    }
    ber::encode_min(&node)
}

/// Like `plan_response`, but a search whose base is marked `dc=pilot` gets a long item sequence
/// so that it stays open while many other operations come and go.
fn plan_for(rng: &mut Rng, id: i64, op: &crate::msg::Req) -> Plan {
    if let crate::msg::Req::Search { base, .. } = op {
        if base.ends_with(b"dc=pilot") {
            let mut v: Plan = (0..40).map(|k| (Resp::Entry { dn: format!("e={}.{},dc=x", id, k).into_bytes(), attrs: vec![] }, None)).collect();
            v.push((Resp::Done(Res::ok(&format!("t:{}:", id))), None));
            return v;
        }
    }
    plan_response(rng, id, op)
}

/// Multiplexing server: collects outstanding requests and answers them in a seeded random
/// order, interleaving items of different searches, with random chunking.
pub async fn mux_server(mut server: ServerEnd, mut rng: Rng, opts: MuxOpts) -> MuxLog {
    let mut log = MuxLog::default();
    let mut outstanding: Vec<(i64, u64, VecDeque<(usize, Vec<u8>)>)> = vec![];
    let mut used: Vec<i64> = vec![];
    let mut done: Vec<i64> = vec![];
    let mut closed = false;
    // the pilot search's final result is held back until every other request has been served and no
    // new one has arrived for a few quiescent rounds: it stays open while the others wrap around
    let mut pilot_ids: Vec<i64> = vec![];
    let mut pilot_idle_rounds = 0;
    loop {
        // absorb everything that is already there
        while let Some(w) = server.try_request() {
            if let Ok(m) = w.msg {
                let plan = plan_for(&mut rng, m.id, &m.op);
                if matches!(&m.op, crate::msg::Req::Search { base, .. } if base.ends_with(b"dc=pilot")) {
                    pilot_ids.push(m.id);
                }
                pilot_idle_rounds = 0;
                let tok = m.op.token_field().and_then(gen::token_of).unwrap_or(u64::MAX - m.id as u64);
                let mut q = VecDeque::new();
                for (k, (r, cs)) in plan.iter().enumerate() {
                    let node = resp_node(m.id, r, cs.as_deref());
                    let mut er = rng.fork();
                    q.push_back((k, Enc::random(&mut er).to_vec(&node)));
                }
                used.push(m.id);
                log.plans.insert(tok, (m.id, plan));
                if !q.is_empty() {
                    outstanding.push((m.id, tok, q));
                }
            }
        }
        if outstanding.is_empty() {
            if closed {
                break;
            }
            match server.request().await {
                Some(w) => {
                    // put it back through the same path: re-run absorb by handling inline
                    if let Ok(m) = w.msg {
                        let plan = plan_for(&mut rng, m.id, &m.op);
                        if matches!(&m.op, crate::msg::Req::Search { base, .. } if base.ends_with(b"dc=pilot")) {
                            pilot_ids.push(m.id);
                        }
                        pilot_idle_rounds = 0;
                        let tok = m.op.token_field().and_then(gen::token_of).unwrap_or(u64::MAX - m.id as u64);
                        let mut q = VecDeque::new();
                        for (k, (r, cs)) in plan.iter().enumerate() {
                            let node = resp_node(m.id, r, cs.as_deref());
                            let mut er = rng.fork();
                            q.push_back((k, Enc::random(&mut er).to_vec(&node)));
                        }
                        used.push(m.id);
                        log.plans.insert(tok, (m.id, plan));
                        if !q.is_empty() {
                            outstanding.push((m.id, tok, q));
                        }
                    }
                }
                None => {
                    closed = true;
                }
            }
            continue;
        }
        // only a pilot's final result is left: wait and see whether more requests come
        if outstanding.iter().all(|(id, _, q)| pilot_ids.contains(id) && q.len() == 1) && pilot_idle_rounds < 3 {
            world::settle().await;
            pilot_idle_rounds += 1;
            continue;
        }
        // give the clients a chance to pile up more requests
        for _ in 0..rng.below(4) {
            tokio::task::yield_now().await;
        }
        if rng.chance(1, 3) {
            continue;
        }
        // emit a burst
        let burst = 1 + rng.usize(6);
        let mut bytes = vec![];
        for _ in 0..burst {
            if outstanding.is_empty() {
                break;
            }
            if opts.nobody && rng.chance(1, 6) {
                bytes.extend_from_slice(&nobody_message(&mut rng, &used, &done, opts.wraps));
                log.nobody_sent += 1;
            }
            let mut ix = rng.usize(outstanding.len());
            // a pilot's final result waits for the others
            if pilot_ids.contains(&outstanding[ix].0) && outstanding[ix].2.len() == 1 {
                if let Some(other) = (0..outstanding.len()).find(|&j| !(pilot_ids.contains(&outstanding[j].0) && outstanding[j].2.len() == 1)) {
                    ix = other;
                } else if pilot_idle_rounds < 3 {
                    break;
                }
            }
            if opts.hostile_ids && rng.chance(1, 4) {
                // a response whose ID differs from an outstanding one only above bit 31, or is negative
                let id = outstanding[ix].0;
                let hid = match rng.below(3) {
                    0 => id + (1i64 << 32),
                    1 => id + (1i64 << 32) * (1 + rng.below(1000) as i64),
                    _ => id - (1i64 << 32),
                };
                let r = Resp::Modify(Res { rc: 1, matched: String::new(), text: format!("NOBODY:hostile:{}", hid), refs: None });
                bytes.extend_from_slice(&ber::encode_min(&resp_node(hid, &r, None)));
                log.hostile_sent += 1;
            }
            let (id, _tok, q) = &mut outstanding[ix];
            if let Some((k, b)) = q.pop_front() {
                bytes.extend_from_slice(&b);
                log.send_order.push((*id, k));
            }
            if q.is_empty() {
                done.push(*id);
                outstanding.swap_remove(ix);
            }
        }
        let mode = *rng.pick(&[Chunking::Whole, Chunking::Random, Chunking::Random, Chunking::Bytewise, Chunking::Halves]);
        if rng.chance(1, 8) {
            server.inject_spurious_reads(1 + rng.below(3) as u32);
        }
        server.send_chunked(&bytes, mode, &mut rng);
        log.flushes += 1;
    }
    log
}

#[derive(Clone, Debug)]
pub enum ClientOp {
    Single(Call),
    /// direct streaming search: read to the end, finish
    Stream { token: u64, base: String },
}

static CANCELLED_NEXTS: std::sync::atomic::AtomicU64 = std::sync::atomic::AtomicU64::new(0);

async fn run_stream(ldap: &mut Ldap, base: &str) -> Outcome {
    let fut = async {
        let mut st = match ldap.streaming_search(base, Scope::Subtree, "(objectClass=*)", vec!["*"]).await {
            Ok(s) => s,
            Err(e) => return Outcome::Err(world::err_class(&e).into(), e.to_string()),
        };
        let mut items: Vec<ItemOut> = vec![];
        // now and then a next() that finds nothing queued is given up at once (its future polled once
        // and dropped, as a select! whose other branch wins does) and then repeated: the Search still
        // sees every one of its responses
        let mut h = fnv(base.as_bytes());
        loop {
            h = h.wrapping_mul(0x9e37_79b9_7f4a_7c15).rotate_left(17) ^ 0x5bd1_e995;
            if h % 4 == 0 {
                match tokio::time::timeout(std::time::Duration::ZERO, st.next()).await {
                    Err(_) => {
                        CANCELLED_NEXTS.fetch_add(1, SeqCst);
                    }
                    Ok(Ok(Some(e))) => {
                        items.push(item_out(&e));
                        continue;
                    }
                    Ok(Ok(None)) => break,
                    Ok(Err(e)) => return Outcome::Err(world::err_class(&e).into(), e.to_string()),
                }
            }
            match st.next().await {
                Ok(Some(e)) => items.push(item_out(&e)),
                Ok(None) => break,
                Err(e) => return Outcome::Err(world::err_class(&e).into(), e.to_string()),
            }
        }
        let res = st.finish().await;
        Outcome::Search(items, res_out(&res))
    };
    match Caught::new(fut).await {
        Ok(o) => o,
        Err(p) => Outcome::Panic(p.site()),
    }
}

/// What a direct stream must return for a plan: every item in order, then the Done result.
pub fn expected_stream(plan: &Plan) -> Outcome {
    let (last, lc) = plan.last().unwrap();
    let res = match last {
        Resp::Done(r) => expect_res(r, lc),
        _ => return Outcome::Unit,
    };
    let items = plan[..plan.len() - 1]
        .iter()
        .map(|(m, c)| ItemOut { node: m.op_node(), ctrls: expect_ctrls(c), is_ref: matches!(m, Resp::Reference(_)), is_intermediate: matches!(m, Resp::Intermediate { .. }) })
        .collect();
    Outcome::Search(items, res)
}

fn wrong_token_diag(out: &Outcome, wire_id: i64) -> Option<String> {
    // does the outcome carry a token of another wire ID?
    let check = |s: &str| -> Option<String> {
        if let Some(rest) = s.strip_prefix("t:") {
            let id: String = rest.chars().take_while(|c| c.is_ascii_digit()).collect();
            if id != wire_id.to_string() {
                return Some(format!("result token of wire id {} delivered to operation with wire id {}", id, wire_id));
            }
        }
        if s.starts_with("NOBODY") {
            return Some(format!("a response addressed to nobody ({}) was delivered to operation with wire id {}", s, wire_id));
        }
        None
    };
    match out {
        Outcome::Res(r) => check(&r.text),
        Outcome::Search(items, r) => {
            if let Some(d) = check(&r.text) {
                return Some(d);
            }
            for it in items {
                let s = format!("{:?}", it.node);
                let _ = s;
                if let ber::Node::C { kids, .. } = &it.node {
                    if let Some(ber::Node::P { data, .. }) = kids.first() {
                        let t = String::from_utf8_lossy(data);
                        if let Some(rest) = t.strip_prefix("e=") {
                            let id: String = rest.chars().take_while(|c| c.is_ascii_digit()).collect();
                            if id != wire_id.to_string() {
                                return Some(format!("entry of wire id {} delivered to search with wire id {}", id, wire_id));
                            }
                        }
                        if t.starts_with("NOBODY") {
                            return Some(format!("an entry addressed to nobody ({}) was delivered to search {}", t, wire_id));
                        }
                    }
                }
            }
            None
        }
        _ => None,
    }
}

pub fn run_case(i: u64, rng: &mut Rng, rep: &mut Report, opts: MuxOpts, lane: &str, verbose: bool) {
    run_case_on(i, rng, rep, opts, lane, verbose, false)
}

/// `mt`: run on a multi-thread runtime with real OS worker threads and real time (true
/// parallelism between handles, driver and server) instead of the paused-clock runtime.
pub fn run_case_on(i: u64, rng: &mut Rng, rep: &mut Report, opts: MuxOpts, lane: &str, verbose: bool, mt: bool) {
    let nh = 1 + rng.usize(6);
    let mut programs: Vec<Vec<ClientOp>> = vec![];
    let mut tok = i * 1000;
    for _ in 0..nh {
        let n = 1 + rng.usize(5);
        let mut p = vec![];
        for _ in 0..n {
            tok += 1;
            if rng.chance(2, 5) {
                p.push(ClientOp::Stream { token: tok, base: format!("op={},dc=s", tok) });
            } else {
                p.push(ClientOp::Single(gen::gen_call(rng, tok, false, true)));
            }
        }
        programs.push(p);
    }
    let srng = rng.fork();
    let near_wrap = rng.chance(1, 4);
    let wrap_room = rng.below(8) as i32;
    let pilot_token = i * 1000 + 999;
    let opts = MuxOpts { wraps: near_wrap, ..opts };
    if near_wrap {
        rep.count("cases_crossing_the_id_wrap_point", 1);
        programs.insert(0, vec![ClientOp::Stream { token: pilot_token, base: format!("op={},dc=pilot", pilot_token) }]);
    }
    let rt = if mt {
        let _ = rng.next();
        world::Rt::wrap(tokio::runtime::Builder::new_multi_thread().worker_threads(2 + rng.usize(3)).enable_time().build().expect("mt runtime"))
    } else {
        runtime(rng.next())
    };
    let progs: Vec<Vec<ClientOp>> = programs.iter().skip(if near_wrap { 1 } else { 0 }).cloned().collect();
    let guarded_run = rt.block_on(async move {
        tokio::time::timeout(std::time::Duration::from_secs(if mt { 60 } else { 3600 * 48 }), async move {
        let c = connect();
        let gauges = c.ldap.verif_gauges();
        let srv = tokio::spawn(mux_server(c.server, srng, opts));
        let mut tasks = vec![];
        if near_wrap {
            // a long-lived "pilot" stream takes a low ID first; then the counter is positioned just
            // below the wrap point, so that the other operations wrap around onto the low IDs while
            // the pilot is still open
            let mut l = c.ldap.clone();
            let base = format!("op={},dc=pilot", pilot_token);
            tasks.push(tokio::spawn(async move { vec![world::watchdog(run_stream(&mut l, &base)).await.unwrap_or(Outcome::Hung)] }));
            if !mt {
                world::settle().await;
            } else {
                tokio::time::sleep(std::time::Duration::from_millis(2)).await;
            }
            c.ldap.verif_set_last_id(i32::MAX - wrap_room);
        }
        for p in progs {
            let mut l = c.ldap.clone();
            tasks.push(tokio::spawn(async move {
                let mut outs = vec![];
                for op in p {
                    let o = match &op {
                        ClientOp::Single(call) => world::watchdog(invoke(&mut l, call)).await.unwrap_or(Outcome::Hung),
                        ClientOp::Stream { base, .. } => world::watchdog(run_stream(&mut l, base)).await.unwrap_or(Outcome::Hung),
                    };
                    outs.push(o);
                }
                outs
            }));
        }
        drop(c.ldap);
        let mut results = vec![];
        for t in tasks {
            results.push(t.await.unwrap_or_default());
        }
        let log = srv.await.unwrap_or_default();
        let drv = c.driver.await;
        (results, log, drv, gauges)
        }).await
    });
    let (results, log, drv, gauges) = match guarded_run {
        Ok(x) => x,
        Err(_) => {
            // real-time lane only: a wall-clock expiry is not a verdict
            rep.inconclusive(format!("lane {} case {}: wall-clock guard expired", lane, i));
            return;
        }
    };
    let replay = json!({"lane":lane,"case":i});
    let mut routed = 0u64;
    for (p, outs) in programs.iter().zip(&results) {
        if outs.len() != p.len() {
            rep.violation("C01:client-task-died", format!("{} of {} ops ran", outs.len(), p.len()), replay.clone());
        }
        for (op, out) in p.iter().zip(outs) {
            let (token, kind, tokless) = match op {
                ClientOp::Single(c) => {
                    let t = c.expected().token_field().and_then(gen::token_of);
                    (t.unwrap_or(0), c.kind(), t.is_none())
                }
                ClientOp::Stream { token, .. } => (*token, "stream", false),
            };
            if tokless {
                // SASL EXTERNAL bind carries no token: only check it completed with a result
                if opts.hostile_ids && matches!(out, Outcome::Err(..)) {
                    continue;
                }
                if !matches!(out, Outcome::Res(_)) {
                    rep.violation("C01:operation-disturbed:bind", format!("{:?}", out.class()), replay.clone());
                }
                continue;
            }
            // hostile-ID lane: an out-of-range message ID is not a well-formed envelope, so the
            // connection may legitimately end with a decoding error and fail everything pending
            if opts.hostile_ids && matches!(out, Outcome::Err(..)) {
                rep.count("ops_failed_after_connection_ended_by_decoding_error", 1);
                continue;
            }
            let (wire_id, plan) = match log.plans.get(&token) {
                Some(p) => p,
                None => {
                    rep.violation("C01:request-never-reached-server", format!("{} token {} -> {}", kind, token, out.class()), replay.clone());
                    continue;
                }
            };
            let want = match op {
                ClientOp::Single(_) => crate::lanes::c03::expected_outcome(plan),
                ClientOp::Stream { .. } => expected_stream(plan),
            };
            routed += plan.len() as u64;
            if &want != out {
                let sig = if let Some(d) = wrong_token_diag(out, *wire_id) {
                    if d.contains("nobody") {
                        rep.violation(format!("C01:nobody-response-delivered:{}", kind), d, replay.clone());
                    } else {
                        rep.violation(format!("C01:misrouted:{}", kind), d, replay.clone());
                    }
                    continue;
                } else {
                    match (&want, out) {
                        (Outcome::Search(wi, _), Outcome::Search(gi, _)) if wi.len() != gi.len() => "items-missing-or-extra",
                        (Outcome::Search(wi, _), Outcome::Search(gi, _)) if wi != gi => "items-out-of-order-or-altered",
                        (_, Outcome::Err(..)) | (_, Outcome::Hung) | (_, Outcome::Panic(_)) => "operation-disturbed",
                        _ => "result-differs",
                    }
                };
                rep.violation(format!("C01:{}:{}", sig, kind), format!("wire id {}: want {} got {}", wire_id, trunc(&want), trunc(out)), replay.clone());
            }
            if verbose {
                println!("{} token {} wire {} -> {}", kind, token, wire_id, out.class());
            }
        }
    }
    match drv {
        Ok(Ok(Ok(()))) => {}
        Ok(Ok(Err(e))) if opts.hostile_ids && e.contains("decoding error") => rep.count("connections_ended_by_decoding_error", 1),
        other => rep.violation("C01:driver-did-not-exit-cleanly", format!("{:?}", other), replay.clone()),
    }
    rep.count("routed_responses", routed);
    rep.count("nobody_responses_sent", log.nobody_sent);
    rep.count("hostile_id_responses_sent", log.hostile_sent);
    rep.count("server_bursts", log.flushes);
    rep.distinct("driver_select_branch_sequences", gauges.branch_hash.load(SeqCst));
    // distinct server send orders (by relative order of wire ids)
    let mut h = 0u64;
    for (id, k) in &log.send_order {
        h = h.wrapping_mul(1000003).wrapping_add((*id as u64) << 8 | *k as u64);
    }
    rep.distinct("server_send_orders", h);
    let interleaved = {
        // some op's messages are separated by another op's message
        let mut last: HashMap<i64, usize> = HashMap::new();
        let mut il = false;
        for (pos, (id, _)) in log.send_order.iter().enumerate() {
            if let Some(p) = last.get(id) {
                if pos - p > 1 {
                    il = true;
                }
            }
            last.insert(*id, pos);
        }
        il
    };
    if interleaved {
        rep.count("cases_with_interleaved_operations", 1);
    }
    if i < 2 {
        rep.sample(json!({"lane":lane,"case":i,"handles":nh,"programs":programs.iter().map(|p| p.iter().map(|o| match o { ClientOp::Single(c) => c.kind(), _ => "stream" }).collect::<Vec<_>>()).collect::<Vec<_>>(),"server_send_order":log.send_order.iter().take(30).collect::<Vec<_>>()}));
    }
    rep.case(if nh > 1 || interleaved { Some(h ^ fnv(&i.to_le_bytes())) } else { None });
}

fn trunc<T: std::fmt::Debug>(t: &T) -> String {
    format!("{:?}", t).chars().take(500).collect()
}

/// The routing workload on multi-thread runtimes (2-4 OS worker threads, real time).
pub fn routing_threads(ctx: &Ctx) -> Report {
    let n = ctx.n(3_000, 3_000_000);
    let mut c2 = ctx.clone();
    c2.threads = ctx.threads.min(4);
    par_cases(&c2, "routing_threads", n, ctx.secs(20, 600), |i, rng, rep| run_case_on(i, rng, rep, MuxOpts { nobody: true, hostile_ids: false, wraps: false }, "routing_threads", false, true))
}

fn note_cancelled(rep: &mut Report) {
    rep.count("pending_next_calls_given_up_and_repeated(process-wide)", CANCELLED_NEXTS.swap(0, SeqCst));
}

pub fn routing(ctx: &Ctx) -> Report {
    let n = ctx.n(40_000, 50_000_000);
    let mut rep = par_cases(ctx, "routing", n, ctx.secs(30, 700), |i, rng, rep| run_case(i, rng, rep, MuxOpts { nobody: true, hostile_ids: false, wraps: false }, "routing", false));
    note_cancelled(&mut rep);
    rep
}

/// Responses whose INTEGER message ID lies outside 0..2^31-1 and aliases an outstanding ID
/// after 32-bit truncation must be delivered to nobody.
pub fn hostile_ids(ctx: &Ctx) -> Report {
    let n = ctx.n(10_000, 5_000_000);
    par_cases(ctx, "hostile_ids", n, ctx.secs(15, 200), |i, rng, rep| run_case(i, rng, rep, MuxOpts { nobody: true, hostile_ids: true, wraps: false }, "hostile_ids", false))
}

pub fn replay(ctx: &Ctx, v: &Value) -> Report {
    let mut rep = Report::new();
    let lane = v["lane"].as_str().unwrap_or("routing").to_string();
    if let Some(i) = v["case"].as_u64() {
        let mut rng = case_rng(ctx.seed, &lane, i);
        if lane == "abandoned" {
            run_abandon_case(i, &mut rng, &mut rep, true);
            return rep;
        }
        if lane == "routing_threads" {
            run_case_on(i, &mut rng, &mut rep, MuxOpts { nobody: true, hostile_ids: false, wraps: false }, &lane, true, true);
            return rep;
        }
        if lane == "stale_requests" {
            run_stale_case(i, &mut rng, &mut rep, true);
            return rep;
        }
        if lane == "nested_searches" {
            run_nested_case(i, &mut rng, &mut rep, true);
            return rep;
        }
        run_case(i, &mut rng, &mut rep, MuxOpts { nobody: true, hostile_ids: lane == "hostile_ids", wraps: false }, &lane, true);
    }
    rep
}

// ---------------- abandoned operations ----------------

/// A search or single operation is abandoned from a cloned handle while in flight; the server
/// (as servers may) keeps sending under the abandoned ID. Nothing the server sent after it saw
/// the AbandonRequest may reach the caller.
fn run_abandon_case(i: u64, rng: &mut Rng, rep: &mut Report, verbose: bool) {
    let is_stream = rng.chance(2, 3);
    let n_items = 2 + rng.usize(8);
    let before = rng.usize(n_items + 1); // items sent before the server waits for the abandon
    let read_first = rng.usize(before + 1); // items the client reads before abandoning
    let with_bystander = rng.bool();
    let rt = runtime(rng.next());
    let mut srng = rng.fork();
    let replay = json!({"lane":"abandoned","case":i});
    let (got, after, abandon_res, bystander, drv, abandon_seen_id, target_id) = rt.block_on(async move {
        let c = connect();
        let mut server = c.server;
        let mut ldap = c.ldap;
        let mut other = ldap.clone();
        let mut third = ldap.clone();
        let srv = tokio::spawn(async move {
            // first request: the target operation
            let w = server.request().await?;
            let m = w.msg.ok()?;
            let id = m.id;
            let mut msgs: Vec<Vec<u8>> = vec![];
            if matches!(m.op, crate::msg::Req::Search { .. }) {
                for k in 0..n_items {
                    let r = Resp::Entry { dn: format!("e={}.{},dc=x", id, k).into_bytes(), attrs: vec![] };
                    msgs.push(ber::encode_min(&resp_node(id, &r, None)));
                }
                msgs.push(ber::encode_min(&resp_node(id, &Resp::Done(Res::ok(&format!("t:{}:done", id))), None)));
            } else {
                msgs.push(ber::encode_min(&resp_node(id, &crate::msg::reply_for(&m.op, Res::ok(&format!("t:{}:late", id))).unwrap(), None)));
            }
            let pre = if msgs.len() > 1 { before.min(msgs.len() - 1) } else { 0 };
            for b in &msgs[..pre] {
                server.send_chunked(b, Chunking::Random, &mut srng);
            }
            // wait for the abandon (answering anything else that comes by)
            let mut abandon_id = None;
            while let Some(w) = server.request().await {
                match w.msg {
                    Ok(m2) => match m2.op {
                        crate::msg::Req::Abandon(x) => {
                            abandon_id = Some(x);
                            break;
                        }
                        ref op => {
                            if let Some(r) = crate::msg::reply_for(op, Res::ok(&format!("t:{}:by", m2.id))) {
                                server.send(&ber::encode_min(&resp_node(m2.id, &r, None)));
                            }
                        }
                    },
                    Err(_) => break,
                }
            }
            // late responses under the abandoned ID
            for b in &msgs[pre..] {
                server.send_chunked(b, Chunking::Random, &mut srng);
            }
            // serve the rest until close
            while let Some(w) = server.request().await {
                if let Ok(m2) = w.msg {
                    if let Some(r) = crate::msg::reply_for(&m2.op, Res::ok(&format!("t:{}:by", m2.id))) {
                        server.send(&ber::encode_min(&resp_node(m2.id, &r, None)));
                    }
                }
            }
            Some((abandon_id, id))
        });
        let mut got: Vec<String> = vec![];
        let mut after: Vec<String> = vec![];
        let abandon_res;
        let mut bystander = Outcome::Unit;
        if is_stream {
            let mut st = match ldap.streaming_search("op=1,dc=target", Scope::Subtree, "(a=b)", vec!["*"]).await {
                Ok(s) => s,
                Err(_) => return (got, after, Outcome::Hung, bystander, c.driver.await, None, 0),
            };
            for _ in 0..read_first {
                match world::watchdog(st.next()).await {
                    Ok(Ok(Some(e))) => got.push(entry_dn(&e)),
                    _ => break,
                }
            }
            let id = st.ldap_handle().last_id();
            world::settle().await;
            abandon_res = world::watchdog(invoke(&mut other, &Call::Abandon(id))).await.unwrap_or(Outcome::Hung);
            world::settle().await;
            if with_bystander {
                bystander = world::watchdog(invoke(&mut third, &Call::Delete { dn: "op=3,dc=by".into() })).await.unwrap_or(Outcome::Hung);
            }
            world::settle().await;
            // drain whatever the stream still yields
            for _ in 0..n_items + 3 {
                match world::watchdog(st.next()).await {
                    Ok(Ok(Some(e))) => after.push(entry_dn(&e)),
                    Ok(Ok(None)) => {
                        after.push("END:Ok(None)".into());
                        break;
                    }
                    Ok(Err(e)) => {
                        after.push(format!("END:Err({})", world::err_class(&e)));
                        break;
                    }
                    Err(()) => {
                        after.push("END:Hung".into());
                        break;
                    }
                }
            }
            let res = st.finish().await;
            after.push(format!("FINISH:rc={}:{}", res.rc, res.text));
        } else {
            // single op in flight, abandoned from another task
            let mut l2 = ldap.clone();
            let target = tokio::spawn(async move { world::watchdog(invoke(&mut l2, &Call::Delete { dn: "op=1,dc=target".into() })).await.unwrap_or(Outcome::Hung) });
            world::settle().await;
            abandon_res = world::watchdog(invoke(&mut other, &Call::Abandon(1))).await.unwrap_or(Outcome::Hung);
            world::settle().await;
            if with_bystander {
                bystander = world::watchdog(invoke(&mut third, &Call::Delete { dn: "op=3,dc=by".into() })).await.unwrap_or(Outcome::Hung);
            }
            world::settle().await;
            let o = target.await.unwrap_or(Outcome::Hung);
            after.push(format!("TARGET:{}:{}", o.class(), o.text().unwrap_or("")));
        }
        drop(ldap);
        drop(other);
        drop(third);
        let s = srv.await.ok().flatten();
        let drv = c.driver.await;
        let (aid, tid) = s.unwrap_or((None, 0));
        (got, after, abandon_res, bystander, drv, aid, tid)
    });
    if verbose {
        println!("stream={} n_items={} before={} read_first={} got={:?} after={:?} abandon={:?}", is_stream, n_items, before, read_first, got, after, abandon_res.class());
    }
    let kind = if is_stream { "stream" } else { "single" };
    if !matches!(abandon_res, Outcome::Unit) {
        rep.violation(format!("C01:abandon-call-failed:{}", kind), format!("{:?}", abandon_res), replay.clone());
    }
    match abandon_seen_id {
        Some(x) if x == target_id => {}
        other => rep.violation("C01:abandon-request-names-wrong-id", format!("server saw AbandonRequest {:?}, target wire id {}", other, target_id), replay.clone()),
    }
    // every entry delivered must have been sent before the server saw the abandon
    let pre = before.min(n_items);
    let all: Vec<&String> = got.iter().chain(after.iter().filter(|s| s.starts_with("e="))).collect();
    for (pos, dn) in all.iter().enumerate() {
        let want = format!("e={}.{},dc=x", target_id, pos);
        if **dn != want {
            rep.violation("C01:abandoned-stream:items-out-of-order", format!("position {} got {} want {}", pos, dn, want), replay.clone());
        }
    }
    if is_stream {
        if all.len() > pre {
            rep.violation("C01:late-response-delivered-after-abandon:stream-entry", format!("{} entries delivered, only {} were sent before the server saw the AbandonRequest; after-abandon log {:?}", all.len(), pre, after), replay.clone());
        }
        if after.iter().any(|s| s.starts_with("FINISH:rc=0")) {
            rep.violation("C01:late-response-delivered-after-abandon:search-done", format!("{:?}", after), replay.clone());
        }
        if after.iter().any(|s| s == "END:Hung") {
            rep.violation("C01:abandoned-stream:next-hangs", format!("{:?}", after), replay.clone());
        }
    } else {
        let t = after.first().cloned().unwrap_or_default();
        if t.contains(":late") {
            rep.violation("C01:late-response-delivered-after-abandon:single-result", t.clone(), replay.clone());
        }
        if !t.starts_with("TARGET:Err(") {
            rep.violation("C01:abandoned-single-op-not-released-with-error", t, replay.clone());
        }
    }
    if with_bystander {
        match &bystander {
            Outcome::Res(r) if r.text.ends_with(":by") => {}
            o => rep.violation("C01:operation-disturbed:bystander-after-abandon", format!("{:?}", o), replay.clone()),
        }
    }
    match drv {
        Ok(Ok(Ok(()))) => {}
        other => rep.violation("C01:driver-did-not-exit-cleanly", format!("{:?}", other), replay.clone()),
    }
    rep.count(&format!("abandoned_{}", kind), 1);
    if i < 2 {
        rep.sample(json!({"lane":"abandoned","case":i,"stream":is_stream,"items":n_items,"sent_before_abandon":pre,"read_before_abandon":got.len(),"after_abandon":after}));
    }
    rep.case(Some(fnv(format!("{}{}{}{}{}", is_stream, n_items, before, read_first, with_bystander).as_bytes())));
}

fn entry_dn(e: &ldap3::ResultEntry) -> String {
    match &item_out(e).node {
        ber::Node::C { kids, .. } => match kids.first() {
            Some(ber::Node::P { data, .. }) => String::from_utf8_lossy(data).into_owned(),
            _ => "?".into(),
        },
        _ => "?".into(),
    }
}

pub fn abandoned(ctx: &Ctx) -> Report {
    let n = ctx.n(20_000, 10_000_000);
    par_cases(ctx, "abandoned", n, ctx.secs(15, 300), |i, rng, rep| run_abandon_case(i, rng, rep, false))
}


// ---------------- searches nested inside adapters ----------------

/// A user-defined adapter may run a nested Search on the same connection while the outer one is in
/// progress, configured with the rest of its own chain (`adapter_chain_tail()`, as the documentation
/// suggests). Each of the two searches must hand its caller exactly what the server sent under its
/// own message ID: entries, and the referral URIs that EntriesOnly folds into the final result.
mod nested {
    use async_trait::async_trait;
    use ldap3::adapters::Adapter;
    use ldap3::result::{LdapResult, Result};
    use ldap3::{ResultEntry, Scope, SearchEntry, SearchStream};
    use std::sync::{Arc, Mutex};

    #[derive(Debug, Default)]
    pub struct NestedOut {
        pub dns: Vec<String>,
        pub result: Option<LdapResult>,
        pub error: Option<String>,
    }

    /// On the entry number `at` of the outer search, list "below" it with a nested search that uses
    /// the downstream adapters of the search the adapter is part of.
    #[derive(Clone, Debug)]
    pub struct Expander {
        pub at: usize,
        pub seen: usize,
        pub out: Arc<Mutex<NestedOut>>,
    }

    #[async_trait]
    impl<'a> Adapter<'a, String, Vec<String>> for Expander {
        async fn start(&mut self, stream: &mut SearchStream<'a, String, Vec<String>>, base: &str, scope: Scope, filter: &str, attrs: Vec<String>) -> Result<()> {
            stream.start(base, scope, filter, attrs).await
        }
        async fn next(&mut self, stream: &mut SearchStream<'a, String, Vec<String>>) -> Result<Option<ResultEntry>> {
            let re = match stream.next().await? {
                Some(re) => re,
                None => return Ok(None),
            };
            if self.seen == self.at {
                let tail = stream.adapter_chain_tail().await;
                let mut ldap = stream.ldap_handle().clone();
                let mut dns = vec![];
                let mut error = None;
                let mut result = None;
                match ldap.streaming_search_with(tail, "op=nested", Scope::OneLevel, "(objectClass=*)", vec!["*".to_string()]).await {
                    Ok(mut sub) => {
                        loop {
                            match sub.next().await {
                                Ok(Some(e)) => dns.push(SearchEntry::construct(e).dn),
                                Ok(None) => break,
                                Err(e) => {
                                    error = Some(e.to_string());
                                    break;
                                }
                            }
                        }
                        result = Some(sub.finish().await);
                    }
                    Err(e) => error = Some(e.to_string()),
                }
                let mut o = self.out.lock().unwrap();
                o.dns = dns;
                o.result = result;
                o.error = error;
            }
            self.seen += 1;
            Ok(Some(re))
        }
        async fn finish(&mut self, stream: &mut SearchStream<'a, String, Vec<String>>) -> LdapResult {
            stream.finish().await
        }
    }
}

fn run_nested_case(i: u64, rng: &mut Rng, rep: &mut Report, verbose: bool) {
    use ldap3::adapters::{Adapter, EntriesOnly};
    use std::sync::{Arc, Mutex};
    // outer: items before the nested search starts, and after it
    let n_before_refs = rng.usize(4);
    let n_entries = 1 + rng.usize(4);
    let expand_at = rng.usize(n_entries);
    let n_after_refs = rng.usize(3);
    let nested_entries = rng.usize(4);
    let nested_refs = rng.usize(3);
    let nested_done_refs = rng.bool();
    let rt = runtime(rng.next());
    let out = Arc::new(Mutex::new(nested::NestedOut::default()));
    let out2 = out.clone();
    let (outer_dns, outer_res, note) = rt.block_on(async move {
        let c = connect();
        let mut ldap = c.ldap;
        let mut server = c.server;
        let srv = tokio::spawn(async move {
            let enc = |id: i64, r: &Resp| ber::encode_min(&resp_node(id, r, None));
            let outer = match server.request().await.and_then(|w| w.msg.ok()) {
                Some(m) => m.id,
                None => return,
            };
            let mut b = vec![];
            for k in 0..n_before_refs {
                b.extend_from_slice(&enc(outer, &Resp::Reference(vec![format!("ldap://outer/{}", k)])));
            }
            for k in 0..=expand_at {
                b.extend_from_slice(&enc(outer, &Resp::Entry { dn: format!("e=outer.{}", k).into_bytes(), attrs: vec![] }));
            }
            server.send(&b);
            // the nested search is started by the adapter when it sees entry number expand_at
            let nested = match server.request().await.and_then(|w| w.msg.ok()) {
                Some(m) => m.id,
                None => return,
            };
            let mut b = vec![];
            for k in 0..nested_entries.max(nested_refs) {
                if k < nested_refs {
                    b.extend_from_slice(&enc(nested, &Resp::Reference(vec![format!("ldap://nested/{}", k)])));
                }
                if k < nested_entries {
                    b.extend_from_slice(&enc(nested, &Resp::Entry { dn: format!("e=nested.{}", k).into_bytes(), attrs: vec![] }));
                }
                // the outer search goes on meanwhile
                if k == 0 {
                    for j in 0..n_after_refs {
                        b.extend_from_slice(&enc(outer, &Resp::Reference(vec![format!("ldap://outer-late/{}", j)])));
                    }
                }
            }
            if nested_entries.max(nested_refs) == 0 {
                for j in 0..n_after_refs {
                    b.extend_from_slice(&enc(outer, &Resp::Reference(vec![format!("ldap://outer-late/{}", j)])));
                }
            }
            let mut nres = Res::ok("t:nested");
            if nested_done_refs {
                nres.refs = Some(vec!["ldap://nested-done/0".into()]);
            }
            b.extend_from_slice(&enc(nested, &Resp::Done(nres)));
            for k in expand_at + 1..n_entries {
                b.extend_from_slice(&enc(outer, &Resp::Entry { dn: format!("e=outer.{}", k).into_bytes(), attrs: vec![] }));
            }
            b.extend_from_slice(&enc(outer, &Resp::Done(Res::ok("t:outer"))));
            server.send(&b);
            server.wait_closed().await;
        });
        let adapters: Vec<Box<dyn Adapter<'static, String, Vec<String>>>> = vec![Box::new(nested::Expander { at: expand_at, seen: 0, out: out2 }), Box::new(EntriesOnly::new())];
        let mut dns = vec![];
        let mut res = None;
        let mut note = String::new();
        match world::watchdog(async {
            let mut st = ldap.streaming_search_with(adapters, "op=outer", Scope::Subtree, "(objectClass=*)", vec!["*".to_string()]).await?;
            while let Some(e) = st.next().await? {
                dns.push(ldap3::SearchEntry::construct(e).dn);
            }
            res = Some(st.finish().await);
            Ok::<_, ldap3::LdapError>(())
        })
        .await
        {
            Ok(Ok(())) => {}
            Ok(Err(e)) => note = format!("outer search failed: {}", e),
            Err(()) => note = "outer search hangs".into(),
        }
        drop(ldap);
        srv.abort();
        let _ = c.driver.await;
        (dns, res, note)
    });
    let replay = json!({"lane":"nested_searches","case":i});
    if !note.is_empty() {
        rep.violation("C01:nested-search:operation-disturbed", note.clone(), replay.clone());
    }
    let want_outer_dns: Vec<String> = (0..n_entries).map(|k| format!("e=outer.{}", k)).collect();
    let mut want_outer_refs: Vec<String> = (0..n_before_refs).map(|k| format!("ldap://outer/{}", k)).collect();
    want_outer_refs.extend((0..n_after_refs).map(|j| format!("ldap://outer-late/{}", j)));
    let mut want_nested_refs: Vec<String> = vec![];
    if nested_done_refs {
        want_nested_refs.push("ldap://nested-done/0".into());
    }
    want_nested_refs.extend((0..nested_refs).map(|k| format!("ldap://nested/{}", k)));
    let want_nested_dns: Vec<String> = (0..nested_entries).map(|k| format!("e=nested.{}", k)).collect();
    if note.is_empty() {
        if outer_dns != want_outer_dns {
            rep.violation("C01:nested-search:outer-entries-differ", format!("want {:?} got {:?}", want_outer_dns, outer_dns), replay.clone());
        }
        if let Some(r) = &outer_res {
            if r.refs != want_outer_refs || r.text != "t:outer" {
                let foreign = r.refs.iter().any(|u| u.contains("nested"));
                rep.violation(if foreign { "C01:nested-search:outer-result-carries-the-nested-search's-referrals" } else { "C01:nested-search:outer-result-differs" }, format!("want refs {:?} got {:?} text {:?}", want_outer_refs, r.refs, r.text), replay.clone());
            }
        }
        let o = out.lock().unwrap();
        if let Some(e) = &o.error {
            rep.violation("C01:nested-search:operation-disturbed", format!("nested search: {}", e), replay.clone());
        } else {
            if o.dns != want_nested_dns {
                rep.violation("C01:nested-search:nested-entries-differ", format!("want {:?} got {:?}", want_nested_dns, o.dns), replay.clone());
            }
            match &o.result {
                Some(r) => {
                    if r.refs != want_nested_refs || r.text != "t:nested" {
                        let foreign = r.refs.iter().any(|u| u.contains("outer"));
                        rep.violation(if foreign { "C01:nested-search:result-carries-referrals-sent-under-another-message-id" } else { "C01:nested-search:nested-result-differs" }, format!("want refs {:?} got {:?} text {:?}", want_nested_refs, r.refs, r.text), replay.clone());
                    }
                }
                None => rep.violation("C01:nested-search:nested-search-never-ran", format!("expand_at {}", expand_at), replay.clone()),
            }
        }
    }
    if verbose {
        println!("before-refs {} entries {} expand-at {} after-refs {} nested {}+{} -> outer {:?} {:?}", n_before_refs, n_entries, expand_at, n_after_refs, nested_entries, nested_refs, outer_dns, outer_res.as_ref().map(|r| r.refs.clone()));
    }
    rep.count("nested_searches_checked", 1);
    if n_before_refs > 0 {
        rep.count("nested_searches_started_after_the_outer_search_had_collected_referrals", 1);
    }
    if i < 2 {
        rep.sample(json!({"lane":"nested_searches","case":i,"outer_referrals_before":n_before_refs,"outer_entries":n_entries,"nested_started_at_entry":expand_at,"nested_entries":nested_entries,"nested_referrals":nested_refs}));
    }
    rep.case(if n_before_refs > 0 { Some(fnv(format!("{}{}{}{}{}{}{}", n_before_refs, n_entries, expand_at, n_after_refs, nested_entries, nested_refs, nested_done_refs).as_bytes())) } else { None });
}

pub fn nested_searches(ctx: &Ctx) -> Report {
    let n = ctx.n(10_000, 5_000_000);
    par_cases(ctx, "nested_searches", n, ctx.secs(15, 300), |i, rng, rep| run_nested_case(i, rng, rep, false))
}

// ---------------- requests that went stale before the driver saw them ----------------

/// The driver is kept busy (its write of a first request is held back by the transport) while a
/// Search is queued behind it and given up by its caller (`with_timeout`).  Once the transport
/// flows again the ID of that Search is free; a later single-result operation that is handed the
/// same ID (the counter is positioned with the `verif_set_last_id` hook instead of 2^31
/// operations) must get the response the server sends under it, like every other operation.
fn run_stale_case(i: u64, rng: &mut Rng, rep: &mut Report, verbose: bool) {
    use std::time::Duration;
    let rt = runtime(rng.next());
    let stale_n = 1 + rng.usize(3);
    let stale_kind: Vec<u8> = (0..stale_n).map(|_| rng.below(3) as u8).collect(); // 0 stream, 1 search(), 2 single
    let start_at: i32 = if rng.chance(1, 4) { i32::MAX - 1 - rng.below(3) as i32 } else { rng.below(5000) as i32 };
    let reuse_kind = rng.below(4) as u8;
    let gap_ms = 1 + rng.below(20);
    let replay = json!({"lane":"stale_requests","case":i});
    let sk = stale_kind.clone();
    let (blocker, stale_out, stale_ids, reused, sent_under, drv, wire_kinds) = rt.block_on(async move {
        let c = connect();
        let mut server = c.server;
        let ctl = server.ctl();
        let ldap = c.ldap;
        ldap.verif_set_last_id(start_at);
        let srv = tokio::spawn(async move {
            let mut seen: Vec<(i64, String)> = vec![];
            while let Some(w) = server.request().await {
                if let Ok(m) = w.msg {
                    seen.push((m.id, m.op.kind().to_string()));
                    if let Some(r) = crate::msg::reply_for(&m.op, Res::ok(&format!("t:{}:{}", m.id, m.op.kind()))) {
                        server.send(&ber::encode_min(&resp_node(m.id, &r, None)));
                    }
                }
            }
            seen
        });
        // the peer stops reading: the driver waits inside the write of the first request
        ctl.stall_writes_after(0);
        let mut l1 = ldap.clone();
        let blocker = tokio::spawn(async move { world::watchdog(invoke(&mut l1, &Call::Delete { dn: "op=blocker".into() })).await.unwrap_or(Outcome::Hung) });
        world::settle().await;
        let mut stale_out = vec![];
        let mut stale_ids = vec![];
        for (k, kind) in sk.iter().enumerate() {
            let mut l = ldap.clone();
            l.with_timeout(Duration::from_millis(gap_ms));
            let o = match kind {
                0 => match world::watchdog(Caught::new(l.streaming_search(&format!("op=stale{}", k), Scope::Subtree, "(a=b)", vec!["*"]))).await {
                    Ok(Ok(Ok(_))) => "started".to_string(),
                    Ok(Ok(Err(e))) => format!("Err({})", world::err_class(&e)),
                    Ok(Err(p)) => format!("panic:{}", p.site()),
                    Err(()) => "Hung".into(),
                },
                1 => match world::watchdog(Caught::new(l.search(&format!("op=stale{}", k), Scope::Subtree, "(a=b)", vec!["*"]))).await {
                    Ok(Ok(Ok(_))) => "returned".to_string(),
                    Ok(Ok(Err(e))) => format!("Err({})", world::err_class(&e)),
                    Ok(Err(p)) => format!("panic:{}", p.site()),
                    Err(()) => "Hung".into(),
                },
                _ => world::watchdog(invoke(&mut l, &Call::Delete { dn: format!("op=stale{}", k) })).await.unwrap_or(Outcome::Hung).class(),
            };
            // the ID the request was given: the last one issued on this connection
            stale_ids.push(ldap.verif_id_table().0);
            stale_out.push(o);
        }
        world::settle().await;
        ctl.release_writes();
        world::settle().await;
        world::settle().await;
        let blocker = blocker.await.unwrap_or(Outcome::Hung);
        // hand the stale IDs out again, to single-result operations
        let mut reused = vec![];
        for &sid in &stale_ids {
            if sid < 1 {
                continue;
            }
            let prev = if sid == 1 { i32::MAX } else { sid - 1 };
            ldap.verif_set_last_id(prev);
            let mut l = ldap.clone();
            let call = match reuse_kind {
                0 => Call::Delete { dn: format!("op=reuse{}", sid) },
                1 => Call::Compare { dn: format!("op=reuse{}", sid), attr: "a".into(), val: b"v".to_vec() },
                2 => Call::Extended { name: format!("1.2.3.{}", sid), val: None },
                _ => Call::ModDn { dn: format!("op=reuse{}", sid), rdn: "cn=x".into(), delold: true, newsup: None },
            };
            let o = world::watchdog(invoke(&mut l, &call)).await.unwrap_or(Outcome::Hung);
            reused.push((sid, l.last_id(), o));
            world::settle().await;
        }
        drop(ldap);
        let seen = srv.await.unwrap_or_default();
        let drv = c.driver.await;
        let sent_under: Vec<i64> = seen.iter().map(|s| s.0).collect();
        (blocker, stale_out, stale_ids, reused, sent_under, drv, seen)
    });
    if verbose {
        println!("start_at={} stale={:?} ids={:?} blocker={:?} reused={:?} wire={:?} drv={:?}", start_at, stale_out, stale_ids, blocker.class(), reused, wire_kinds, drv);
    }
    match &blocker {
        Outcome::Res(r) if r.text.ends_with(":delete") => {}
        o => rep.violation("C01:operation-disturbed:blocked-operation", format!("the operation whose request was held back by the transport: {:?}", o), replay.clone()),
    }
    for (k, o) in stale_out.iter().enumerate() {
        if !o.starts_with("Err(") {
            rep.inconclusive(format!("stale_requests case {}: request {} was not given up as planned ({})", i, k, o));
            rep.case(None);
            return;
        }
    }
    for (sid, got_id, o) in &reused {
        if got_id != sid {
            // the allocator may legitimately skip an ID; nothing to judge for this one
            rep.count("reuse_got_another_id", 1);
            continue;
        }
        let want = format!("t:{}:", sid);
        let ok = match o {
            Outcome::Res(r) => r.text.starts_with(&want) && r.rc == 0,
            _ => false,
        };
        if !ok {
            rep.violation(
                "C01:operation-disturbed:response-under-a-reused-id-of-a-given-up-request",
                format!("ID {} had belonged to a request its caller gave up before the driver picked it up; the next operation with that ID was answered under it (server log {:?}) but got {:?}", sid, sent_under, o),
                replay.clone(),
            );
        } else {
            rep.count("reused_id_answered", 1);
        }
    }
    match drv {
        Ok(Ok(Ok(()))) => {}
        other => rep.violation("C01:driver-did-not-exit-cleanly", format!("stale_requests: {:?}", other), replay.clone()),
    }
    rep.count(if start_at > i32::MAX - 8 { "stale_near_wrap" } else { "stale_low_ids" }, 1);
    if i < 2 {
        rep.sample(json!({"lane":"stale_requests","case":i,"stale_kinds":stale_kind,"stale_outcomes":stale_out,"stale_ids":stale_ids,"requests_seen_by_server":wire_kinds.iter().map(|w| format!("{}:{}", w.0, w.1)).collect::<Vec<_>>()}));
    }
    rep.case(Some(fnv(format!("{:?}{}{}", stale_kind, reuse_kind, start_at > i32::MAX - 8).as_bytes())));
}

pub fn stale_requests(ctx: &Ctx) -> Report {
    let n = ctx.n(4_000, 2_000_000);
    par_cases(ctx, "stale_requests", n, ctx.secs(10, 200), |i, rng, rep| run_stale_case(i, rng, rep, false))
}

// ---------------- StartTLS establishment: the driver's single-operation mode ----------------

/// While `LdapConnSettings::set_starttls(true)` negotiates, the driver runs in its single-operation
/// mode.  Messages addressed to nobody that arrive before the server's answer must not disturb the
/// StartTLS operation: the caller gets exactly the result sent under the StartTLS request's ID.
pub fn starttls_strays(ctx: &Ctx) -> Report {
    use crate::lanes::starttls::{run, Got, Refusal, Stray};
    let mut rep = Report::new();
    let rt = tokio::runtime::Builder::new_multi_thread().worker_threads(2).enable_all().build().expect("rt");
    let mut rng = case_rng(ctx.seed, "starttls_strays", 0);
    let reps = if ctx.tiny { 1 } else { ctx.n(12, 300) };
    let codes = [1u32, 2, 8, 10, 12, 50, 52, 53, 80];
    let mut hung = false;
    for r in 0..reps {
        let n_strays = rng.usize(4);
        let strays: Vec<Stray> = (0..n_strays)
            .map(|_| match rng.below(3) {
                0 => Stray::Unsolicited(*rng.pick(&[0u32, 2, 52])),
                1 => Stray::UnknownId(1 + rng.below(100) as i64, *rng.pick(&[0u32, 32])),
                _ => Stray::EntryForUnknownId(1 + rng.below(100) as i64),
            })
            .collect();
        let rc = *rng.pick(&codes);
        let refusal = Refusal { strays: strays.clone(), res: Res::code(rc, &format!("t:starttls:{}", r)), name: None, split: rng.bool(), raw_answer: None };
        let replay = json!({"lane":"starttls_strays","rep":r,"strays":format!("{:?}", strays),"rc":rc});
        if hung && !strays.is_empty() {
            continue;
        }
        match run(&rt, &refusal) {
            Err(e) => rep.inconclusive(format!("starttls_strays: {}", e)),
            Ok(None) => rep.inconclusive("starttls_strays: first attempt expired on the wall clock, the retry passed".to_string()),
            Ok(Some(Got::Hang)) => {
                hung = true;
                rep.violation(
                    if strays.is_empty() { "C01:starttls:own-response-never-delivered" } else { "C01:starttls:stray-message-disturbs-the-pending-operation" },
                    format!("strays {:?} then the refusal rc={} under the StartTLS ID: with_settings still pending after 8 s and, alone, after 40 s", strays, rc),
                    replay,
                )
            }
            Ok(Some(Got::Result { rc: got, text, .. })) => {
                if got != rc || text != refusal.res.text {
                    rep.violation("C01:starttls:result-is-not-the-one-sent-under-its-id", format!("strays {:?}; sent rc={} text={:?}, caller got rc={} text={:?}", strays, rc, refusal.res.text, got, text), replay);
                } else {
                    rep.count(if strays.is_empty() { "starttls_refusal_plain" } else { "starttls_refusal_after_strays" }, 1);
                }
            }
            Ok(Some(other)) => {
                // rc 10 etc. are not success: any other outcome means the answer did not reach the operation
                rep.violation("C01:starttls:result-is-not-the-one-sent-under-its-id", format!("strays {:?}; sent rc={} under the StartTLS ID, caller got {:?}", strays, rc, other), replay)
            }
        }
        rep.case(Some(fnv(format!("{:?}{}", strays, rc).as_bytes())));
    }
    rt.shutdown_background();
    rep.sample(json!({"lane":"starttls_strays","stray_kinds":["unsolicited notification (ID 0)","single-operation response for an unknown ID","search entry for an unknown ID"],"refusal_codes":codes}));
    rep
}

// ---------------- responses for a Search whose reader has gone away ----------------

/// Responses that arrive for a Search nobody reads any more (stream dropped, finished early, search()
/// call cancelled; the server was not told) are delivered to nobody and disturb nobody: the Search
/// running next to it sees all of its own responses and a later operation gets its answer.
pub fn dropped_neighbour(ctx: &Ctx) -> Report {
    let n = ctx.n(4_000, 2_000_000);
    par_cases(ctx, "dropped_neighbour", n, ctx.secs(10, 200), |i, rng, rep| {
        let o = crate::lanes::c10::dropped_neighbour_case(rng);
        let replay = json!({"lane":"dropped_neighbour","case":i});
        if o.b != o.b_expected {
            rep.violation(format!("C01:operation-disturbed:search-next-to-a-search-without-a-reader:{}", o.how), format!("{} ({}): want {:?} got {:?}; driver {}", o.how, if o.split { "rest sent later" } else { "one burst" }, o.b_expected, o.b, o.driver), replay.clone());
        }
        if o.later != "Ok:t:later" {
            rep.violation(format!("C01:operation-disturbed:operation-after-responses-for-a-search-without-a-reader:{}", o.how), format!("{}: later delete -> {}; driver {}", o.how, o.later, o.driver), replay);
        }
        rep.count(&format!("responses_for_a_search_without_a_reader:{}", o.how), 1);
        rep.case(Some(fnv(format!("{}{}{}", o.how, o.split, o.b_expected.len()).as_bytes())));
    })
}
