//! C20 — LDAP URL parameters are extracted as RFC 4516 defines them.
use crate::filter_ref as fr;
use crate::prng::{fnv, Rng};
use crate::report::{case_rng, guarded, par_cases, Ctx, Report};
use ldap3::{get_url_params, LdapError, LdapUrlExt, Scope};
use serde_json::{json, Value};
use url::Url;

#[derive(Clone, Debug)]
pub struct ExtSpec {
    pub name: String,
    pub critical: bool,
    pub value: Option<String>,
    /// 0 bindname, 1 x-bindpw, 2 credentials, 3 saslmech, 4 starttls, 5 unknown
    pub kind: u8,
}

#[derive(Clone, Debug)]
pub struct Comps {
    pub host: String,
    pub dn: String,
    pub attrs: Option<Vec<String>>,
    pub scope: Option<&'static str>,
    pub filter: Option<String>,
    pub exts: Option<Vec<ExtSpec>>,
    pub trailing_q: usize,
}

fn unreserved(b: u8) -> bool {
    b.is_ascii_alphanumeric() || matches!(b, b'-' | b'.' | b'_' | b'~')
}

/// RFC 4516 percent-encoding with random legal choices. `raw_ok` lists extra bytes that may be
/// left raw in this component.
fn pct(s: &str, raw_ok: &[u8], rng: &mut Rng, out: &mut String) {
    for &b in s.as_bytes() {
        let may_raw = unreserved(b) || raw_ok.contains(&b);
        if may_raw && !rng.chance(1, 8) {
            out.push(b as char);
        } else {
            let up = rng.bool();
            if up {
                out.push_str(&format!("%{:02X}", b));
            } else {
                out.push_str(&format!("%{:02x}", b));
            }
        }
    }
}

pub fn format_url(c: &Comps, rng: &mut Rng) -> String {
    let mut u = String::from("ldap://");
    u.push_str(&c.host);
    u.push('/');
    // dn: '/' always encoded so that the URL parser's dot-segment handling cannot touch it
    pct(&c.dn, b"!$&'()*+,;=:@", rng, &mut u);
    let mut fields: Vec<Option<String>> = vec![];
    fields.push(c.attrs.as_ref().map(|a| a.join(",")));
    fields.push(c.scope.map(|s| s.to_string()));
    fields.push(c.filter.as_ref().map(|f| {
        let mut o = String::new();
        pct(f, b"!$&'()*+,;=:@/", rng, &mut o);
        o
    }));
    fields.push(c.exts.as_ref().map(|es| {
        es.iter()
            .map(|e| {
                let mut o = String::new();
                if e.critical {
                    o.push('!');
                }
                o.push_str(&e.name);
                if let Some(v) = &e.value {
                    o.push('=');
                    pct(v, b"!$&'()*+;=:@/", rng, &mut o);
                }
                o
            })
            .collect::<Vec<_>>()
            .join(",")
    }));
    // drop trailing omitted fields, then optionally keep some bare '?'
    let mut last = 0;
    for (i, f) in fields.iter().enumerate() {
        if f.is_some() {
            last = i + 1;
        }
    }
    let keep = (last + c.trailing_q).min(4);
    for f in fields.iter().take(keep) {
        u.push('?');
        if let Some(f) = f {
            u.push_str(f);
        }
    }
    u
}

fn gen_text(rng: &mut Rng, n: usize) -> String {
    let len = rng.usize(n + 1);
    let mut s = String::new();
    for _ in 0..len {
        let c = match rng.below(8) {
            0 => *rng.pick(&['?', ',', '=', '%', '#', ' ', '/', '+', '&', '"', '<', '>', '\\', '^', '`', '{', '}', '|', '[', ']', '\'', ';', ':', '@', '!', '$', '(', ')', '*']),
            1 => *rng.pick(&['é', 'ß', '中', '€', '😀', '\u{7f}', '\u{80}', '\u{a0}', '\t', '\n', '\0']),
            2 => char::from_u32(rng.below(0x80) as u32).unwrap(),
            _ => (b'a' + rng.below(26) as u8) as char,
        };
        s.push(c);
    }
    s
}

pub fn gen_comps(rng: &mut Rng) -> Comps {
    let host = rng.pick(&["", "localhost", "ldap.example.com:3389", "127.0.0.1", "[::1]:389"]).to_string();
    let dn = loop {
        let d = match rng.below(5) {
            0 => String::new(),
            1 => format!("cn={},dc=example,dc=com", gen_text(rng, 8)),
            2 => format!("o=University of Michigan,c=US{}", gen_text(rng, 3)),
            _ => gen_text(rng, 16),
        };
        if d != "." && d != ".." {
            break d;
        }
    };
    let attrs = if rng.chance(2, 3) {
        let n = 1 + rng.usize(4);
        Some((0..n).map(|_| match rng.below(5) {
            0 => "*".to_string(),
            1 => "+".to_string(),
            2 => "1.1".to_string(),
            _ => String::from_utf8(fr::gen_attrdesc(rng)).unwrap(),
        }).collect())
    } else {
        None
    };
    let scope = *rng.pick(&[None, Some("base"), Some("one"), Some("sub")]);
    let filter = if rng.chance(2, 3) {
        Some(match rng.below(3) {
            0 => {
                let f = fr::gen_filter(rng, 2, 2);
                String::from_utf8_lossy(&fr::print_canonical(&f)).into_owned()
            }
            1 => format!("(cn={})", gen_text(rng, 8)),
            _ => { let t = gen_text(rng, 12); if t.is_empty() { "(a=b)".to_string() } else { t } }
        })
    } else {
        None
    };
    let exts = if rng.chance(1, 2) {
        let mut kinds: Vec<u8> = vec![0, 1, 2, 3, 4, 5, 5];
        rng.shuffle(&mut kinds);
        let n = 1 + rng.usize(4);
        let mut es = vec![];
        let mut seen = std::collections::HashSet::new();
        for &k in kinds.iter().take(n) {
            if k != 5 && !seen.insert(k) {
                continue;
            }
            let name = match k {
                0 => rng.pick(&["bindname", "BINDNAME", "BindName"]).to_string(),
                1 => rng.pick(&["x-bindpw", "X-BINDPW", "X-BindPw"]).to_string(),
                2 => "1.3.6.1.4.1.10094.1.5.1".to_string(),
                3 => "1.3.6.1.4.1.10094.1.5.2".to_string(),
                4 => "1.3.6.1.4.1.1466.20037".to_string(),
                _ => rng.pick(&["x-unknown", "e-foo", "1.2.3.4", "bindnam", "x-bindpwx", "1.3.6.1.4.1.10094.1.5.3"]).to_string(),
            };
            let value = if k == 4 { if rng.chance(1, 4) { Some(gen_text(rng, 4)) } else { None } } else if rng.chance(5, 6) { Some(gen_text(rng, 10)) } else { None };
            es.push(ExtSpec { name, critical: rng.chance(1, 3), value, kind: k });
        }
        Some(es)
    } else {
        None
    };
    Comps { host, dn, attrs, scope, filter, exts, trailing_q: rng.usize(3) }
}

fn err_class(e: &LdapError) -> &'static str {
    match e {
        LdapError::DecodingUTF8 => "DecodingUTF8",
        LdapError::InvalidScopeString(_) => "InvalidScopeString",
        LdapError::UnrecognizedCriticalExtension(_) => "UnrecognizedCriticalExtension",
        _ => "other",
    }
}

pub fn check_comps(c: &Comps, rng: &mut Rng, rep: &mut Report, replay: Value) {
    let url_s = format_url(c, rng);
    let url = match Url::parse(&url_s) {
        Ok(u) => u,
        Err(e) => {
            rep.inconclusive(format!("url crate rejects formatted URL {:?}: {}", url_s, e));
            return;
        }
    };
    // empty-string components are indistinguishable from omitted ones in the URL
    let want_attrs: Vec<String> = match &c.attrs { Some(a) if !a.join(",").is_empty() => a.clone(), _ => vec!["*".into()] };
    let want_scope = match c.scope { Some("base") => Scope::Base, Some("one") => Scope::OneLevel, _ => Scope::Subtree };
    let want_filter = match &c.filter { Some(f) if !f.is_empty() => f.clone(), _ => "(objectClass=*)".to_string() };
    let crit_unknown = c.exts.as_ref().map(|es| es.iter().any(|e| e.kind == 5 && e.critical)).unwrap_or(false);
    let r = guarded(|| {
        get_url_params(&url).map(|p| {
            let exts: Vec<(u8, String)> = p.extensions.iter().map(|e| match e {
                LdapUrlExt::Bindname(v) => (0u8, v.to_string()),
                LdapUrlExt::XBindpw(v) => (1, v.to_string()),
                LdapUrlExt::Credentials(v) => (2, v.to_string()),
                LdapUrlExt::SaslMech(v) => (3, v.to_string()),
                LdapUrlExt::StartTLS => (4, String::new()),
                LdapUrlExt::Unknown(v) => (5, v.to_string()),
            }).collect();
            (p.base.to_string(), p.attrs.iter().map(|s| s.to_string()).collect::<Vec<_>>(), p.scope, p.filter.to_string(), exts)
        })
    });
    match r {
        Err(p) => rep.violation(format!("C20:panic@{}", p.site()), format!("url {:?}: {:?}", url_s, p), replay),
        Ok(Err(e)) => {
            if crit_unknown && err_class(&e) == "UnrecognizedCriticalExtension" {
                rep.count("critical_unknown_rejected", 1);
            } else {
                rep.violation(format!("C20:unexpected-error:{}", err_class(&e)), format!("url {:?} comps {:?}: {}", url_s, c, e), replay);
            }
        }
        Ok(Ok((base, attrs, scope, filter, exts))) => {
            if crit_unknown {
                rep.violation("C20:unknown-critical-extension-accepted", format!("url {:?}", url_s), replay.clone());
            }
            if base != c.dn {
                rep.violation("C20:base-differs", format!("url {:?}: want {:?} got {:?}", url_s, c.dn, base), replay.clone());
            }
            if attrs != want_attrs {
                rep.violation("C20:attrs-differ", format!("url {:?}: want {:?} got {:?}", url_s, want_attrs, attrs), replay.clone());
            }
            if scope != want_scope {
                rep.violation("C20:scope-differs", format!("url {:?}: want {:?} got {:?}", url_s, want_scope, scope), replay.clone());
            }
            if filter != want_filter {
                rep.violation("C20:filter-differs", format!("url {:?}: want {:?} got {:?}", url_s, want_filter, filter), replay.clone());
            }
            // extensions: known ones present with decoded values, unknown non-critical ignored
            let mut want: Vec<(u8, String)> = vec![];
            if let Some(es) = &c.exts {
                for e in es {
                    if e.kind == 5 {
                        continue;
                    }
                    let v = if e.kind == 4 { String::new() } else { e.value.clone().unwrap_or_default() };
                    want.push((e.kind, v));
                }
            }
            let mut got = exts.clone();
            want.sort();
            got.sort();
            if want != got {
                rep.violation("C20:extensions-differ", format!("url {:?}: want {:?} got {:?}", url_s, want, got), replay.clone());
            }
            rep.count("accepted", 1);
        }
    }
    let shape = (c.attrs.is_some() as u64) | (c.scope.is_some() as u64) << 1 | (c.filter.is_some() as u64) << 2 | (c.exts.is_some() as u64) << 3 | (c.dn.is_empty() as u64) << 4;
    rep.distinct("component_presence_shapes", shape);
    rep.case(Some(fnv(url_s.as_bytes())));
}

pub fn random(ctx: &Ctx) -> Report {
    let n = ctx.n(2_000_000, 1_000_000_000);
    par_cases(ctx, "random", n, ctx.secs(20, 400), |i, rng, rep| {
        let c = gen_comps(rng);
        if i < 3 {
            let mut r2 = rng.clone();
            rep.sample(json!({"lane":"random","case":i,"url":format_url(&c, &mut r2),"components":format!("{:?}", c).chars().take(300).collect::<String>()}));
        }
        check_comps(&c, rng, rep, json!({"lane":"random","case":i}));
    })
}

/// Error classes named by the property, plus literal RFC 4516 examples.
pub fn errors(_ctx: &Ctx) -> Report {
    let mut rep = Report::new();
    let cases: &[(&str, &str)] = &[
        ("InvalidScopeString", "ldap://h/dc=x??subtree"), ("InvalidScopeString", "ldap://h/dc=x??BASE"), ("InvalidScopeString", "ldap://h/dc=x??one%20"),
        ("InvalidScopeString", "ldap://h/??x?"), ("InvalidScopeString", "ldap:///o=x?cn?onelevel?(a=b)"),
        ("DecodingUTF8", "ldap://h/dc=%ff"), ("DecodingUTF8", "ldap://h/dc=x????bindname=%c0%80"), ("DecodingUTF8", "ldap://h/dc=x??sub?(cn=%e2%82)"),
        ("DecodingUTF8", "ldap://h/%80"), ("DecodingUTF8", "ldap://h/o=x????x-bindpw=%ed%a0%80"), ("DecodingUTF8", "ldap://h/o=x????1.3.6.1.4.1.10094.1.5.2=%fe"),
        ("UnrecognizedCriticalExtension", "ldap://h/dc=x????!x-foo=1"), ("UnrecognizedCriticalExtension", "ldap://h/dc=x????bindname=a,!e-bar"),
        ("UnrecognizedCriticalExtension", "ldap://h/dc=x????!1.2.3"), ("UnrecognizedCriticalExtension", "ldap:///??sub??!e-bindname=cn=Manager%2cdc=example%2cdc=com"),
    ];
    for (want, u) in cases {
        let url = Url::parse(u).expect("url");
        match guarded(|| get_url_params(&url).map(|_| ())) {
            Ok(Err(e)) if err_class(&e) == *want => {}
            Ok(other) => rep.violation(format!("C20:error-class:{}", want), format!("{:?}: expected {} got {:?}", u, want, other.map_err(|e| e.to_string())), json!({"lane":"errors","url":u})),
            Err(p) => rep.violation(format!("C20:panic@{}", p.site()), format!("{:?}", u), json!({"lane":"errors","url":u})),
        }
        rep.count(&format!("class_{}", want), 1);
        rep.case(Some(fnv(u.as_bytes())));
    }
    // RFC 4516 section 4 examples
    type Ex = (&'static str, &'static str, Vec<&'static str>, Scope, &'static str);
    let ex: Vec<Ex> = vec![
        ("ldap:///o=University%20of%20Michigan,c=US", "o=University of Michigan,c=US", vec!["*"], Scope::Subtree, "(objectClass=*)"),
        ("ldap://ldap1.example.net/o=University%20of%20Michigan,c=US?postalAddress", "o=University of Michigan,c=US", vec!["postalAddress"], Scope::Subtree, "(objectClass=*)"),
        ("ldap://ldap1.example.net:6666/o=University%20of%20Michigan,c=US??sub?(cn=Babs%20Jensen)", "o=University of Michigan,c=US", vec!["*"], Scope::Subtree, "(cn=Babs Jensen)"),
        ("LDAP://ldap1.example.com/c=GB?objectClass?ONE", "", vec![], Scope::Base, "ERR"),
        ("ldap://ldap2.example.com/o=Question%3f,c=US?mail", "o=Question?,c=US", vec!["mail"], Scope::Subtree, "(objectClass=*)"),
        ("ldap://ldap3.example.com/o=Babsco,c=US???(four-octet=%5c00%5c00%5c00%5c04)", "o=Babsco,c=US", vec!["*"], Scope::Subtree, "(four-octet=\\00\\00\\00\\04)"),
        ("ldap://ldap.example.com/o=An%20Example%5C2C%20Inc.,c=US", "o=An Example\\2C Inc.,c=US", vec!["*"], Scope::Subtree, "(objectClass=*)"),
        ("ldap://ldap.example.net", "", vec!["*"], Scope::Subtree, "(objectClass=*)"),
        ("ldap://ldap.example.net/", "", vec!["*"], Scope::Subtree, "(objectClass=*)"),
        ("ldap://ldap.example.net/?", "", vec!["*"], Scope::Subtree, "(objectClass=*)"),
        ("ldap:///??sub??e-bindname=cn=Manager%2cdc=example%2cdc=com", "", vec!["*"], Scope::Subtree, "(objectClass=*)"),
        ("ldap://h/dc=x?cn,sn;lang-en,1.1?base?(a=b)", "dc=x", vec!["cn", "sn;lang-en", "1.1"], Scope::Base, "(a=b)"),
    ];
    for (u, base, attrs, scope, filter) in ex {
        let url = Url::parse(u).expect("url");
        let r = guarded(|| get_url_params(&url).map(|p| (p.base.to_string(), p.attrs.iter().map(|s| s.to_string()).collect::<Vec<_>>(), p.scope, p.filter.to_string())));
        match r {
            Ok(Ok((b, a, s, f))) => {
                if filter == "ERR" {
                    // RFC says scope words are case-insensitive ("ONE"); ABNF literal. The library is
                    // case-sensitive; the property only speaks of 'an invalid scope word', so not judged.
                    rep.count("uppercase_scope_word_accepted", 1);
                } else if b != base || a != attrs || s != scope || f != filter {
                    rep.violation("C20:rfc4516-example-differs", format!("{:?}: got ({:?},{:?},{:?},{:?})", u, b, a, s, f), json!({"lane":"errors","url":u}));
                }
            }
            Ok(Err(e)) => {
                if filter != "ERR" {
                    rep.violation("C20:rfc4516-example-rejected", format!("{:?}: {}", u, e), json!({"lane":"errors","url":u}));
                } else {
                    rep.count("uppercase_scope_word_rejected", 1);
                }
            }
            Err(p) => rep.violation(format!("C20:panic@{}", p.site()), format!("{:?}", u), json!({"lane":"errors","url":u})),
        }
        rep.count("rfc_examples", 1);
        rep.case(Some(fnv(u.as_bytes())));
    }
    rep.sample(json!({"lane":"errors","url":"ldap://h/dc=x????!x-foo=1","expect":"UnrecognizedCriticalExtension"}));
    rep
}

pub fn replay(ctx: &Ctx, v: &Value) -> Report {
    let mut rep = Report::new();
    if let Some(i) = v["case"].as_u64() {
        let mut rng = case_rng(ctx.seed, "random", i);
        let c = gen_comps(&mut rng);
        println!("components: {:?}", c);
        check_comps(&c, &mut rng, &mut rep, v.clone());
    }
    rep
}
