//! C03 — results returned to the caller are exactly what the server sent.
use crate::ber::{self, Enc};
use crate::gen;
use crate::msg::{resp_node, Req, Res, Resp, RespCtl};
use crate::pipe::Chunking;
use crate::prng::{fnv, Rng};
use crate::report::{case_rng, par_cases, Ctx, Report};
use crate::world::{self, connect, invoke, runtime, CtlOut, ItemOut, Outcome, ResOut};
use ldap3::exop::Exop;
use ldap3::result::{CompareResult, ExopResult, LdapResult, SearchResult};
use serde_json::{json, Value};

pub fn expect_ctrls(c: &Option<Vec<RespCtl>>) -> Vec<CtlOut> {
    c.as_ref()
        .map(|v| v.iter().map(|c| CtlOut { known: gen::known_name(&c.oid), oid: c.oid.clone(), crit: c.crit_bool(), val: c.val.clone() }).collect())
        .unwrap_or_default()
}

pub fn expect_res(r: &Res, ctrls: &Option<Vec<RespCtl>>) -> ResOut {
    ResOut { rc: r.rc, matched: r.matched.clone(), text: r.text.clone(), refs: r.refs.clone().unwrap_or_default(), ctrls: expect_ctrls(ctrls), exop_name: None, exop_val: None }
}

/// One server-side answer to a request, with everything needed to predict the client's view.
#[derive(Clone, Debug)]
pub struct Planned {
    pub token: u64,
    pub wire_id: i64,
    pub msgs: Vec<(Resp, Option<Vec<RespCtl>>)>,
}

/// Build the response(s) for a request.
pub fn plan_response(rng: &mut Rng, id: i64, op: &Req) -> Vec<(Resp, Option<Vec<RespCtl>>)> {
    let tok = format!("t:{}:", id);
    match op {
        Req::Bind { .. } => vec![(Resp::Bind { res: gen::gen_res(rng, &tok), sasl: if rng.bool() { Some(gen::gen_bytes(rng, false)) } else { None } }, gen::gen_resp_controls(rng))],
        Req::Search { .. } => {
            let n = match rng.below(4) {
                0 => 0,
                1 => 1,
                _ => rng.usize(8),
            };
            let mut v = vec![];
            for k in 0..n {
                let m = match rng.below(5) {
                    0 => Resp::Reference((0..1 + rng.usize(3)).map(|j| format!("ldap://ref{}/{}.{}", j, id, k)).collect()),
                    1 => Resp::Intermediate { name: if rng.bool() { Some("1.2.3.4".into()) } else { None }, value: if rng.bool() { Some(format!("i:{}:{}", id, k).into_bytes()) } else { None } },
                    _ => Resp::Entry {
                        dn: format!("e={}.{},dc=x", id, k).into_bytes(),
                        attrs: (0..rng.usize(4)).map(|a| (format!("a{}", a).into_bytes(), (0..rng.usize(3)).map(|_| gen::gen_bytes(rng, false)).collect())).collect(),
                    },
                };
                v.push((m, gen::gen_resp_controls(rng)));
            }
            v.push((Resp::Done(gen::gen_res(rng, &tok)), gen::gen_resp_controls(rng)));
            v
        }
        Req::Extended { .. } => vec![(
            Resp::Extended { res: gen::gen_res(rng, &tok), name: if rng.bool() { Some(String::from_utf8(crate::filter_ref::gen_numericoid(rng)).unwrap()) } else { None }, value: match rng.below(3) { 0 => None, 1 => Some(vec![]), _ => Some(gen::gen_bytes(rng, true)) } },
            gen::gen_resp_controls(rng),
        )],
        Req::Unbind | Req::Abandon(_) => vec![],
        other => vec![(crate::msg::reply_for(other, gen::gen_res(rng, &tok)).unwrap(), gen::gen_resp_controls(rng))],
    }
}

pub fn expected_outcome(msgs: &[(Resp, Option<Vec<RespCtl>>)]) -> Outcome {
    if msgs.is_empty() {
        return Outcome::Unit;
    }
    let (last, lc) = msgs.last().unwrap();
    match last {
        Resp::Bind { res, .. } | Resp::Modify(res) | Resp::Add(res) | Resp::Del(res) | Resp::ModDn(res) | Resp::Compare(res) => Outcome::Res(expect_res(res, lc)),
        Resp::Extended { res, name, value } => {
            let mut o = expect_res(res, lc);
            o.exop_name = name.clone();
            o.exop_val = value.clone();
            Outcome::Res(o)
        }
        Resp::Done(res) => {
            // search(): entries only, referral URIs appended to refs in arrival order, intermediates dropped
            let mut items = vec![];
            let mut r = expect_res(res, lc);
            for (m, c) in &msgs[..msgs.len() - 1] {
                match m {
                    Resp::Entry { .. } => items.push(ItemOut { node: m.op_node(), ctrls: expect_ctrls(c), is_ref: false, is_intermediate: false }),
                    Resp::Reference(u) => r.refs.extend(u.iter().cloned()),
                    _ => {}
                }
            }
            Outcome::Search(items, r)
        }
        _ => Outcome::Unit,
    }
}

fn field_diff(want: &Outcome, got: &Outcome) -> String {
    match (want, got) {
        (Outcome::Res(w), Outcome::Res(g)) | (Outcome::Search(_, w), Outcome::Search(_, g)) if w != g => {
            if w.rc != g.rc { return "result-code".into(); }
            if w.matched != g.matched { return "matched-dn".into(); }
            if w.text != g.text { return "diagnostic-text".into(); }
            if w.refs != g.refs { return "referrals".into(); }
            if w.ctrls != g.ctrls {
                if w.ctrls.len() != g.ctrls.len() { return "controls:count".into(); }
                for (a, b) in w.ctrls.iter().zip(&g.ctrls) {
                    if a.oid != b.oid { return "controls:oid".into(); }
                    if a.crit != b.crit { return "controls:criticality".into(); }
                    if a.val != b.val { return "controls:value".into(); }
                    if a.known != b.known { return "controls:known-type".into(); }
                }
            }
            if w.exop_name != g.exop_name { return "exop-name".into(); }
            if w.exop_val != g.exop_val { return "exop-value".into(); }
            "?".into()
        }
        (Outcome::Search(wi, _), Outcome::Search(gi, _)) => {
            if wi.len() != gi.len() { "entries:count".into() } else { "entries:content".into() }
        }
        _ => format!("{}-instead-of-{}", got.class(), want.class()),
    }
}

fn run_case(i: u64, rng: &mut Rng, rep: &mut Report, verbose: bool) {
    let nops = 1 + rng.usize(6);
    let calls: Vec<world::Call> = (0..nops).map(|k| gen::gen_call(rng, i * 100 + k as u64, false, true)).collect();
    let mut srng = rng.fork();
    let chunk = *rng.pick(&[Chunking::Whole, Chunking::Random, Chunking::Random, Chunking::Bytewise]);
    let rt = runtime(rng.next());
    let calls2 = calls.clone();
    let (outs, plans, drv) = rt.block_on(async move {
        let c = connect();
        let mut ldap = c.ldap;
        let mut server = c.server;
        let srv = tokio::spawn(async move {
            let mut plans: Vec<Vec<(Resp, Option<Vec<RespCtl>>)>> = vec![];
            while let Some(w) = server.request().await {
                let m = match w.msg {
                    Ok(m) => m,
                    Err(_) => break,
                };
                let p = plan_response(&mut srng, m.id, &m.op);
                for (r, cs) in &p {
                    let node = resp_node(m.id, r, cs.as_deref());
                    let mut er = srng.fork();
                    let bytes = Enc::random(&mut er).to_vec(&node);
                    server.send_chunked(&bytes, chunk, &mut srng);
                }
                plans.push(p);
            }
            plans
        });
        let mut outs = vec![];
        for call in &calls2 {
            outs.push(world::watchdog(invoke(&mut ldap, call)).await.unwrap_or(Outcome::Hung));
        }
        drop(ldap);
        let plans = srv.await.unwrap_or_default();
        let drv = c.driver.await;
        (outs, plans, drv)
    });
    for (k, (call, out)) in calls.iter().zip(&outs).enumerate() {
        let replay = json!({"lane":"responses","case":i});
        let plan = match plans.get(k) {
            Some(p) => p,
            None => {
                rep.violation("C03:request-never-reached-server", format!("call {:?}", call.kind()), replay);
                continue;
            }
        };
        let want = expected_outcome(plan);
        if &want != out {
            let d = field_diff(&want, out);
            rep.violation(format!("C03:{}:{}", call.kind(), d), format!("want {:?}\n got {:?}", trunc(&want), trunc(out)), replay);
        }
        rep.count(&format!("op_{}", call.kind()), 1);
        rep.count("responses_checked", plan.len() as u64);
        if verbose {
            println!("{} -> {:?}", call.kind(), trunc(out));
        }
    }
    match drv {
        Ok(Ok(Ok(()))) => {}
        other => rep.violation("C03:driver-did-not-exit-cleanly", format!("{:?}", other), json!({"lane":"responses","case":i})),
    }
    if i < 2 {
        rep.sample(json!({"lane":"responses","case":i,"calls":calls.iter().map(|c| c.kind()).collect::<Vec<_>>(),"first_outcome":trunc(&outs[0])}));
    }
    let mut h = 0u64;
    for p in &plans {
        for (r, c) in p {
            h = h.wrapping_mul(31).wrapping_add(fnv(format!("{:?}{:?}", r, c).as_bytes()));
        }
    }
    rep.case(Some(h));
}

// ---------------- results that pass through the PagedResults adapter ----------------

/// The adapter removes its own control from the final result; everything else the server encoded in
/// the final SearchResultDone (result fields, the other controls, in the server's order) and every
/// entry with its controls must reach the caller unchanged.
fn run_paged_case(i: u64, rng: &mut Rng, rep: &mut Report, verbose: bool) {
    use crate::lanes::c13::{paged_value, parse_paged, PAGED_OID};
    use crate::msg::CritEnc;
    use ldap3::adapters::{Adapter, EntriesOnly, PagedResults};
    let pages = 1 + rng.usize(3);
    let behind = rng.bool();
    let tokp = format!("t:{}:", i);
    // plan: entries per page, final result and its controls
    let mut plan_entries: Vec<Vec<(Resp, Option<Vec<RespCtl>>)>> = vec![];
    for p in 0..pages {
        let n = rng.usize(4);
        plan_entries.push((0..n).map(|k| (Resp::Entry { dn: format!("e={}.{}.{},dc=x", i, p, k).into_bytes(), attrs: vec![(b"a".to_vec(), vec![gen::gen_bytes(rng, false)])] }, gen::gen_resp_controls(rng))).collect());
    }
    let final_res = gen::gen_res(rng, &tokp);
    let mut others: Vec<RespCtl> = gen::gen_resp_controls(rng).unwrap_or_default();
    others.retain(|c| c.oid != PAGED_OID);
    if rng.bool() {
        for k in 0..1 + rng.usize(4) {
            others.push(RespCtl { oid: format!("1.2.3.4.{}", k), crit: CritEnc::Absent, val: Some(format!("v{}", k).into_bytes()) });
        }
    }
    let pos = rng.usize(others.len() + 1);
    let mut final_ctrls = others.clone();
    final_ctrls.insert(pos, RespCtl { oid: PAGED_OID.into(), crit: CritEnc::Absent, val: Some(paged_value(rng.below(100) as i64, b"")) });
    let mut srng = rng.fork();
    let chunk = *rng.pick(&[Chunking::Whole, Chunking::Random, Chunking::Bytewise]);
    let rt = runtime(rng.next());
    let (pe, fr, fc) = (plan_entries.clone(), final_res.clone(), final_ctrls.clone());
    let (items, result, outcome) = rt.block_on(async move {
        let c = connect();
        let mut ldap = c.ldap;
        let mut server = c.server;
        let srv = tokio::spawn(async move {
            while let Some(w) = server.request().await {
                let m = match w.msg {
                    Ok(m) => m,
                    Err(_) => break,
                };
                if !matches!(m.op, Req::Search { .. }) {
                    continue;
                }
                let cookie = m.controls.as_ref().and_then(|cs| cs.iter().find(|c| c.oid == PAGED_OID.as_bytes())).and_then(|c| c.val.as_ref()).and_then(|v| parse_paged(v)).map(|x| x.1).unwrap_or_default();
                let k: usize = String::from_utf8_lossy(&cookie).parse().unwrap_or(0);
                let mut nodes = vec![];
                for (r, cs) in pe.get(k).cloned().unwrap_or_default() {
                    nodes.push(resp_node(m.id, &r, cs.as_deref()));
                }
                if k + 1 < pe.len() {
                    let pc = RespCtl { oid: PAGED_OID.into(), crit: CritEnc::Absent, val: Some(paged_value(0, (k + 1).to_string().as_bytes())) };
                    nodes.push(resp_node(m.id, &Resp::Done(Res::ok("page")), Some(&[pc])));
                } else {
                    nodes.push(resp_node(m.id, &Resp::Done(fr.clone()), Some(&fc)));
                }
                for n in nodes {
                    let mut er = srng.fork();
                    let bytes = Enc::random(&mut er).to_vec(&n);
                    server.send_chunked(&bytes, chunk, &mut srng);
                }
            }
        });
        let adapters: Vec<Box<dyn Adapter<'static, String, Vec<String>>>> = if behind { vec![Box::new(EntriesOnly::new()), Box::new(PagedResults::new(3))] } else { vec![Box::new(PagedResults::new(3))] };
        let mut items = vec![];
        let mut result = None;
        let outcome = match world::watchdog(async {
            let mut st = ldap.streaming_search_with(adapters, "dc=x", ldap3::Scope::Subtree, "(a=b)", vec!["*".to_string()]).await?;
            while let Some(e) = st.next().await? {
                items.push(world::item_out(&e));
            }
            result = Some(world::res_out(&st.finish().await));
            Ok::<_, ldap3::LdapError>(())
        })
        .await
        {
            Ok(Ok(())) => "ok".to_string(),
            Ok(Err(e)) => format!("Err({})", e),
            Err(()) => "Hung".into(),
        };
        drop(ldap);
        srv.abort();
        let _ = c.driver.await;
        (items, result, outcome)
    });
    let replay = json!({"lane":"paged_results","case":i});
    if outcome != "ok" {
        rep.violation("C03:paged-search:call-failed", outcome.clone(), replay.clone());
    }
    let want_items: Vec<ItemOut> = plan_entries.iter().flatten().map(|(m, c)| ItemOut { node: m.op_node(), ctrls: expect_ctrls(c), is_ref: false, is_intermediate: false }).collect();
    if want_items != items {
        rep.violation(format!("C03:paged-search:entries:{}", if want_items.len() != items.len() { "count" } else { "content-or-controls" }), format!("want {} got {}", trunc(&want_items), trunc(&items)), replay.clone());
    }
    if let Some(got) = result {
        let want = expect_res(&final_res, &Some(others.clone()));
        if want != got {
            let d = field_diff(&Outcome::Res(want.clone()), &Outcome::Res(got.clone()));
            let d = if d == "?" && want.ctrls.len() == got.ctrls.len() { "controls:order".to_string() } else { d };
            rep.violation(format!("C03:paged-search:final-result:{}", d), format!("paging control was at position {} of {}\nwant {}\n got {}", pos, final_ctrls.len(), trunc(&want), trunc(&got)), replay.clone());
        }
    }
    if verbose {
        println!("pages {} behind {} others {} pos {} -> {}", pages, behind, others.len(), pos, outcome);
    }
    rep.count("paged_final_results_checked", 1);
    rep.count(&format!("other_controls_in_final_result_{}", others.len().min(5)), 1);
    if i < 2 {
        rep.sample(json!({"lane":"paged_results","case":i,"pages":pages,"other_controls":others.len(),"paging_control_position":pos,"entries":want_items.len()}));
    }
    rep.case(Some(fnv(format!("{:?}{:?}{}", final_ctrls, final_res, pages).as_bytes())));
}

pub fn paged_results(ctx: &Ctx) -> Report {
    let n = ctx.n(20_000, 10_000_000);
    par_cases(ctx, "paged_results", n, ctx.secs(20, 400), |i, rng, rep| run_paged_case(i, rng, rep, false))
}

fn trunc<T: std::fmt::Debug>(t: &T) -> String {
    format!("{:?}", t).chars().take(700).collect()
}

pub fn responses(ctx: &Ctx) -> Report {
    let n = ctx.n(60_000, 30_000_000);
    par_cases(ctx, "responses", n, ctx.secs(25, 500), |i, rng, rep| run_case(i, rng, rep, false))
}

/// success()/non_error()/equal() against the documented table.
pub fn helpers(ctx: &Ctx) -> Report {
    let mut rep = Report::new();
    let mut rng = Rng::new(ctx.seed ^ 0xc03);
    let mut codes: Vec<u32> = (0..=130).collect();
    for _ in 0..ctx.n(2000, 100_000) {
        codes.push(rng.below(1 << 31) as u32);
    }
    codes.extend_from_slice(&[u32::MAX, 1 << 31, 255, 256, 65536]);
    for rc in codes {
        let r = || LdapResult { rc, matched: String::new(), text: String::new(), refs: vec![], ctrls: vec![] };
        let checks: Vec<(&str, bool, bool)> = vec![
            ("LdapResult::success", r().success().is_ok(), rc == 0),
            ("LdapResult::non_error", r().non_error().is_ok(), rc == 0 || rc == 10),
            ("SearchResult::success", SearchResult(vec![], r()).success().is_ok(), rc == 0),
            ("SearchResult::non_error", SearchResult(vec![], r()).non_error().is_ok(), rc == 0 || rc == 10),
            ("ExopResult::success", ExopResult(Exop { name: None, val: None }, r()).success().is_ok(), rc == 0),
            ("ExopResult::non_error", ExopResult(Exop { name: None, val: None }, r()).non_error().is_ok(), rc == 0 || rc == 10),
            ("CompareResult::non_error", CompareResult(r()).non_error().is_ok(), rc == 5 || rc == 6 || rc == 10),
        ];
        for (name, got, want) in checks {
            if got != want {
                rep.violation(format!("C03:helper:{}", name), format!("rc {} -> ok={} expected ok={}", rc, got, want), json!({"lane":"helpers","rc":rc}));
            }
        }
        let eq = CompareResult(r()).equal();
        let ok = match (rc, &eq) {
            (5, Ok(false)) | (6, Ok(true)) => true,
            (5, _) | (6, _) => false,
            (_, Err(_)) => true,
            _ => false,
        };
        if !ok {
            rep.violation("C03:helper:CompareResult::equal", format!("rc {} -> {:?}", rc, eq.map_err(|e| e.to_string())), json!({"lane":"helpers","rc":rc}));
        }
        // an error wraps the very same result
        if rc != 0 {
            if let Err(ldap3::LdapError::LdapResult { result }) = r().success() {
                if result.rc != rc {
                    rep.violation("C03:helper:error-carries-different-result", format!("{}", rc), json!({"lane":"helpers","rc":rc}));
                }
            } else {
                rep.violation("C03:helper:LdapResult::success", format!("rc {} not wrapped as LdapError::LdapResult", rc), json!({"lane":"helpers","rc":rc}));
            }
        }
        rep.case(Some(rc as u64));
    }
    rep.exhaustive.push("all result codes 0..=130 for every helper".into());
    rep.sample(json!({"lane":"helpers","example":"rc=10 -> success() Err, non_error() Ok, equal() Err"}));
    rep
}

pub fn replay(ctx: &Ctx, v: &Value) -> Report {
    let mut rep = Report::new();
    if let Some(i) = v["case"].as_u64() {
        let mut rng = case_rng(ctx.seed, "responses", i);
        run_case(i, &mut rng, &mut rep, true);
    }
    let _ = ber::hex(&[]);
    rep
}

// ---------------- the result of a refused StartTLS ----------------

/// `LdapConnSettings::set_starttls(true)`: the server's answer to the StartTLS request is a result
/// like any other; when it is not success (0) the caller must be handed exactly what the server
/// sent (code, matched DN, text, referral list).  Code 10 (referral) is not success.
pub fn starttls_results(ctx: &Ctx) -> Report {
    use crate::lanes::starttls::{run, Got, Refusal};
    let mut rep = Report::new();
    let rt = tokio::runtime::Builder::new_multi_thread().worker_threads(2).enable_all().build().expect("rt");
    let mut rng = crate::report::case_rng(ctx.seed, "starttls_results", 0);
    let reps = if ctx.tiny { 1 } else { ctx.n(16, 400) };
    let codes = [1u32, 2, 8, 10, 10, 12, 13, 50, 51, 52, 53, 80, 118, 4096];
    let mut hung = false;
    for r in 0..reps {
        let rc = if r < codes.len() as u64 { codes[r as usize] } else { *rng.pick(&codes) };
        let refs: Option<Vec<String>> = if rc == 10 || rng.chance(1, 4) { Some((0..1 + rng.usize(3)).map(|k| format!("ldap://tls{}.example.org/dc=x??sub", k)).collect()) } else { None };
        let res = Res { rc, matched: if rng.bool() { "dc=matched".into() } else { String::new() }, text: format!("t:starttls:{}:{}", r, rng.ustring(12)), refs: refs.clone() };
        let name = if rng.bool() { Some("1.3.6.1.4.1.1466.20037".to_string()) } else { None };
        let refusal = Refusal { strays: vec![], res: res.clone(), name, split: rng.bool(), raw_answer: None };
        let replay = json!({"lane":"starttls_results","rep":r,"rc":rc,"refs":refs});
        if hung {
            break;
        }
        match run(&rt, &refusal) {
            Err(e) => rep.inconclusive(format!("starttls_results: {}", e)),
            Ok(None) => rep.inconclusive("starttls_results: first attempt expired on the wall clock, the retry passed".to_string()),
            Ok(Some(Got::Hang)) => {
                hung = true;
                rep.violation("C03:starttls:result-not-returned:establishment-pending", format!("refusal rc={} sent; with_settings still pending after 8 s and, alone, after 40 s", rc), replay)
            }
            Ok(Some(Got::Result { rc: grc, matched, text, refs: grefs })) => {
                let want_refs = refs.clone().unwrap_or_default();
                if grc != res.rc || matched != res.matched || text != res.text || grefs != want_refs {
                    rep.violation(
                        format!("C03:starttls:result-fields-differ:{}", if grc != res.rc { "rc" } else if grefs != want_refs { "refs" } else if text != res.text { "text" } else { "matched" }),
                        format!("sent {:?}; caller got rc={} matched={:?} text={:?} refs={:?}", res, grc, matched, text, grefs),
                        replay,
                    );
                } else {
                    rep.count(if rc == 10 { "starttls_referral_result_returned" } else { "starttls_refusal_returned" }, 1);
                }
            }
            Ok(Some(other)) => rep.violation(format!("C03:starttls:result-not-returned:rc{}", if rc == 10 { "10" } else { "-other" }), format!("sent {:?} in answer to the StartTLS request; caller got {:?}", res, other), replay),
        }
        rep.case(Some(fnv(format!("{}{:?}", rc, refs.is_some()).as_bytes())));
    }
    rt.shutdown_background();
    rep.sample(json!({"lane":"starttls_results","codes":codes,"fields":["rc","matched","text","refs"]}));
    rep
}

// ---------------- result codes at and beyond the edges of the code's type ----------------

/// The result code handed to the caller is the one the server encoded.  `LdapResult::rc` is a
/// `u32`; an ENUMERATED that does not fit (2^32 and up, negative) or has no content octets cannot be
/// reported faithfully, so the operation must fail rather than report some other code (2^32 read as
/// 0 would be "success").  Codes that fit, in any legal encoding, must be reported exactly.
pub fn odd_result_codes(ctx: &Ctx) -> Report {
    use crate::ber::{Node, APP, UNIV};
    let mut rep = Report::new();
    // (content octets of the ENUMERATED, the value if it is a code the type can hold)
    let mut codes: Vec<(Vec<u8>, Option<u32>, &'static str)> = vec![
        (vec![0x01, 0, 0, 0, 0], None, "2^32"),
        (vec![0x01, 0, 0, 0, 49], None, "2^32+49"),
        (vec![0x01, 0, 0, 0, 0, 0, 0, 0, 0], None, "2^64"),
        (vec![0x7f, 0xff, 0xff, 0xff, 0xff, 0xff, 0xff, 0xff], None, "2^63-1"),
        (vec![], None, "no content octets"),
        (vec![0xff], None, "-1"),
        (vec![0x80, 0, 0, 0], None, "-2^31"),
        (vec![0xff, 0x00], None, "-256"),
        (vec![0x00, 0x80, 0, 0, 0], Some(1 << 31), "2^31"),
        (vec![0x00, 0xff, 0xff, 0xff, 0xff], Some(u32::MAX), "2^32-1"),
        (vec![0x7f, 0xff, 0xff, 0xff], Some(i32::MAX as u32), "2^31-1"),
        (vec![0x00, 0x00], Some(0), "0 in two octets"),
        (vec![0x00, 0x00, 0x00, 0x00, 0x31], Some(49), "49 in five octets"),
        (vec![0x10, 0x00], Some(4096), "4096"),
        (vec![0x00], Some(0), "0"),
    ];
    if ctx.tiny {
        codes.truncate(6);
    }
    let mut rng = case_rng(ctx.seed, "odd_result_codes", 0);
    for (content, fits, label) in &codes {
        for kind in 0..5u8 {
            let rt = runtime(rng.next());
            let content2 = content.clone();
            let out = rt.block_on(async move {
                let c = connect();
                let mut ldap = c.ldap;
                let mut server = c.server;
                let srv = tokio::spawn(async move {
                    if let Some(w) = server.request().await {
                        if let Ok(m) = w.msg {
                            let tag = match &m.op {
                                Req::Bind { .. } => 1,
                                Req::Search { .. } => 5,
                                Req::Del(_) => 11,
                                Req::Compare { .. } => 15,
                                _ => 24,
                            };
                            let op = Node::C { class: APP, tag, kids: vec![Node::P { class: UNIV, tag: 10, data: content2 }, ber::octets(b""), ber::octets(b"t:odd")] };
                            server.send(&ber::encode_min(&ber::seq(vec![ber::integer(m.id), op])));
                        }
                    }
                    server.wait_closed().await;
                });
                let call = match kind {
                    0 => world::Call::Bind { dn: "cn=x".into(), pw: "p".into() },
                    1 => world::Call::Search(crate::world::SearchSpec { opts: None, ..gen::gen_search(&mut Rng::new(7), 1) }),
                    2 => world::Call::Delete { dn: "cn=x".into() },
                    3 => world::Call::Compare { dn: "cn=x".into(), attr: "a".into(), val: b"v".to_vec() },
                    _ => world::Call::Extended { name: "1.3.6.1.4.1.4203.1.11.3".into(), val: None },
                };
                let o = world::watchdog(invoke(&mut ldap, &call)).await.unwrap_or(Outcome::Hung);
                drop(ldap);
                srv.abort();
                let _ = c.driver.await;
                o
            });
            let kname = ["bind", "search", "delete", "compare", "extended"][kind as usize];
            let replay = json!({"lane":"odd_result_codes","code":label,"op":kname});
            let got_rc = match &out {
                Outcome::Res(r) => Some(r.rc),
                Outcome::Search(_, r) => Some(r.rc),
                _ => None,
            };
            match (fits, got_rc, &out) {
                (_, _, Outcome::Hung) | (_, _, Outcome::Panic(_)) => rep.violation(format!("C03:odd-result-code:{}:{}", kname, out.class().to_lowercase()), format!("resultCode {} ({}): {:?}", label, ber::hex(content), trunc(&out)), replay),
                (Some(v), Some(g), _) if *v == g => rep.count("result_codes_at_the_edge_reported_exactly", 1),
                (Some(v), g, _) => rep.violation(format!("C03:{}:rc", kname), format!("resultCode {} (ENUMERATED content {}) = {}: caller got {:?} ({})", label, ber::hex(content), v, g, out.class()), replay),
                (None, Some(g), _) => rep.violation(
                    format!("C03:result-code-that-was-never-sent:{}{}", kname, if g == 0 { ":reported-as-success" } else { "" }),
                    format!("resultCode {} (ENUMERATED content {}) does not fit the result code's type; the caller was handed Ok with rc={}", label, ber::hex(content), g),
                    replay,
                ),
                (None, None, _) => rep.count("unrepresentable_result_codes_failed_the_operation", 1),
            }
            rep.case(Some(fnv(format!("{}{}", label, kname).as_bytes())));
        }
    }
    rep.sample(json!({"lane":"odd_result_codes","codes":codes.iter().map(|c| c.2).collect::<Vec<_>>()}));
    rep
}
