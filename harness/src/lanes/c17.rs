//! C17 — requested TLS is never silently downgraded. Real loopback TCP + native-tls.
use crate::ber;
use crate::msg::{decode_request, resp_node, Req, Res, Resp};
use crate::prng::{fnv, Rng};
use crate::report::{Ctx, Report};
use crate::world::{err_class, Caught};
use ldap3::{LdapConnAsync, LdapConnSettings};
use serde_json::json;
use std::sync::{Arc, Mutex};
use std::time::Duration;
use tokio::io::{AsyncRead, AsyncReadExt, AsyncWrite, AsyncWriteExt};
use tokio::net::{TcpListener, TcpStream};

const STARTTLS_OID: &[u8] = b"1.3.6.1.4.1.1466.20037";

#[derive(Clone, Copy, Debug, PartialEq)]
pub enum Cert {
    Good,
    WrongName,
    Untrusted,
    SelfSigned,
    /// issued by the trusted CA for the IP address 127.0.0.1 only (not for the name localhost)
    IpOnly,
}

#[derive(Clone, Debug, PartialEq)]
pub enum Behaviour {
    /// answer StartTLS with success (or accept ldaps) and run TLS with this certificate
    Tls(Cert),
    /// refuse StartTLS with this result code
    Refuse(u32),
    /// refuse StartTLS with this result code, but go along with a TLS handshake (trusted
    /// certificate) if the client starts one anyway
    RefuseThenTls(u32),
    /// like RefuseThenTls, but the refusal carries no responseName (0), the Notice of Disconnection
    /// OID (1) or some other OID (2) instead of the StartTLS OID: a refusal is a refusal whatever it
    /// is named
    RefuseNamedThenTls(u32, u8),
    /// an unsolicited notification (message ID 0) reporting success, the refusal of the StartTLS request
    /// itself (this code) in the same write, then a handshake if the client starts one: what answers the
    /// request is the response under its own ID
    UnsolicitedSuccessThenRefuseThenTls(u32),
    /// answer StartTLS with bytes that are not an LDAP message
    Garbage,
    /// answer StartTLS with a well-formed non-extended response
    WrongResponse,
    /// answer StartTLS with a well-formed envelope whose result cannot be decoded (0 = empty
    /// ExtendedResponse, 1 = cut after the result code, 2 = result code as INTEGER, 3 = empty
    /// IntermediateResponse, 4 = success with non-UTF-8 diagnostic text), then go along with a TLS
    /// handshake (trusted certificate) if the client starts one anyway
    MalformedThenTls(u8),
    /// close right after reading the request (or right after accept for ldaps)
    Close,
    /// never answer the StartTLS request but keep listening; the client gives up on establishment
    /// (false: its connection timeout of 400 ms elapses; true: the caller drops the connect future
    /// after 400 ms).  Whatever is left of the connection must not speak LDAP in the clear.
    Silent(bool),
    /// success + forged cleartext responses in the same segment, then real TLS (good cert);
    /// inside TLS the bind is answered with rc 49
    InjectSameSegment(usize),
    /// success, then forged cleartext in a later segment before the handshake
    InjectDelayed,
    /// forged cleartext responses (for the IDs the client will use inside TLS) BEFORE the StartTLS success, in
    /// the same segment: they match nothing when they arrive and must be gone when those IDs come into use
    InjectBeforeSuccess(usize),
}

#[derive(Clone, Debug)]
pub struct Setup {
    pub ldaps: bool,
    pub starttls: bool,
    pub no_verify: bool,
    pub host_is_ip: bool,
    pub behaviour: Behaviour,
    /// order in which the settings builder methods are called (a permutation index 0..6 of
    /// timeout / starttls / no_tls_verify): the result may not depend on it
    pub builder_order: u8,
    /// connect with a clone() of the settings (what a connection pool does)
    pub via_clone: bool,
    /// the URL names no host ("ldaps:///", "ldap:///"): the connection is handed in as a pre-opened TCP
    /// stream and the host to verify the certificate against is the documented default, localhost
    pub no_host_via_stream: bool,
    /// the connection is handed in as a pre-opened TCP stream although the URL names a host: the
    /// certificate is still checked against the URL's host, not against the stream's peer
    pub via_stream: bool,
    /// the URL carries a DN, a query part and a recognised extension other than StartTLS (the same URL
    /// an application hands to get_url_params): none of it may influence whether TLS is used
    pub url_with_query: bool,
    /// only with `no_verify == false`: the builder first switches verification off and later on again
    /// (`set_no_tls_verify(true)` ... `set_no_tls_verify(false)`, as when a shared template is
    /// adjusted); what counts is the last call
    pub verify_toggled: bool,
    /// the settings start from `LdapConnSettings::default()` (the struct derives `Default`; think of a
    /// `#[derive(Default)]` configuration struct embedding it) instead of `new()`: same meaning
    pub via_default: bool,
}

#[derive(Debug, Default, Clone)]
pub struct Tap {
    /// everything received in the clear before the TLS handshake (or ever, if there was none)
    pub clear: Vec<u8>,
    /// requests decoded inside TLS
    pub tls_requests: Vec<String>,
    pub tls_established: bool,
    pub notes: Vec<String>,
}

fn identity(cert: Cert) -> Result<native_tls::Identity, String> {
    let dir = std::env::var("VH_CERTS").unwrap_or_else(|_| "/verif/certs".into());
    let name = match cert {
        Cert::Good => "good",
        Cert::WrongName => "wrongname",
        Cert::Untrusted => "untrusted",
        Cert::SelfSigned => "selfsigned",
        Cert::IpOnly => "iponly",
    };
    let pem = std::fs::read(format!("{}/{}.pem", dir, name)).map_err(|e| e.to_string())?;
    let key = std::fs::read(format!("{}/{}.p8", dir, name)).map_err(|e| e.to_string())?;
    native_tls::Identity::from_pkcs8(&pem, &key).map_err(|e| e.to_string())
}

async fn read_frame<S: AsyncRead + Unpin>(s: &mut S, buf: &mut Vec<u8>) -> Option<Vec<u8>> {
    let mut tmp = [0u8; 4096];
    loop {
        if let Some(t) = ber::outer_complete(buf) {
            return Some(buf.drain(..t).collect());
        }
        match tokio::time::timeout(Duration::from_secs(5), s.read(&mut tmp)).await {
            Ok(Ok(0)) | Ok(Err(_)) | Err(_) => return None,
            Ok(Ok(n)) => buf.extend_from_slice(&tmp[..n]),
        }
    }
}

/// LDAP inside the protected session: every bind is answered with rc 49 and a token.
async fn serve_tls<S: AsyncRead + AsyncWrite + Unpin>(mut s: S, tap: &Arc<Mutex<Tap>>) {
    let mut buf = vec![];
    while let Some(f) = read_frame(&mut s, &mut buf).await {
        if let Ok(m) = decode_request(&f) {
            tap.lock().unwrap().tls_requests.push(m.op.kind().to_string());
            let r = match &m.op {
                Req::Bind { .. } => Some(Resp::Bind { res: Res::code(49, "INSIDE-TLS"), sasl: None }),
                Req::Unbind => return,
                op => crate::msg::reply_for(op, Res::ok("INSIDE-TLS")),
            };
            if let Some(r) = r {
                if s.write_all(&ber::encode_min(&resp_node(m.id, &r, None))).await.is_err() {
                    return;
                }
            }
        }
    }
}

async fn handle(mut s: TcpStream, setup: Setup, tap: Arc<Mutex<Tap>>) {
    let mut buf: Vec<u8> = vec![];
    let cert = match &setup.behaviour {
        Behaviour::Tls(c) => *c,
        _ => Cert::Good,
    };
    if !setup.ldaps {
        // cleartext phase: expect exactly one StartTLS request
        let mut tmp = [0u8; 4096];
        let frame = loop {
            if let Some(t) = ber::outer_complete(&buf) {
                break Some(buf[..t].to_vec());
            }
            match tokio::time::timeout(Duration::from_secs(5), s.read(&mut tmp)).await {
                Ok(Ok(0)) | Ok(Err(_)) | Err(_) => break None,
                Ok(Ok(n)) => {
                    buf.extend_from_slice(&tmp[..n]);
                    tap.lock().unwrap().clear.extend_from_slice(&tmp[..n]);
                }
            }
        };
        let id = match frame.as_ref().and_then(|f| decode_request(f).ok()) {
            Some(m) => m.id,
            None => 1,
        };
        let ext_ok = |rc: u32| ber::encode_min(&resp_node(id, &Resp::Extended { res: Res::code(rc, if rc == 0 { "go ahead" } else { "refused" }), name: Some(String::from_utf8_lossy(STARTTLS_OID).into_owned()), value: None }, None));
        let forged = |n: usize| -> Vec<u8> {
            let mut v = vec![];
            for k in 0..n {
                // forged cleartext answers for the IDs the client will use next
                for id in 2..=3 {
                    v.extend_from_slice(&ber::encode_min(&resp_node(id, &Resp::Bind { res: Res::ok(&format!("FORGED-CLEARTEXT:{}", k)), sasl: None }, None)));
                }
            }
            v
        };
        match &setup.behaviour {
            Behaviour::Refuse(rc) => {
                let _ = s.write_all(&ext_ok(*rc)).await;
                // keep listening: anything the client still sends in the clear is recorded
                drain_clear(&mut s, &tap).await;
                return;
            }
            Behaviour::RefuseThenTls(rc) => {
                let _ = s.write_all(&ext_ok(*rc)).await;
                // falls through to the TLS phase: a client that honours the refusal just closes
            }
            Behaviour::RefuseNamedThenTls(rc, name) => {
                let name = match name {
                    0 => None,
                    1 => Some("1.3.6.1.4.1.1466.20036".to_string()),
                    _ => Some("1.2.840.113556.1.4.9999".to_string()),
                };
                let _ = s.write_all(&ber::encode_min(&resp_node(id, &Resp::Extended { res: Res::code(*rc, "refused"), name, value: None }, None))).await;
                // falls through to the TLS phase
            }
            Behaviour::UnsolicitedSuccessThenRefuseThenTls(rc) => {
                let mut v = ber::encode_min(&resp_node(0, &Resp::Extended { res: Res::ok("notice"), name: Some("1.3.6.1.4.1.99999.7".into()), value: None }, None));
                v.extend_from_slice(&ext_ok(*rc));
                let _ = s.write_all(&v).await;
                // falls through to the TLS phase
            }
            Behaviour::MalformedThenTls(kind) => {
                use crate::ber::{Node, APP};
                let op = match kind {
                    0 => Node::C { class: APP, tag: 24, kids: vec![] },
                    1 => Node::C { class: APP, tag: 24, kids: vec![ber::enumerated(0)] },
                    2 => Node::C { class: APP, tag: 24, kids: vec![ber::integer(0), ber::octets(b""), ber::octets(b"")] },
                    3 => Node::C { class: APP, tag: 25, kids: vec![] },
                    _ => Node::C { class: APP, tag: 24, kids: vec![ber::enumerated(0), ber::octets(b""), ber::octets(&[0x67, 0x6f, 0xff, 0xfe])] },
                };
                let _ = s.write_all(&ber::encode_min(&ber::seq(vec![ber::integer(id), op]))).await;
                // falls through to the TLS phase
            }
            Behaviour::Garbage => {
                let _ = s.write_all(&[0x16, 0x03, 0x01, 0x00, 0x02, 0xff, 0xff]).await;
                drain_clear(&mut s, &tap).await;
                return;
            }
            Behaviour::WrongResponse => {
                let _ = s.write_all(&ber::encode_min(&resp_node(id, &Resp::Modify(Res::ok("not an extended response")), None))).await;
                drain_clear(&mut s, &tap).await;
                return;
            }
            Behaviour::Close => return,
            Behaviour::Silent(_) => {
                let t0 = std::time::Instant::now();
                let mut tmp = [0u8; 4096];
                while t0.elapsed() < Duration::from_millis(1500) {
                    match tokio::time::timeout(Duration::from_millis(1500), s.read(&mut tmp)).await {
                        Ok(Ok(0)) | Ok(Err(_)) | Err(_) => break,
                        Ok(Ok(n)) => tap.lock().unwrap().clear.extend_from_slice(&tmp[..n]),
                    }
                }
                return;
            }
            Behaviour::InjectSameSegment(n) => {
                let mut v = ext_ok(0);
                v.extend_from_slice(&forged(*n));
                let _ = s.write_all(&v).await;
            }
            Behaviour::InjectBeforeSuccess(n) => {
                let mut v = forged(*n);
                v.extend_from_slice(&ext_ok(0));
                let _ = s.write_all(&v).await;
            }
            Behaviour::InjectDelayed => {
                let _ = s.write_all(&ext_ok(0)).await;
                let _ = s.flush().await;
                tokio::time::sleep(Duration::from_millis(30)).await;
                let _ = s.write_all(&forged(4)).await;
            }
            Behaviour::Tls(_) => {
                let _ = s.write_all(&ext_ok(0)).await;
            }
        }
    } else {
        match &setup.behaviour {
            Behaviour::Close => return,
            Behaviour::Garbage => {
                let _ = s.write_all(b"220 not a TLS server\r\n").await;
                drain_clear(&mut s, &tap).await;
                return;
            }
            _ => {}
        }
        // peek at the first bytes: they must be a TLS handshake record
        let mut first = [0u8; 3];
        match tokio::time::timeout(Duration::from_secs(5), s.peek(&mut first)).await {
            Ok(Ok(n)) if n > 0 => tap.lock().unwrap().clear.extend_from_slice(&first[..n]),
            _ => return,
        }
    }
    // TLS phase
    let ident = match identity(cert) {
        Ok(i) => i,
        Err(e) => {
            tap.lock().unwrap().notes.push(format!("identity: {}", e));
            return;
        }
    };
    let acceptor = match native_tls::TlsAcceptor::new(ident) {
        Ok(a) => tokio_native_tls::TlsAcceptor::from(a),
        Err(e) => {
            tap.lock().unwrap().notes.push(format!("acceptor: {}", e));
            return;
        }
    };
    match tokio::time::timeout(Duration::from_secs(5), acceptor.accept(s)).await {
        Ok(Ok(tls)) => {
            tap.lock().unwrap().tls_established = true;
            serve_tls(tls, &tap).await;
        }
        Ok(Err(e)) => tap.lock().unwrap().notes.push(format!("handshake failed: {}", e)),
        Err(_) => tap.lock().unwrap().notes.push("handshake timed out".into()),
    }
}

async fn drain_clear(s: &mut TcpStream, tap: &Arc<Mutex<Tap>>) {
    let mut tmp = [0u8; 4096];
    loop {
        match tokio::time::timeout(Duration::from_millis(400), s.read(&mut tmp)).await {
            Ok(Ok(0)) | Ok(Err(_)) | Err(_) => return,
            Ok(Ok(n)) => tap.lock().unwrap().clear.extend_from_slice(&tmp[..n]),
        }
    }
}

#[derive(Debug, Clone)]
struct Obs {
    establish: String,
    has_tls_flag_ops: Vec<String>,
    /// message IDs reserved right after establishment and after the operations (hook H2)
    reserved_ids: Vec<Vec<i32>>,
}

async fn client(setup: &Setup, port: u16) -> Obs {
    let host = if setup.host_is_ip { "127.0.0.1" } else { "localhost" };
    let mut url = if setup.no_host_via_stream { format!("{}:///", if setup.ldaps { "ldaps" } else { "ldap" }) } else { format!("{}://{}:{}", if setup.ldaps { "ldaps" } else { "ldap" }, host, port) };
    if setup.url_with_query {
        if !url.ends_with('/') {
            url.push('/');
        }
        url.push_str("dc=example,dc=org?cn?sub?(objectClass=*)?bindname=cn=Manager%2Cdc=example%2Cdc=org");
    }
    let mut s = if setup.via_default { LdapConnSettings::default() } else { LdapConnSettings::new() };
    const ORDERS: [[u8; 3]; 6] = [[0, 1, 2], [0, 2, 1], [1, 0, 2], [1, 2, 0], [2, 0, 1], [2, 1, 0]];
    for step in ORDERS[(setup.builder_order % 6) as usize] {
        s = match step {
            0 => s.set_conn_timeout(if setup.behaviour == Behaviour::Silent(false) { Duration::from_millis(400) } else { Duration::from_secs(6) }),
            1 => if setup.starttls { s.set_starttls(true) } else { s },
            _ => if setup.no_verify || setup.verify_toggled { s.set_no_tls_verify(true) } else { s },
        };
    }
    if setup.verify_toggled {
        s = s.set_no_tls_verify(false);
    }
    if setup.no_host_via_stream || setup.via_stream {
        match std::net::TcpStream::connect(("127.0.0.1", port)) {
            Ok(st) => s = s.set_std_stream(ldap3::StdStream::Tcp(st)),
            Err(e) => return Obs { establish: format!("Setup({})", e), has_tls_flag_ops: vec![], reserved_ids: vec![] },
        }
    } else if setup.via_clone {
        // (a pre-opened stream does not survive clone())
        s = s.clone();
    }
    let outer = if setup.behaviour == Behaviour::Silent(true) { Duration::from_millis(400) } else { Duration::from_secs(12) };
    let r = tokio::time::timeout(outer, Caught::new(LdapConnAsync::with_settings(s, &url))).await;
    if let Behaviour::Silent(_) = setup.behaviour {
        // whatever establishment left behind (a detached driver task) gets time to act
        tokio::time::sleep(Duration::from_millis(600)).await;
    }
    let mut o = Obs { establish: String::new(), has_tls_flag_ops: vec![], reserved_ids: vec![] };
    match r {
        Err(_) => o.establish = "Hung".into(),
        Ok(Err(p)) => o.establish = format!("Panic({})", p.site()),
        Ok(Ok(Err(e))) => o.establish = format!("Err({})", err_class(&e)),
        Ok(Ok(Ok((conn, mut ldap)))) => {
            o.establish = "Ok".into();
            ldap3::drive!(conn);
            let mut table = ldap.verif_id_table().1;
            for _ in 0..40 {
                if table.is_empty() {
                    break;
                }
                tokio::time::sleep(Duration::from_millis(50)).await;
                table = ldap.verif_id_table().1;
            }
            o.reserved_ids.push(table);
            // two binds: their message IDs are 2 and 3 (StartTLS used 1) or 1 and 2 (ldaps)
            for _ in 0..2 {
                let r = tokio::time::timeout(Duration::from_secs(5), ldap.simple_bind("cn=x", "secret")).await;
                o.has_tls_flag_ops.push(match r {
                    Ok(Ok(res)) => format!("rc={}:{}", res.rc, res.text),
                    Ok(Err(e)) => format!("Err({})", err_class(&e)),
                    Err(_) => "Hung".into(),
                });
            }
            // real threads, real time: the driver releases an ID right after handing the result to the
            // caller, so "nothing outstanding" is only observable a moment later; wait for the table to
            // settle (up to 2 s) instead of reading it in the same instant
            let mut table = ldap.verif_id_table().1;
            for _ in 0..40 {
                if table.is_empty() {
                    break;
                }
                tokio::time::sleep(Duration::from_millis(50)).await;
                table = ldap.verif_id_table().1;
            }
            o.reserved_ids.push(table);
            let _ = tokio::time::timeout(Duration::from_secs(2), ldap.unbind()).await;
        }
    }
    o
}

fn matrix(rng: &mut Rng, reps: usize) -> Vec<Setup> {
    let mut v = vec![];
    let refusals = [1u32, 2, 3, 4, 5, 6, 7, 8, 10, 11, 12, 13, 14, 32, 48, 49, 50, 52, 53, 80, 88, 122, 123, 4096];
    for _ in 0..reps {
        for &no_verify in &[false, true] {
            for &host_is_ip in &[false, true] {
                // StartTLS
                let mut bs = vec![
                    Behaviour::Tls(Cert::Good),
                    Behaviour::Tls(Cert::WrongName),
                    Behaviour::Tls(Cert::Untrusted),
                    Behaviour::Tls(Cert::SelfSigned),
                    Behaviour::Tls(Cert::IpOnly),
                    Behaviour::Refuse(*rng.pick(&refusals)),
                    Behaviour::Refuse(10),
                    Behaviour::RefuseThenTls(*rng.pick(&refusals)),
                    Behaviour::RefuseThenTls(10),
                    // codes whose low octet is zero (two-octet ENUMERATED): 4096 is e-syncRefreshRequired
                    Behaviour::RefuseThenTls(*rng.pick(&[256u32, 512, 4096, 8192, 65536])),
                    Behaviour::RefuseThenTls(1 + rng.below(123) as u32),
                    Behaviour::UnsolicitedSuccessThenRefuseThenTls(*rng.pick(&[2u32, 52, 53])),
                    Behaviour::RefuseNamedThenTls(*rng.pick(&refusals), 0),
                    Behaviour::RefuseNamedThenTls(*rng.pick(&[2u32, 52, 53, 80]), 1),
                    Behaviour::RefuseNamedThenTls(*rng.pick(&refusals), 2),
                    Behaviour::Garbage,
                    Behaviour::WrongResponse,
                    Behaviour::MalformedThenTls(rng.below(5) as u8),
                    Behaviour::MalformedThenTls(rng.below(5) as u8),
                    Behaviour::Close,
                    Behaviour::Silent(false),
                    Behaviour::Silent(true),
                    Behaviour::InjectSameSegment(1 + rng.usize(64)),
                    Behaviour::InjectSameSegment(64),
                    Behaviour::InjectDelayed,
                    Behaviour::InjectBeforeSuccess(1 + rng.usize(8)),
                ];
                for b in bs.drain(..) {
                    let ip_only = b == Behaviour::Tls(Cert::IpOnly);
                    v.push(Setup { ldaps: false, starttls: true, no_verify, host_is_ip, behaviour: b, builder_order: rng.below(6) as u8, via_clone: rng.chance(1, 3), no_host_via_stream: !host_is_ip && rng.chance(1, 4), via_stream: rng.chance(1, 4), url_with_query: rng.chance(1, 4), verify_toggled: !no_verify && rng.chance(1, 3), via_default: rng.chance(1, 3) });
                    if ip_only {
                        // both ways of opening the connection for the certificate that is valid for the peer's address only
                        let mut other = v.last().unwrap().clone();
                        other.via_stream = !other.via_stream;
                        other.no_host_via_stream = false;
                        v.push(other);
                    }
                }
                // ldaps (with and without the StartTLS flag, which ldaps must ignore)
                for &st in &[false, true] {
                    for b in [Behaviour::Tls(Cert::Good), Behaviour::Tls(Cert::WrongName), Behaviour::Tls(Cert::Untrusted), Behaviour::Tls(Cert::SelfSigned), Behaviour::Tls(Cert::IpOnly), Behaviour::Close, Behaviour::Garbage] {
                        let ip_only = b == Behaviour::Tls(Cert::IpOnly);
                        v.push(Setup { ldaps: true, starttls: st, no_verify, host_is_ip, behaviour: b, builder_order: rng.below(6) as u8, via_clone: rng.chance(1, 3), no_host_via_stream: !host_is_ip && rng.chance(1, 4), via_stream: rng.chance(1, 4), url_with_query: rng.chance(1, 4), verify_toggled: !no_verify && rng.chance(1, 3), via_default: rng.chance(1, 3) });
                        if ip_only {
                            let mut other = v.last().unwrap().clone();
                            other.via_stream = !other.via_stream;
                            other.no_host_via_stream = false;
                            v.push(other);
                        }
                    }
                }
            }
        }
    }
    v
}

fn judge(setup: &Setup, obs: &Obs, tap: &Tap, rep: &mut Report) {
    let mode = if setup.ldaps { "ldaps" } else { "starttls" };
    let replay = json!({"lane":"matrix","setup":format!("{:?}", setup)});
    let desc = format!("{:?} -> establish {} ops {:?}; cleartext bytes seen by the server: {} ({}); TLS established {}; TLS requests {:?}; notes {:?}", setup, obs.establish, obs.has_tls_flag_ops, tap.clear.len(), ber::hex(&tap.clear[..tap.clear.len().min(48)]), tap.tls_established, tap.tls_requests, tap.notes);
    if obs.establish.starts_with("Panic") {
        rep.violation(format!("C17:panic-during-establishment:{}", mode), desc.clone(), replay.clone());
        return;
    }
    if !tap.notes.iter().all(|n| n.starts_with("handshake")) {
        rep.inconclusive(format!("server-side problem: {:?}", tap.notes));
        return;
    }
    // ---- cleartext discipline ----
    if setup.ldaps {
        if !tap.clear.is_empty() && tap.clear[0] != 0x16 {
            rep.violation("C17:ldaps:first-bytes-are-not-a-TLS-handshake-record", desc.clone(), replay.clone());
        }
    } else {
        // exactly one StartTLS ExtendedRequest, nothing else, ever
        match ber::outer_complete(&tap.clear) {
            None => {
                if !tap.clear.is_empty() {
                    rep.violation("C17:starttls:cleartext-is-not-a-starttls-request", desc.clone(), replay.clone());
                }
            }
            Some(t) => {
                match decode_request(&tap.clear[..t]) {
                    Ok(m) => match &m.op {
                        Req::Extended { name, val: None } if name == STARTTLS_OID => {}
                        other => rep.violation("C17:starttls:cleartext-ldap-message-other-than-starttls", format!("{:?}: {}", other.kind(), desc), replay.clone()),
                    },
                    Err(e) => rep.violation("C17:starttls:cleartext-is-not-a-starttls-request", format!("{}: {}", e, desc), replay.clone()),
                }
                let rest = &tap.clear[t..];
                // after a refusal / garbage / wrong response nothing more may be sent in the clear;
                // after success only TLS records may follow (the tap stops recording at the handshake)
                if !rest.is_empty() {
                    if ber::outer_complete(rest).and_then(|t2| decode_request(&rest[..t2]).ok()).is_some() {
                        rep.violation("C17:starttls:ldap-message-sent-in-cleartext-after-the-starttls-exchange", desc.clone(), replay.clone());
                    } else if rest[0] != 0x16 {
                        rep.count("non_tls_non_ldap_cleartext_after_starttls", 1);
                    }
                }
            }
        }
    }
    // the URL's host (localhost when the URL names none) is what the certificate must be valid for,
    // however the connection was opened
    let url_host_is_ip = setup.host_is_ip && !setup.no_host_via_stream;
    let trusted_for_host = |c: Cert| match c {
        Cert::Good => true,
        Cert::IpOnly => url_host_is_ip,
        _ => false,
    };
    // ---- establishment outcome ----
    let must_fail = match &setup.behaviour {
        Behaviour::Refuse(_) | Behaviour::RefuseThenTls(_) | Behaviour::RefuseNamedThenTls(..) | Behaviour::UnsolicitedSuccessThenRefuseThenTls(_) | Behaviour::Garbage | Behaviour::WrongResponse | Behaviour::MalformedThenTls(_) | Behaviour::Close | Behaviour::Silent(_) => true,
        Behaviour::Tls(c) => !trusted_for_host(*c) && !setup.no_verify,
        Behaviour::InjectSameSegment(_) | Behaviour::InjectDelayed | Behaviour::InjectBeforeSuccess(_) => false,
    };
    let must_succeed = matches!(&setup.behaviour, Behaviour::Tls(c) if trusted_for_host(*c) || setup.no_verify);
    let bk = match &setup.behaviour {
        Behaviour::Tls(Cert::Good) => "trusted-certificate".to_string(),
        Behaviour::Tls(Cert::WrongName) => "wrong-name-certificate".into(),
        Behaviour::Tls(Cert::Untrusted) => "untrusted-ca-certificate".into(),
        Behaviour::Tls(Cert::SelfSigned) => "self-signed-certificate".into(),
        Behaviour::Tls(Cert::IpOnly) => if url_host_is_ip { "ip-only-certificate-for-an-ip-url".into() } else { "ip-only-certificate-for-a-host-name".into() },
        Behaviour::Refuse(_) => "starttls-refused".into(),
        Behaviour::RefuseThenTls(rc) => if *rc == 10 { "starttls-refused-with-referral-code-but-server-handshakes".into() } else { "starttls-refused-but-server-handshakes".into() },
        Behaviour::RefuseNamedThenTls(_, 0) => "starttls-refused-without-a-response-name-but-server-handshakes".into(),
        Behaviour::RefuseNamedThenTls(..) => "starttls-refused-under-another-response-name-but-server-handshakes".into(),
        Behaviour::UnsolicitedSuccessThenRefuseThenTls(_) => "starttls-refused-behind-an-unsolicited-success-notice-but-server-handshakes".into(),
        Behaviour::Garbage => "garbage-response".into(),
        Behaviour::WrongResponse => "non-extended-response".into(),
        Behaviour::MalformedThenTls(_) => "undecodable-starttls-result-but-server-handshakes".into(),
        Behaviour::Close => "server-closes".into(),
        Behaviour::Silent(false) => "server-silent-until-the-connection-timeout".into(),
        Behaviour::Silent(true) => "server-silent-until-the-caller-gives-up".into(),
        Behaviour::InjectSameSegment(_) => "cleartext-injected-with-the-starttls-response".into(),
        Behaviour::InjectDelayed => "cleartext-injected-before-the-handshake".into(),
        Behaviour::InjectBeforeSuccess(_) => "cleartext-injected-ahead-of-the-starttls-response".into(),
    };
    if must_fail && obs.establish == "Ok" {
        rep.violation(format!("C17:{}:usable-handle-returned-although:{}{}", mode, bk, if setup.no_verify { "" } else { ":verification-on" }), desc.clone(), replay.clone());
    }
    if must_succeed && obs.establish != "Ok" {
        if obs.establish == "Hung" {
            rep.inconclusive(format!("establishment timed out on a healthy path: {}", desc));
        } else {
            rep.violation(format!("C17:{}:valid-establishment-fails:{}", mode, bk), desc.clone(), replay.clone());
        }
    }
    // ---- inside the session ----
    if obs.establish == "Ok" {
        if !tap.tls_established {
            rep.violation(format!("C17:{}:handle-returned-without-a-completed-TLS-handshake:{}", mode, bk), desc.clone(), replay.clone());
        }
        for o in &obs.has_tls_flag_ops {
            if o.contains("FORGED-CLEARTEXT") {
                rep.violation("C17:starttls:injected-cleartext-interpreted-as-a-response-inside-the-protected-session", desc.clone(), replay.clone());
            } else if o.starts_with("rc=") && !o.contains("INSIDE-TLS") {
                rep.violation(format!("C17:{}:result-did-not-come-through-the-TLS-session", mode), desc.clone(), replay.clone());
            }
        }
        if tap.tls_established && tap.tls_requests.iter().filter(|k| *k == "bind").count() != obs.has_tls_flag_ops.iter().filter(|o| o.starts_with("rc=")).count() {
            rep.count("answered_binds_differ_from_binds_seen_inside_tls", 1);
        }
        rep.count("established", 1);
    } else {
        rep.count("refused_or_failed", 1);
    }
    rep.count(&format!("behaviour_{}", bk), 1);
    rep.case(Some(fnv(format!("{:?}", setup).as_bytes())));
}

/// For C13: message IDs still reserved on a connection established with StartTLS (whose setup runs one
/// operation through the driver's single-operation mode) and with ldaps, right after establishment and
/// after two completed binds. Returns (mode, outcome, tables).
pub fn reserved_ids_probe() -> Vec<(String, String, Vec<Vec<i32>>)> {
    let rt = tokio::runtime::Builder::new_multi_thread().worker_threads(2).enable_all().build().expect("rt");
    let out = rt.block_on(async {
        let mut out = vec![];
        for ldaps in [false, true] {
            let setup = Setup { ldaps, starttls: !ldaps, no_verify: false, host_is_ip: false, behaviour: Behaviour::Tls(Cert::Good), builder_order: 0, via_clone: false, no_host_via_stream: false, via_stream: false, url_with_query: false, verify_toggled: false, via_default: false };
            let mode = if ldaps { "ldaps".to_string() } else { "ldap + StartTLS".to_string() };
            let l = match TcpListener::bind("127.0.0.1:0").await {
                Ok(l) => l,
                Err(e) => {
                    out.push((mode, format!("Setup({})", e), vec![]));
                    continue;
                }
            };
            let port = l.local_addr().unwrap().port();
            let tap = Arc::new(Mutex::new(Tap::default()));
            let (tap2, s2) = (tap.clone(), setup.clone());
            let srv = tokio::spawn(async move {
                if let Ok(Ok((s, _))) = tokio::time::timeout(Duration::from_secs(10), l.accept()).await {
                    handle(s, s2, tap2).await;
                }
            });
            let obs = client(&setup, port).await;
            let _ = tokio::time::timeout(Duration::from_secs(8), srv).await;
            out.push((mode, obs.establish.clone(), obs.reserved_ids.clone()));
        }
        out
    });
    rt.shutdown_background();
    out
}

/// For C18 ("a missing host meaning localhost"): TLS establishment through `ldaps:///` and through
/// `ldap:///` + StartTLS against a server whose trusted certificate is issued to localhost.
/// Returns (mode, outcome of establishment).
pub fn missing_host_probe() -> Vec<(String, String)> {
    let rt = tokio::runtime::Builder::new_multi_thread().worker_threads(2).enable_all().build().expect("rt");
    let out = rt.block_on(async {
        let mut out = vec![];
        for ldaps in [true, false] {
            let setup = Setup { ldaps, starttls: !ldaps, no_verify: false, host_is_ip: false, behaviour: Behaviour::Tls(Cert::Good), builder_order: 0, via_clone: false, no_host_via_stream: true, via_stream: false, url_with_query: false, verify_toggled: false, via_default: false };
            let l = match TcpListener::bind("127.0.0.1:0").await {
                Ok(l) => l,
                Err(e) => {
                    out.push((if ldaps { "ldaps:///".to_string() } else { "ldap:/// + StartTLS".to_string() }, format!("Setup({})", e)));
                    continue;
                }
            };
            let port = l.local_addr().unwrap().port();
            let tap = Arc::new(Mutex::new(Tap::default()));
            let (tap2, s2) = (tap.clone(), setup.clone());
            let srv = tokio::spawn(async move {
                if let Ok(Ok((s, _))) = tokio::time::timeout(Duration::from_secs(10), l.accept()).await {
                    handle(s, s2, tap2).await;
                }
            });
            let obs = client(&setup, port).await;
            let _ = tokio::time::timeout(Duration::from_secs(8), srv).await;
            let notes = tap.lock().unwrap().notes.clone();
            let outcome = if notes.is_empty() { obs.establish } else { format!("Setup({:?})", notes) };
            out.push((if ldaps { "ldaps:///".to_string() } else { "ldap:/// + StartTLS".to_string() }, outcome));
        }
        out
    });
    rt.shutdown_background();
    out
}

pub fn matrix_lane(ctx: &Ctx) -> Report {
    let mut rep = Report::new();
    if std::env::var("SSL_CERT_FILE").is_err() {
        rep.harness_error("SSL_CERT_FILE is not set: the test CA would not be trusted (run through ./check)");
        return rep;
    }
    let mut rng = Rng::new(ctx.seed ^ 0xc17);
    let reps = if ctx.tiny { 1 } else { ctx.n(3, 60) as usize };
    let mut setups = matrix(&mut rng, reps);
    // the first TLS connection of the process differs from run to run (process-wide state such as a
    // memoised connector would otherwise always be initialised by the same cell)
    rng.shuffle(&mut setups);
    if ctx.tiny {
        setups.truncate(24);
    }
    let rt = tokio::runtime::Builder::new_multi_thread().worker_threads(4).enable_all().build().expect("rt");
    let results: Vec<(Setup, Obs, Tap)> = rt.block_on(async {
        let mut out = vec![];
        // a few connections at a time
        let sem = Arc::new(tokio::sync::Semaphore::new(8));
        let mut handles = vec![];
        for setup in setups {
            let permit = sem.clone().acquire_owned().await.unwrap();
            handles.push(tokio::spawn(async move {
                let l = TcpListener::bind("127.0.0.1:0").await.expect("listener");
                let port = l.local_addr().unwrap().port();
                let tap = Arc::new(Mutex::new(Tap::default()));
                let tap2 = tap.clone();
                let s2 = setup.clone();
                let srv = tokio::spawn(async move {
                    if let Ok(Ok((s, _))) = tokio::time::timeout(Duration::from_secs(10), l.accept()).await {
                        handle(s, s2, tap2).await;
                    }
                });
                let obs = client(&setup, port).await;
                let _ = tokio::time::timeout(Duration::from_secs(8), srv).await;
                drop(permit);
                let t = tap.lock().unwrap().clone();
                (setup, obs, t)
            }));
        }
        for h in handles {
            if let Ok(r) = h.await {
                out.push(r);
            }
        }
        out
    });
    // TLS was requested but the caller hands in a pre-opened Unix stream (over which the library
    // speaks cleartext): establishment has to fail and nothing may be written to the stream
    let unix_results: Vec<(String, String, Vec<u8>)> = rt.block_on(async {
        use std::io::Read;
        let mut out = vec![];
        for (url, starttls) in [("ldaps://localhost", false), ("ldap://localhost", true), ("ldaps://localhost", true), ("ldaps:///", false)] {
            let (a, mut b) = match std::os::unix::net::UnixStream::pair() {
                Ok(p) => p,
                Err(e) => {
                    out.push((format!("{} starttls={}", url, starttls), format!("Setup({})", e), vec![]));
                    continue;
                }
            };
            let mut s = LdapConnSettings::new().set_conn_timeout(Duration::from_secs(3)).set_std_stream(ldap3::StdStream::Unix(a));
            if starttls {
                s = s.set_starttls(true);
            }
            let r = tokio::time::timeout(Duration::from_secs(8), Caught::new(LdapConnAsync::with_settings(s, url))).await;
            let outcome = match r {
                Err(_) => "Hung".to_string(),
                Ok(Err(p)) => format!("Panic({})", p.site()),
                Ok(Ok(Err(e))) => format!("Err({})", err_class(&e)),
                Ok(Ok(Ok((conn, mut ldap)))) => {
                    ldap3::drive!(conn);
                    let _ = tokio::time::timeout(Duration::from_millis(500), ldap.simple_bind("cn=x", "secret-over-unix")).await;
                    "Ok".to_string()
                }
            };
            let _ = b.set_nonblocking(true);
            let mut seen = vec![];
            let mut tmp = [0u8; 4096];
            while let Ok(n) = b.read(&mut tmp) {
                if n == 0 {
                    break;
                }
                seen.extend_from_slice(&tmp[..n]);
            }
            out.push((format!("{} starttls={}", url, starttls), outcome, seen));
        }
        out
    });
    for (what, outcome, seen) in &unix_results {
        let replay = json!({"lane":"matrix","case":"pre-opened-unix-stream","what":what});
        if outcome.starts_with("Setup(") || outcome == "Hung" {
            rep.inconclusive(format!("pre-opened Unix stream, {}: {}", what, outcome));
            continue;
        }
        if outcome == "Ok" {
            rep.violation("C17:pre-opened-unix-stream:usable-cleartext-handle-returned-although-tls-was-requested", format!("{}: establishment returned a handle; bytes seen on the stream: {}", what, ber::hex(&seen[..seen.len().min(60)])), replay.clone());
        }
        if !seen.is_empty() && seen[0] != 0x16 {
            rep.violation("C17:pre-opened-unix-stream:cleartext-bytes-written-although-tls-was-requested", format!("{} ({}): {}", what, outcome, ber::hex(&seen[..seen.len().min(60)])), replay.clone());
        }
        rep.count("pre_opened_unix_stream_cases", 1);
        rep.case(Some(fnv(what.as_bytes())));
    }
    rt.shutdown_background();
    for (setup, obs, tap) in &results {
        judge(setup, obs, tap, &mut rep);
        if rep.samples.len() < 4 {
            rep.sample(json!({"lane":"matrix","setup":format!("{:?}", setup),"establish":obs.establish,"ops":obs.has_tls_flag_ops,"cleartext_seen_hex":ber::hex(&tap.clear[..tap.clear.len().min(40)]),"tls_established":tap.tls_established}));
        }
    }
    rep
}

pub fn replay(ctx: &Ctx, _v: &serde_json::Value) -> Report {
    matrix_lane(ctx)
}
