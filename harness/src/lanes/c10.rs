//! C10 — search streams deliver the server's items in order and obey the state machine.
use crate::ber;
use crate::gen;
use crate::lanes::c03::{expect_ctrls, expect_res, expected_outcome, plan_response};
use crate::msg::{resp_node, Req, Res, Resp, RespCtl};
use crate::pipe::Chunking;
use crate::prng::{fnv, Rng};
use crate::report::{case_rng, par_cases, Ctx, Report};
use crate::world::{self, connect, invoke, item_out, res_out, runtime, Call, Caught, ItemOut, Outcome, ResOut};
use async_trait::async_trait;
use ldap3::adapters::{Adapter, EntriesOnly, SoloMarker};
use ldap3::result::{LdapResult, Result as LResult};
use ldap3::{ResultEntry, Scope, SearchStream, StreamState};
use serde_json::{json, Value};

/// A user-defined adapter that only forwards (what the docs say every adapter must do).
#[derive(Clone, Debug)]
pub struct PassThrough;
impl SoloMarker for PassThrough {}

#[async_trait]
impl<'a, S, A> Adapter<'a, S, A> for PassThrough
where
    S: AsRef<str> + Send + Sync + 'a,
    A: AsRef<[S]> + Send + Sync + 'a,
{
    async fn start(&mut self, stream: &mut SearchStream<'a, S, A>, base: &str, scope: Scope, filter: &str, attrs: A) -> LResult<()> {
        stream.start(base, scope, filter, attrs).await
    }
    async fn next(&mut self, stream: &mut SearchStream<'a, S, A>) -> LResult<Option<ResultEntry>> {
        stream.next().await
    }
    async fn finish(&mut self, stream: &mut SearchStream<'a, S, A>) -> LdapResult {
        stream.finish().await
    }
}

/// A user-defined adapter that forwards `left` calls of next() and then fails on its own account
/// (the stream below it is fine): the stream must end up in the Error state all the same.
#[derive(Clone, Debug)]
pub struct FailAfter {
    pub left: usize,
}
impl SoloMarker for FailAfter {}

#[async_trait]
impl<'a, S, A> Adapter<'a, S, A> for FailAfter
where
    S: AsRef<str> + Send + Sync + 'a,
    A: AsRef<[S]> + Send + Sync + 'a,
{
    async fn start(&mut self, stream: &mut SearchStream<'a, S, A>, base: &str, scope: Scope, filter: &str, attrs: A) -> LResult<()> {
        stream.start(base, scope, filter, attrs).await
    }
    async fn next(&mut self, stream: &mut SearchStream<'a, S, A>) -> LResult<Option<ResultEntry>> {
        if self.left == 0 {
            return Err(ldap3::LdapError::AdapterInit("adapter gave up on its own".into()));
        }
        self.left -= 1;
        stream.next().await
    }
    async fn finish(&mut self, stream: &mut SearchStream<'a, S, A>) -> LdapResult {
        stream.finish().await
    }
}

#[derive(Clone, Copy, Debug, PartialEq, Eq)]
pub enum Ad {
    Pass,
    EntriesOnly,
    /// outermost only
    FailAfter(usize),
}

#[derive(Clone, Copy, Debug, PartialEq, Eq)]
enum St {
    Active,
    Done,
    Closed,
    Error,
}

fn st_of(s: StreamState) -> &'static str {
    match s {
        StreamState::Fresh => "Fresh",
        StreamState::Active => "Active",
        StreamState::Done => "Done",
        StreamState::Closed => "Closed",
        StreamState::Error => "Error",
    }
}
fn st_name(s: St) -> &'static str {
    match s {
        St::Active => "Active",
        St::Done => "Done",
        St::Closed => "Closed",
        St::Error => "Error",
    }
}

#[derive(Clone, Copy, Debug, PartialEq, Eq)]
enum CallK {
    Next,
    Finish,
    State,
}

/// Reference model of a stream over a raw message plan.
struct Model {
    raw: Vec<(Resp, Option<Vec<RespCtl>>)>,
    /// connection closes after this many raw messages (before Done) if Some
    fault_after: Option<usize>,
    entries_only: bool,
    pos: usize,
    state: St,
    res: Option<ResOut>,
    collected_refs: Vec<String>,
    /// the outermost adapter fails on its own at its (n+1)-th next() call
    adapter_fails_at: Option<usize>,
    adapter_calls: usize,
}

#[derive(Clone, Debug, PartialEq)]
enum Ret {
    Item(ItemOut),
    None,
    Err,
    Finish(ResOut),
    FinishCancelled,
    FinishAlready,
    State(&'static str),
}

impl Model {
    fn next(&mut self) -> Ret {
        if self.state != St::Active {
            return Ret::None;
        }
        if self.adapter_fails_at == Some(self.adapter_calls) {
            self.state = St::Error;
            return Ret::Err;
        }
        self.adapter_calls += 1;
        loop {
            if let Some(f) = self.fault_after {
                if self.pos >= f {
                    self.state = St::Error;
                    return Ret::Err;
                }
            }
            let (m, c) = self.raw[self.pos].clone();
            self.pos += 1;
            match &m {
                Resp::Done(r) => {
                    self.res = Some(expect_res(r, &c));
                    self.state = St::Done;
                    return Ret::None;
                }
                Resp::Entry { .. } => return Ret::Item(ItemOut { node: m.op_node(), ctrls: expect_ctrls(&c), is_ref: false, is_intermediate: false }),
                Resp::Reference(u) => {
                    if self.entries_only {
                        self.collected_refs.extend(u.iter().cloned());
                        continue;
                    }
                    return Ret::Item(ItemOut { node: m.op_node(), ctrls: expect_ctrls(&c), is_ref: true, is_intermediate: false });
                }
                _ => {
                    if self.entries_only {
                        continue;
                    }
                    return Ret::Item(ItemOut { node: m.op_node(), ctrls: expect_ctrls(&c), is_ref: false, is_intermediate: true });
                }
            }
        }
    }
    fn finish(&mut self) -> Ret {
        if self.state == St::Closed {
            return Ret::FinishAlready;
        }
        let was_done = self.state == St::Done;
        self.state = St::Closed;
        if was_done {
            let mut r = self.res.take().unwrap();
            r.refs.extend(self.collected_refs.drain(..));
            Ret::Finish(r)
        } else {
            Ret::FinishCancelled
        }
    }
}

fn gen_raw(rng: &mut Rng, id: i64) -> Vec<(Resp, Option<Vec<RespCtl>>)> {
    let n = match rng.below(5) {
        0 => 0,
        1 => 1,
        _ => rng.usize(31),
    };
    let mut v = vec![];
    for k in 0..n {
        let m = match rng.below(6) {
            0 => Resp::Reference((0..1 + rng.usize(3)).map(|j| format!("ldap://ref{}/{}.{}", j, id, k)).collect()),
            1 => Resp::Intermediate { name: if rng.bool() { Some("1.3.6.1.4.1.4203.1.9.1.4".into()) } else { None }, value: if rng.bool() { Some(format!("i:{}:{}", id, k).into_bytes()) } else { None } },
            _ => Resp::Entry { dn: format!("e={}.{},dc=x", id, k).into_bytes(), attrs: (0..rng.usize(3)).map(|a| (format!("a{}", a).into_bytes(), (0..rng.usize(3)).map(|_| gen::gen_bytes(rng, false)).collect())).collect() },
        };
        v.push((m, gen::gen_resp_controls(rng)));
    }
    let rc = match rng.below(4) {
        0 => 0,
        1 => rng.below(124) as u32,
        2 => *rng.pick(&[3u32, 4, 10, 11, 32, 80, 88, 123]),
        _ => 0,
    };
    let mut res = gen::gen_res(rng, &format!("t:{}:", id));
    res.rc = rc;
    v.push((Resp::Done(res), gen::gen_resp_controls(rng)));
    v
}

fn run_case(i: u64, rng: &mut Rng, rep: &mut Report, verbose: bool) {
    let chain: Vec<Ad> = match rng.below(8) {
        0 | 1 | 2 => vec![],
        3 => vec![Ad::EntriesOnly],
        4 => vec![Ad::Pass],
        5 => vec![Ad::Pass, Ad::EntriesOnly],
        6 => vec![Ad::EntriesOnly, Ad::Pass],
        _ => (0..1 + rng.usize(3)).map(|_| if rng.chance(1, 3) { Ad::EntriesOnly } else { Ad::Pass }).collect(),
    };
    let mut chain = chain;
    let raw = gen_raw(rng, 1);
    let adapter_fails_at = if rng.chance(1, 8) { Some(rng.usize(raw.len() + 2)) } else { None };
    if let Some(k) = adapter_fails_at {
        chain.insert(0, Ad::FailAfter(k));
    }
    let entries_only = chain.contains(&Ad::EntriesOnly);
    let fault_after = if rng.chance(1, 6) { Some(rng.usize(raw.len())) } else { None };
    // direct streams: the server holds back everything from message `p` on; the client's next() that
    // waits for message `p` is given up (its future is dropped, as by a timeout or select! around
    // it), then the rest is sent.  Nothing may be lost: the call is repeated and the model is unchanged.
    let pause_at: Option<usize> = if chain.is_empty() && rng.chance(1, 3) {
        let p = rng.usize(raw.len());
        if fault_after.map(|f| p < f).unwrap_or(true) { Some(p) } else { None }
    } else {
        None
    };
    // client call script
    let mut calls: Vec<CallK> = vec![];
    let style = rng.below(4);
    let ncalls = raw.len() + 6 + rng.usize(6);
    let early_finish_at = if style == 1 { Some(rng.usize(raw.len() + 1)) } else { None };
    let mut nexts = 0;
    for _ in 0..ncalls {
        if let Some(e) = early_finish_at {
            if nexts == e {
                calls.push(CallK::Finish);
                nexts += 1_000_000; // only once
                continue;
            }
        }
        let c = match style {
            0 | 1 => {
                if rng.chance(1, 6) { CallK::State } else { nexts += 1; CallK::Next }
            }
            _ => match rng.below(8) {
                0 => CallK::Finish,
                1 | 2 => CallK::State,
                _ => { nexts += 1; CallK::Next }
            },
        };
        calls.push(c);
    }
    calls.push(CallK::State);
    calls.push(CallK::Finish);
    calls.push(CallK::State);
    calls.push(CallK::Finish);
    calls.push(CallK::Next);
    calls.push(CallK::State);

    let chunk = *rng.pick(&[Chunking::Whole, Chunking::Random, Chunking::Bytewise]);
    let mut srng = rng.fork();
    let rt = runtime(rng.next());
    let raw2 = raw.clone();
    let calls2 = calls.clone();
    let chain2 = chain.clone();
    let (rets, start_state, drv, cancelled) = rt.block_on(async move {
        let c = connect();
        let mut ldap = c.ldap;
        let mut server = c.server;
        let resume = std::sync::Arc::new(tokio::sync::Notify::new());
        let resume2 = resume.clone();
        let srv = tokio::spawn(async move {
            if let Some(w) = server.request().await {
                if let Ok(m) = w.msg {
                    let upto = fault_after.unwrap_or(raw2.len());
                    let mut from = 0;
                    if let Some(p) = pause_at {
                        let mut bytes = vec![];
                        for (r, cs) in &raw2[..p] {
                            bytes.extend_from_slice(&ber::encode_min(&resp_node(m.id, r, cs.as_deref())));
                        }
                        server.send_chunked(&bytes, chunk, &mut srng);
                        resume2.notified().await;
                        from = p;
                    }
                    let mut bytes = vec![];
                    for (r, cs) in &raw2[from..upto] {
                        bytes.extend_from_slice(&ber::encode_min(&resp_node(m.id, r, cs.as_deref())));
                    }
                    server.send_chunked(&bytes, chunk, &mut srng);
                    if fault_after.is_some() {
                        server.eof();
                    }
                }
            }
            server.wait_closed().await;
        });
        let adapters: Vec<Box<dyn Adapter<'static, String, Vec<String>>>> = chain2
            .iter()
            .map(|a| -> Box<dyn Adapter<'static, String, Vec<String>>> {
                match a {
                    Ad::Pass => Box::new(PassThrough),
                    Ad::EntriesOnly => Box::new(EntriesOnly::new()),
                    Ad::FailAfter(k) => Box::new(FailAfter { left: *k }),
                }
            })
            .collect();
        let mut rets: Vec<Ret> = vec![];
        let st = ldap.streaming_search_with(adapters, "op=1,dc=x", Scope::Subtree, "(objectClass=*)", vec!["*".to_string()]).await;
        let mut st = match st {
            Ok(s) => s,
            Err(e) => {
                drop(ldap);
                let _ = srv.await;
                resume.notify_one();
                return (vec![], format!("start failed: {}", e), c.driver.await, 0u64);
            }
        };
        let start_state = st_of(st.state()).to_string();
        let mut next_calls = 0usize;
        let mut cancelled = 0u64;
        let mut resumed = false;
        for ck in &calls2 {
            if let (CallK::Next, Some(p)) = (ck, pause_at) {
                if !resumed && next_calls == p && matches!(st.state(), StreamState::Active) {
                    match tokio::time::timeout(std::time::Duration::from_millis(50), Caught::new(st.next())).await {
                        Err(_) => cancelled += 1,
                        Ok(_) => {
                            rets.push(Ret::State("CANCEL-PROBE-RETURNED"));
                            break;
                        }
                    }
                    resumed = true;
                    resume.notify_one();
                }
            }
            if let CallK::Next = ck {
                next_calls += 1;
            }
            let r = match ck {
                CallK::State => Ret::State(st_of(st.state())),
                CallK::Next => match world::watchdog(Caught::new(st.next())).await {
                    Ok(Ok(Ok(Some(e)))) => Ret::Item(item_out(&e)),
                    Ok(Ok(Ok(None))) => Ret::None,
                    Ok(Ok(Err(_))) => Ret::Err,
                    Ok(Err(p)) => {
                        rets.push(Ret::State("PANIC"));
                        rets.push(Ret::State(Box::leak(p.site().into_boxed_str())));
                        break;
                    }
                    Err(()) => {
                        rets.push(Ret::State("HUNG"));
                        break;
                    }
                },
                CallK::Finish => match world::watchdog(Caught::new(st.finish())).await {
                    Ok(Ok(r)) => {
                        if r.rc == 80 && r.text == "stream already finalized" {
                            Ret::FinishAlready
                        } else if r.rc == 88 && r.text == "user cancelled" {
                            Ret::FinishCancelled
                        } else {
                            Ret::Finish(res_out(&r))
                        }
                    }
                    Ok(Err(p)) => {
                        rets.push(Ret::State("PANIC"));
                        rets.push(Ret::State(Box::leak(p.site().into_boxed_str())));
                        break;
                    }
                    Err(()) => {
                        rets.push(Ret::State("HUNG"));
                        break;
                    }
                },
            };
            rets.push(r);
        }
        if !resumed {
            resume.notify_one();
        }
        drop(st);
        drop(ldap);
        let _ = srv.await;
        (rets, start_state, c.driver.await, cancelled)
    });
    rep.count("pending_next_calls_given_up_and_repeated", cancelled);
    let replay = json!({"lane":"streams","case":i});
    let kind = if chain.is_empty() { "direct".to_string() } else { format!("adapted[{}]", chain.iter().map(|a| match a { Ad::Pass => "P", Ad::EntriesOnly => "E", Ad::FailAfter(_) => "F" }).collect::<String>()) };
    let kind_sig = if chain.is_empty() { "direct" } else if entries_only { "adapted-entries-only" } else { "adapted-pass-through" };
    if start_state != "Active" {
        rep.violation(format!("C10:{}:state-after-start={}", kind_sig, start_state), format!("{}", kind), replay.clone());
        rep.case(None);
        return;
    }
    let mut model = Model { raw: raw.clone(), fault_after, entries_only, pos: 0, state: St::Active, res: None, collected_refs: vec![], adapter_fails_at, adapter_calls: 0 };
    let mut history: Vec<String> = vec![];
    let mut ri = 0;
    for ck in &calls {
        if ri >= rets.len() {
            break;
        }
        let got = &rets[ri];
        ri += 1;
        if let Ret::State("PANIC") = got {
            let site = match rets.get(ri) {
                Some(Ret::State(s)) => s.to_string(),
                _ => "?".into(),
            };
            let phase = match model.state { St::Active => "while-active", St::Done => "after-end", St::Closed => "after-finish", St::Error => "after-error" };
            rep.violation(format!("C10:{}:{}-panics:{}@{}", kind_sig, format!("{:?}", ck).to_lowercase(), phase, site), format!("history {:?}", history), replay.clone());
            break;
        }
        if let Ret::State("CANCEL-PROBE-RETURNED") = got {
            rep.violation(format!("C10:{}:next-returned-although-the-server-had-not-sent-the-next-message", kind_sig), format!("history {:?}; the server was holding back message {:?}", history, pause_at), replay.clone());
            break;
        }
        if let Ret::State("HUNG") = got {
            rep.violation(format!("C10:{}:{}-hangs", kind_sig, format!("{:?}", ck).to_lowercase()), format!("history {:?}", history), replay.clone());
            break;
        }
        let before = model.state;
        let want = match ck {
            CallK::Next => model.next(),
            CallK::Finish => model.finish(),
            CallK::State => Ret::State(st_name(model.state)),
        };
        if &want != got {
            let sig = match (ck, &want, got) {
                (CallK::State, Ret::State(w), Ret::State(g)) => {
                    let phase = match before { St::Done => "after-end", St::Closed => "after-finish", St::Error => "after-error", St::Active => "while-active" };
                    format!("C10:{}:state-{}={}-expected-{}", kind_sig, phase, g, w)
                }
                (CallK::Next, Ret::Item(_), Ret::Item(_)) => format!("C10:{}:item-differs-or-out-of-order", kind_sig),
                (CallK::Next, Ret::Item(_), _) => format!("C10:{}:item-missing", kind_sig),
                (CallK::Next, Ret::None, Ret::Item(_)) => format!("C10:{}:extra-item", kind_sig),
                (CallK::Next, Ret::None, Ret::Err) => format!("C10:{}:next-outside-active-returns-error", kind_sig),
                (CallK::Next, Ret::Err, _) => format!("C10:{}:failure-not-reported-by-next", kind_sig),
                (CallK::Finish, Ret::Finish(_), Ret::Finish(_)) => format!("C10:{}:final-result-differs", kind_sig),
                (CallK::Finish, Ret::Finish(_), Ret::FinishCancelled) => format!("C10:{}:finish-after-end-returns-cancelled", kind_sig),
                (CallK::Finish, Ret::FinishCancelled, _) => format!("C10:{}:early-finish-not-88", kind_sig),
                (CallK::Finish, Ret::FinishAlready, _) => format!("C10:{}:second-finish-not-80", kind_sig),
                _ => format!("C10:{}:{:?}-result-differs", kind_sig, ck),
            };
            rep.violation(sig, format!("{} call {:?} in model state {:?}: want {} got {}; history {:?}", kind, ck, before, trunc(&want), trunc(got), history), replay.clone());
            // resynchronise is not meaningful: stop checking this case
            break;
        }
        history.push(format!("{:?}->{}", ck, match got { Ret::Item(_) => "item".to_string(), other => trunc(other).chars().take(40).collect() }));
        if verbose {
            println!("{:?} -> {}", ck, trunc(got));
        }
    }
    let _ = drv;
    rep.count(&format!("streams_{}", kind_sig), 1);
    if fault_after.is_some() {
        rep.count("streams_with_connection_loss", 1);
    }
    if adapter_fails_at.is_some() {
        rep.count("streams_whose_adapter_fails_on_its_own", 1);
    }
    if early_finish_at.is_some() {
        rep.count("streams_finished_early", 1);
    }
    rep.count("calls_checked", ri as u64);
    if i < 2 {
        rep.sample(json!({"lane":"streams","case":i,"kind":kind,"raw_items":raw.len(),"fault_after":fault_after,"calls":calls.iter().map(|c| format!("{:?}", c)).collect::<Vec<_>>().join(","),"history":history}));
    }
    let sig: String = calls.iter().map(|c| match c { CallK::Next => 'n', CallK::Finish => 'f', CallK::State => 's' }).collect();
    rep.case(Some(fnv(format!("{}{}{:?}{}", kind, raw.len(), fault_after, sig).as_bytes())));
}

fn trunc<T: std::fmt::Debug>(t: &T) -> String {
    format!("{:?}", t).chars().take(300).collect()
}

pub fn streams(ctx: &Ctx) -> Report {
    let n = ctx.n(100_000, 100_000_000);
    par_cases(ctx, "streams", n, ctx.secs(30, 600), |i, rng, rep| run_case(i, rng, rep, false))
}

/// The synchronous EntryStream is the same stream behind a blocking facade: items in order, and
/// result() = what finish() returns (the server's final result with the referrals EntriesOnly
/// collected, or rc 88 after an early stop).
fn run_sync_case(i: u64, rng: &mut Rng, rep: &mut Report, verbose: bool) {
    use std::io::{Read, Write};
    use std::os::unix::net::UnixStream;
    let entries_only = rng.bool();
    let raw = gen_raw(rng, 1);
    let stop_after: Option<usize> = if rng.chance(1, 4) { Some(rng.usize(raw.len() + 1)) } else { None };
    // the server may close the connection as soon as it has sent the final result
    let server_closes = rng.chance(1, 3);
    let slow_reader = server_closes && rng.bool();
    let replay = json!({"lane":"sync_streams","case":i,"server_closes":server_closes});
    let (a, b) = match UnixStream::pair() {
        Ok(p) => p,
        Err(e) => {
            rep.inconclusive(format!("socketpair: {}", e));
            return;
        }
    };
    let raw2 = raw.clone();
    let srv = std::thread::spawn(move || {
        let mut s = b;
        let _ = s.set_read_timeout(Some(std::time::Duration::from_secs(20)));
        let mut buf: Vec<u8> = vec![];
        let mut tmp = [0u8; 8192];
        let id = loop {
            if let Some(t) = ber::outer_complete(&buf) {
                match crate::msg::decode_request(&buf[..t]) {
                    Ok(m) => break m.id,
                    Err(_) => return,
                }
            }
            match s.read(&mut tmp) {
                Ok(0) | Err(_) => return,
                Ok(n) => buf.extend_from_slice(&tmp[..n]),
            }
        };
        let mut bytes = vec![];
        for (r, cs) in &raw2 {
            bytes.extend_from_slice(&ber::encode_min(&resp_node(id, r, cs.as_deref())));
        }
        let _ = s.write_all(&bytes);
        if server_closes {
            let _ = s.shutdown(std::net::Shutdown::Both);
            return;
        }
        // wait for the client to go away
        loop {
            match s.read(&mut tmp) {
                Ok(0) | Err(_) => break,
                Ok(_) => {}
            }
        }
    });
    let out = crate::report::guarded(move || -> Result<(Vec<Ret>, Ret), String> {
        let mut conn = ldap3::LdapConn::with_settings(ldap3::LdapConnSettings::new().set_std_stream(ldap3::StdStream::Unix(a)), "ldapi:///").map_err(|e| format!("connect: {}", e))?;
        let adapters: Vec<Box<dyn Adapter<'static, String, Vec<String>>>> = if entries_only { vec![Box::new(EntriesOnly::new())] } else { vec![] };
        let mut st = conn.streaming_search_with(adapters, "op=1,dc=x", Scope::Subtree, "(objectClass=*)", vec!["*".to_string()]).map_err(|e| format!("start: {}", e))?;
        let mut rets = vec![];
        let mut n = 0;
        loop {
            if let Some(k) = stop_after {
                if n >= k {
                    break;
                }
            }
            n += 1;
            if slow_reader && n == 2 {
                // the reader is slower than the network: by now everything has arrived and the peer is gone
                std::thread::sleep(std::time::Duration::from_millis(30));
            }
            match st.next() {
                Ok(Some(e)) => rets.push(Ret::Item(item_out(&e))),
                Ok(None) => {
                    rets.push(Ret::None);
                    break;
                }
                Err(_) => {
                    rets.push(Ret::Err);
                    break;
                }
            }
        }
        let r = st.result();
        let fin = if r.rc == 88 && r.text == "user cancelled" { Ret::FinishCancelled } else { Ret::Finish(res_out(&r)) };
        Ok((rets, fin))
    });
    let _ = srv.join();
    let (rets, fin) = match out {
        Ok(Ok(x)) => x,
        Ok(Err(e)) => {
            rep.inconclusive(format!("sync stream setup: {}", e));
            return;
        }
        Err(p) => {
            rep.violation(format!("C10:sync-stream:panics@{}", p.site()), format!("{:?}", p), replay);
            return;
        }
    };
    let kind_sig = if entries_only { "sync-stream-behind-entries-only" } else { "sync-stream" };
    let mut model = Model { raw: raw.clone(), fault_after: None, entries_only, pos: 0, state: St::Active, res: None, collected_refs: vec![], adapter_fails_at: None, adapter_calls: 0 };
    for (k, got) in rets.iter().enumerate() {
        let want = model.next();
        if &want != got {
            let sig = match (&want, got) {
                (Ret::Item(_), Ret::Item(_)) => "item-differs-or-out-of-order",
                (Ret::Item(_), _) => "item-missing",
                (Ret::None, Ret::Item(_)) => "extra-item",
                _ => "next-result-differs",
            };
            rep.violation(format!("C10:{}:{}", kind_sig, sig), format!("next() #{}: want {} got {}", k, trunc(&want), trunc(got)), replay.clone());
            rep.case(None);
            return;
        }
    }
    let want = model.finish();
    if want != fin {
        let sig = match (&want, &fin) {
            (Ret::Finish(w), Ret::Finish(g)) if w.refs != g.refs => "final-result-differs:referrals",
            (Ret::Finish(_), Ret::Finish(_)) => "final-result-differs",
            (Ret::Finish(_), Ret::FinishCancelled) => "result-after-end-returns-cancelled",
            (Ret::FinishCancelled, _) => "early-result-not-88",
            _ => "result-differs",
        };
        rep.violation(format!("C10:{}:{}", kind_sig, sig), format!("result(): want {} got {}", trunc(&want), trunc(&fin)), replay.clone());
    }
    if verbose {
        println!("{} raw {} stop {:?}: {} items, result {}", kind_sig, raw.len(), stop_after, rets.len(), trunc(&fin));
    }
    if server_closes {
        rep.count("sync_streams_whose_server_closes_after_the_final_result", 1);
    }
    rep.count(&format!("streams_{}", kind_sig), 1);
    if i < 2 {
        rep.sample(json!({"lane":"sync_streams","case":i,"kind":kind_sig,"raw_items":raw.len(),"stopped_after":stop_after}));
    }
    rep.case(Some(fnv(format!("{}{:?}{:?}", entries_only, raw, stop_after).as_bytes())));
}

pub fn sync_streams(ctx: &Ctx) -> Report {
    let n = ctx.n(3_000, 1_000_000);
    par_cases(ctx, "sync_streams", n, ctx.secs(20, 300), |i, rng, rep| run_sync_case(i, rng, rep, false))
}

/// A PagedResults search stopped early - on the first or on a later page - is a stream finished
/// before its end: finish() reports rc 88 (never the result of an earlier page), the state is Closed,
/// a second finish() reports rc 80.
pub fn paged_early_finish(ctx: &Ctx) -> Report {
    use crate::lanes::c13::behaviour_server;
    use ldap3::adapters::PagedResults;
    let n = ctx.n(6_000, 2_000_000);
    par_cases(ctx, "paged_early_finish", n, ctx.secs(15, 300), |i, rng, rep| {
        let page = 1 + rng.usize(4);
        let total = page + 1 + rng.usize(8);
        // stop after j items: anywhere on the first page, at the boundary, or inside the second page
        let j = rng.usize((2 * page).min(total) + 1);
        let behind = rng.bool();
        let rt = runtime(rng.next());
        let (first, state, second, items) = rt.block_on(async move {
            let c = connect();
            let mut ldap = c.ldap;
            let srv = tokio::spawn(behaviour_server(c.server));
            let adapters: Vec<Box<dyn Adapter<'static, String, Vec<String>>>> = if behind { vec![Box::new(EntriesOnly::new()), Box::new(PagedResults::new(page as i32))] } else { vec![Box::new(PagedResults::new(page as i32))] };
            let mut out = (String::new(), String::new(), String::new(), 0usize);
            if let Ok(mut st) = ldap.streaming_search_with(adapters, &format!("op={},b=ph{}", i, total), Scope::Subtree, "(a=b)", vec!["*".to_string()]).await {
                let mut k = 0;
                while k < j {
                    match world::watchdog(st.next()).await {
                        Ok(Ok(Some(_))) => k += 1,
                        _ => break,
                    }
                }
                let r = st.finish().await;
                out.0 = format!("rc={} text={:?} ctrls={}", r.rc, r.text, r.ctrls.len());
                out.1 = st_of(st.state()).to_string();
                let r2 = st.finish().await;
                out.2 = format!("rc={}", r2.rc);
                out.3 = k;
            } else {
                out.0 = "start failed".into();
            }
            drop(ldap);
            srv.abort();
            let _ = c.driver.await;
            out
        });
        let replay = json!({"lane":"paged_early_finish","case":i});
        let on = if j < page { "first-page" } else { "later-page" };
        if items == j {
            if !first.starts_with("rc=88 ") {
                rep.violation(format!("C10:paged-stream:early-finish-not-88:stopped-on-{}", on), format!("{} entries in pages of {}, stopped after {}: finish() -> {}", total, page, j, first), replay.clone());
            }
            if state != "Closed" {
                rep.violation(format!("C10:paged-stream:state-after-finish={}-expected-Closed", state), format!("stopped after {} of {} (page {})", j, total, page), replay.clone());
            }
            if second != "rc=80" {
                rep.violation("C10:paged-stream:second-finish-not-80", format!("{}", second), replay.clone());
            }
        } else {
            rep.violation("C10:paged-stream:item-missing", format!("wanted to read {} items of {} (pages of {}), got {}; finish {}", j, total, page, items, first), replay.clone());
        }
        rep.count(&format!("paged_streams_stopped_on_{}", on), 1);
        if i < 2 {
            rep.sample(json!({"lane":"paged_early_finish","case":i,"page_size":page,"entries":total,"stopped_after":j,"finish":first}));
        }
        rep.case(Some(fnv(format!("{}{}{}{}", page, total, j, behind).as_bytes())));
    })
}

/// search(): exactly the entries in order, referral URIs merged into refs, intermediates dropped.
pub fn search_collect(ctx: &Ctx) -> Report {
    let n = ctx.n(60_000, 50_000_000);
    par_cases(ctx, "search_collect", n, ctx.secs(20, 300), |i, rng, rep| {
        let mut srng = rng.fork();
        let spec = gen::gen_search(rng, i);
        let call = Call::Search(spec);
        let lost = rng.chance(1, 8);
        let rt = runtime(rng.next());
        let call2 = call.clone();
        let (out, plan) = rt.block_on(async move {
            let c = connect();
            let mut ldap = c.ldap;
            let mut server = c.server;
            let srv = tokio::spawn(async move {
                let mut plan = vec![];
                if let Some(w) = server.request().await {
                    if let Ok(m) = w.msg {
                        if let Req::Search { .. } = m.op {
                            plan = gen_raw(&mut srng, m.id);
                            // one answer in eight is cut short: the server goes away before the final result
                            let upto = if lost { plan.len() - 1 - srng.usize(plan.len()) } else { plan.len() };
                            let mut bytes = vec![];
                            for (r, cs) in &plan[..upto] {
                                bytes.extend_from_slice(&ber::encode_min(&resp_node(m.id, r, cs.as_deref())));
                            }
                            server.send_chunked(&bytes, Chunking::Random, &mut srng);
                            if lost {
                                server.eof();
                            }
                        }
                    }
                }
                server.wait_closed().await;
                plan
            });
            let out = world::watchdog(invoke(&mut ldap, &call2)).await.unwrap_or(Outcome::Hung);
            drop(ldap);
            let plan = srv.await.unwrap_or_default();
            let _ = c.driver.await;
            (out, plan)
        });
        if lost {
            // without the final result there is no result to return: search() fails, it does not make one up
            match &out {
                Outcome::Err(..) => rep.count("search()_calls_failed_by_connection_loss", 1),
                o => rep.violation("C10:search():connection-lost-before-the-final-result-but-a-result-is-returned", format!("{} items planned, connection closed before SearchResultDone: {}", plan.len(), trunc(o)), json!({"lane":"search_collect","case":i})),
            }
            rep.case(Some(fnv(format!("lost{:?}", plan).as_bytes())));
            return;
        }
        let want = expected_outcome(&plan);
        if want != out {
            let sig = match (&want, &out) {
                (Outcome::Search(wi, wr), Outcome::Search(gi, gr)) => {
                    if wi.len() != gi.len() { "entries-count" } else if wi != gi { "entries-differ-or-out-of-order" } else if wr.refs != gr.refs { "referrals-not-merged-in-arrival-order" } else { "result-differs" }
                }
                _ => "call-failed",
            };
            rep.violation(format!("C10:search():{}", sig), format!("want {} got {}", trunc(&want), trunc(&out)), json!({"lane":"search_collect","case":i}));
        }
        let _ = plan_response;
        let _ = Res::ok("");
        rep.count("items_sent", plan.len() as u64);
        rep.case(Some(fnv(format!("{:?}", plan).as_bytes())));
    })
}

pub fn replay(ctx: &Ctx, v: &Value) -> Report {
    let mut rep = Report::new();
    if let Some(i) = v["case"].as_u64() {
        let mut rng = case_rng(ctx.seed, "streams", i);
        run_case(i, &mut rng, &mut rep, true);
    }
    rep
}

// ---------------- a stream given up by its reader while the server keeps sending ----------------

/// What one run of the scenario showed.
#[derive(Clone, Debug, Default)]
pub struct NeighbourObs {
    pub how: &'static str,
    /// items and end of the stream that is read to its end ("e=..", "END:..", "FINISH:rc=..:text")
    pub b: Vec<String>,
    pub b_expected: Vec<String>,
    /// a single operation issued after everything else
    pub later: String,
    /// IDs still reserved / routing entries left once nothing is outstanding
    pub ids_left: Vec<i32>,
    pub maps_left: (usize, usize),
    pub driver: String,
    pub split: bool,
}

/// Two searches A and B on cloned handles.  The server sends part of both results; the reader of A
/// gives up (drops the stream without finish(), finishes early, or its search() call is cancelled);
/// the server, which was told nothing, sends the rest of A and of B (in the same burst as the first
/// part, or in a later one).  B must be served exactly as if A's reader were still there, a later
/// operation must work, and in the end nothing of A may be left behind.
pub fn dropped_neighbour_case(rng: &mut Rng) -> NeighbourObs {
    let how = *rng.pick(&["dropped-without-finish", "finished-early", "search()-call-cancelled"]);
    let a_first = 1 + rng.usize(3);
    let a_rest = 1 + rng.usize(4);
    let b_n = 1 + rng.usize(5);
    let b_first = rng.usize(b_n + 1);
    let split = rng.bool();
    let b_first_on_wire = rng.bool();
    let rt = runtime(rng.next());
    let mut obs = NeighbourObs { how, split, ..Default::default() };
    for k in 0..b_n {
        obs.b_expected.push(format!("e=B.{}", k));
    }
    obs.b_expected.push("END:Ok(None)".into());
    obs.b_expected.push("FINISH:rc=0:t:B:done".into());
    let how2 = how;
    let (b, later, ids_left, maps_left, driver) = rt.block_on(async move {
        let c = connect();
        let ldap = c.ldap;
        let gauges = ldap.verif_gauges();
        let mut server = c.server;
        let go_on = std::sync::Arc::new(tokio::sync::Notify::new());
        let go_on2 = go_on.clone();
        let srv = tokio::spawn(async move {
            // two search requests, in either order
            let mut ids: std::collections::HashMap<String, i64> = Default::default();
            while ids.len() < 2 {
                match server.request().await {
                    Some(w) => {
                        if let Ok(m) = w.msg {
                            if let Req::Search { base, .. } = &m.op {
                                ids.insert(String::from_utf8_lossy(base).into_owned(), m.id);
                            }
                        }
                    }
                    None => return,
                }
            }
            let (ia, ib) = (ids["op=A"], ids["op=B"]);
            let entry = |id: i64, name: &str, k: usize| ber::encode_min(&resp_node(id, &Resp::Entry { dn: format!("e={}.{}", name, k).into_bytes(), attrs: vec![] }, None));
            let done = |id: i64, name: &str| ber::encode_min(&resp_node(id, &Resp::Done(Res::ok(&format!("t:{}:done", name))), None));
            let mut first = vec![];
            let (mut fa, mut fb) = (vec![], vec![]);
            for k in 0..a_first {
                fa.extend_from_slice(&entry(ia, "A", k));
            }
            for k in 0..b_first {
                fb.extend_from_slice(&entry(ib, "B", k));
            }
            if b_first_on_wire {
                first.extend_from_slice(&fb);
                first.extend_from_slice(&fa);
            } else {
                first.extend_from_slice(&fa);
                first.extend_from_slice(&fb);
            }
            let mut rest = vec![];
            for k in a_first..a_first + a_rest {
                rest.extend_from_slice(&entry(ia, "A", k));
                if k == a_first && b_first < b_n {
                    rest.extend_from_slice(&entry(ib, "B", b_first));
                }
            }
            for k in (b_first + 1).min(b_n)..b_n {
                rest.extend_from_slice(&entry(ib, "B", k));
            }
            rest.extend_from_slice(&done(ia, "A"));
            rest.extend_from_slice(&done(ib, "B"));
            if split {
                server.send(&first);
                go_on2.notified().await;
                server.send(&rest);
            } else {
                first.extend_from_slice(&rest);
                server.send(&first);
                go_on2.notified().await;
            }
            // then serve whatever else comes
            while let Some(w) = server.request().await {
                if let Ok(m) = w.msg {
                    if let Some(r) = crate::msg::reply_for(&m.op, Res::ok("t:later")) {
                        server.send(&ber::encode_min(&resp_node(m.id, &r, None)));
                    }
                }
            }
        });
        let mut la = ldap.clone();
        let mut lb = ldap.clone();
        let mut b: Vec<String> = vec![];
        let dn_of = |e: &ResultEntry| match &item_out(e).node {
            ber::Node::C { kids, .. } => match kids.first() {
                Some(ber::Node::P { data, .. }) => String::from_utf8_lossy(data).into_owned(),
                _ => "?".into(),
            },
            _ => "?".into(),
        };
        // A's reader
        if how2 == "search()-call-cancelled" {
            let mut sb = match lb.streaming_search("op=B", Scope::Subtree, "(a=b)", vec!["*"]).await {
                Ok(s) => s,
                Err(e) => return (vec![format!("START:{}", world::err_class(&e))], String::new(), vec![], (0, 0), String::new()),
            };
            // the collecting call is given up by its caller after a while (an application-level timeout)
            let _ = tokio::time::timeout(std::time::Duration::from_millis(50), la.search("op=A", Scope::Subtree, "(a=b)", vec!["*"])).await;
            go_on.notify_one();
            world::settle().await;
            read_to_end(&mut sb, &mut b, &dn_of).await;
        } else {
            let sa = la.streaming_search("op=A", Scope::Subtree, "(a=b)", vec!["*"]).await;
            let mut sb = match lb.streaming_search("op=B", Scope::Subtree, "(a=b)", vec!["*"]).await {
                Ok(s) => s,
                Err(e) => return (vec![format!("START:{}", world::err_class(&e))], String::new(), vec![], (0, 0), String::new()),
            };
            if let Ok(mut sa) = sa {
                for _ in 0..a_first {
                    let _ = world::watchdog(sa.next()).await;
                }
                if how2 == "finished-early" {
                    let _ = sa.finish().await;
                }
                drop(sa);
            }
            go_on.notify_one();
            world::settle().await;
            read_to_end(&mut sb, &mut b, &dn_of).await;
        }
        world::settle().await;
        let mut l3 = ldap.clone();
        let later = world::watchdog(invoke(&mut l3, &Call::Delete { dn: "op=later".into() })).await.unwrap_or(Outcome::Hung);
        let later = match &later {
            Outcome::Res(r) => format!("Ok:{}", r.text),
            o => o.class(),
        };
        world::settle().await;
        let ids_left = ldap.verif_id_table().1;
        let maps_left = (gauges.resultmap_len.load(std::sync::atomic::Ordering::SeqCst), gauges.searchmap_len.load(std::sync::atomic::Ordering::SeqCst));
        drop(ldap);
        drop(la);
        drop(lb);
        drop(l3);
        let _ = srv.await;
        let driver = format!("{:?}", c.driver.await);
        (b, later, ids_left, maps_left, driver)
    });
    obs.b = b;
    obs.later = later;
    obs.ids_left = ids_left;
    obs.maps_left = maps_left;
    obs.driver = driver;
    obs
}

async fn read_to_end<'a>(sb: &mut SearchStream<'a, &'a str, Vec<&'a str>>, b: &mut Vec<String>, dn_of: &dyn Fn(&ResultEntry) -> String) {
    loop {
        match world::watchdog(sb.next()).await {
            Ok(Ok(Some(e))) => b.push(dn_of(&e)),
            Ok(Ok(None)) => {
                b.push("END:Ok(None)".into());
                break;
            }
            Ok(Err(e)) => {
                b.push(format!("END:Err({})", world::err_class(&e)));
                break;
            }
            Err(()) => {
                b.push("END:Hung".into());
                break;
            }
        }
    }
    let r = sb.finish().await;
    b.push(format!("FINISH:rc={}:{}", r.rc, r.text));
}

/// C10's view: the stream that is read to its end yields exactly what the server sent for it.
pub fn dropped_neighbour(ctx: &Ctx) -> Report {
    let n = ctx.n(4_000, 2_000_000);
    par_cases(ctx, "dropped_neighbour", n, ctx.secs(10, 200), |i, rng, rep| {
        let o = dropped_neighbour_case(rng);
        let replay = json!({"lane":"dropped_neighbour","case":i});
        if o.b != o.b_expected {
            rep.violation(format!("C10:stream-next-to-a-given-up-stream:items-or-result-differ:{}", o.how), format!("neighbour {} ({}): want {:?} got {:?}; driver {}", o.how, if o.split { "rest sent later" } else { "everything in one burst" }, o.b_expected, o.b, o.driver), replay);
        }
        rep.count(&format!("neighbour_{}", o.how), 1);
        rep.case(Some(fnv(format!("{}{}{:?}", o.how, o.split, o.b_expected.len()).as_bytes())));
    })
}


// ---------------- a reader far behind the server ----------------

/// "Exactly the entries the server sent, in order" has no size limit: a result of thousands of items that
/// arrives in one burst while the reader is busy elsewhere (it comes back after a second) is delivered in
/// full, through a direct stream, behind EntriesOnly and through search().
pub fn lagging_reader(ctx: &Ctx) -> Report {
    let n = ctx.n(24, 2_000);
    par_cases(ctx, "lagging_reader", n, ctx.secs(20, 200), |i, rng, rep| {
        let total = *rng.pick(&[1_024usize, 1_025, 1_500, 3_000, 5_000]);
        let how = rng.below(3);
        let refs_every = if rng.bool() { 97 } else { 0 };
        let rt = runtime(rng.next());
        let (got, refs_got, res) = rt.block_on(async move {
            let c = connect();
            let mut ldap = c.ldap;
            let mut server = c.server;
            let srv = tokio::spawn(async move {
                if let Some(w) = server.request().await {
                    if let Ok(m) = w.msg {
                        let mut bytes = vec![];
                        for k in 0..total {
                            if refs_every > 0 && k % refs_every == 5 {
                                bytes.extend_from_slice(&ber::encode_min(&resp_node(m.id, &Resp::Reference(vec![format!("ldap://r/{}", k)]), None)));
                            }
                            bytes.extend_from_slice(&ber::encode_min(&resp_node(m.id, &Resp::Entry { dn: format!("e={}", k).into_bytes(), attrs: vec![] }, None)));
                        }
                        bytes.extend_from_slice(&ber::encode_min(&resp_node(m.id, &Resp::Done(Res::code(4, "t:done")), None)));
                        server.send(&bytes);
                    }
                }
                server.wait_closed().await;
            });
            let dn_of = |e: &ResultEntry| match &item_out(e).node {
                ber::Node::C { kids, .. } => match kids.first() {
                    Some(ber::Node::P { data, .. }) => String::from_utf8_lossy(data).into_owned(),
                    _ => "?".into(),
                },
                _ => "?".into(),
            };
            let mut got: Vec<String> = vec![];
            let mut refs_got = 0usize;
            let res;
            if how == 2 {
                // the collecting call has no reader to lag; the driver still gets everything in one go
                match world::watchdog(ldap.search("op=1", Scope::Subtree, "(a=b)", vec!["*"])).await {
                    Ok(Ok(r)) => {
                        got = r.0.iter().map(&dn_of).collect();
                        refs_got = r.1.refs.len();
                        res = format!("rc={}:{}", r.1.rc, r.1.text);
                    }
                    Ok(Err(e)) => res = format!("Err({})", world::err_class(&e)),
                    Err(()) => res = "Hung".into(),
                }
            } else {
                let st = if how == 1 {
                    let ad: Vec<Box<dyn Adapter<'static, &str, Vec<&str>>>> = vec![Box::new(EntriesOnly::new())];
                    ldap.streaming_search_with(ad, "op=1", Scope::Subtree, "(a=b)", vec!["*"]).await
                } else {
                    ldap.streaming_search("op=1", Scope::Subtree, "(a=b)", vec!["*"]).await
                };
                match st {
                    Err(e) => res = format!("START:Err({})", world::err_class(&e)),
                    Ok(mut st) => {
                        let mut first = true;
                        let mut end = String::new();
                        loop {
                            match world::watchdog(st.next()).await {
                                Ok(Ok(Some(e))) => {
                                    if item_out(&e).is_ref {
                                        refs_got += 1;
                                    } else {
                                        got.push(dn_of(&e));
                                    }
                                    if first {
                                        first = false;
                                        // the reader is busy elsewhere while the rest of the burst piles up
                                        tokio::time::sleep(std::time::Duration::from_secs(1)).await;
                                    }
                                }
                                Ok(Ok(None)) => break,
                                Ok(Err(e)) => {
                                    end = format!("Err({}) after {} items; ", world::err_class(&e), got.len());
                                    break;
                                }
                                Err(()) => {
                                    end = "Hung; ".into();
                                    break;
                                }
                            }
                        }
                        let r = st.finish().await;
                        if how == 1 {
                            refs_got = r.refs.len();
                        }
                        res = format!("{}rc={}:{}", end, r.rc, r.text);
                    }
                }
            }
            drop(ldap);
            let _ = srv.await;
            let _ = c.driver.await;
            (got, refs_got, res)
        });
        let kind = ["direct", "behind-entries-only", "search()"][how as usize];
        let replay = json!({"lane":"lagging_reader","case":i});
        let want_refs = if refs_every > 0 { (0..total).filter(|k| k % refs_every == 5).count() } else { 0 };
        let in_order = got.iter().enumerate().all(|(k, d)| *d == format!("e={}", k));
        if got.len() != total || !in_order || res != "rc=4:t:done" || refs_got != want_refs {
            rep.violation(
                format!("C10:{}:large-result-not-delivered-in-full-to-a-lagging-reader", kind),
                format!("{} entries and {} references sent in one burst, then rc 4: the caller got {} entries ({}), {} references, end {}", total, want_refs, got.len(), if in_order { "in order" } else { "OUT OF ORDER" }, refs_got, res),
                replay,
            );
        }
        rep.max("max_items_in_one_result", (total + want_refs) as u64);
        rep.count(&format!("lagging_{}", kind), 1);
        rep.case(Some(fnv(format!("{}{}{}", total, how, refs_every).as_bytes())));
    })
}


/// A stream behind PagedResults read to its end: `finish()` returns the last page's result, its
/// other controls in the order the server sent them (the adapter only takes the paging control out).
/// Same workload and model as C03's paged lane; only what concerns the stream's final result and
/// its items is C10's.
pub fn paged_final_result(ctx: &Ctx) -> Report {
    let mut rep = crate::lanes::c03::paged_results(ctx);
    let old = std::mem::take(&mut rep.violations);
    for (sig, mut v) in old {
        let renamed = match sig.strip_prefix("C03:") {
            Some(rest) => format!("C10:paged-stream:{}", rest),
            None => sig,
        };
        v.signature = renamed.clone();
        rep.violations.insert(renamed, v);
    }
    rep
}
