//! The in-memory world: seeded paused-clock runtime, connection over the harness pipe,
//! normalised client calls and outcomes.

use crate::ber::Node;
use crate::conv::from_lber;
use crate::filter_ref::Filter;
use crate::msg::{Auth, Ctl, Req};
use crate::pipe::{self, ServerEnd};
use crate::report::{take_panics, PanicInfo};
use ldap3::controls::{Control, RawControl};
use ldap3::exop::Exop;
use ldap3::result::{ExopResult, LdapResult};
use ldap3::{DerefAliases, Ldap, LdapConnAsync, LdapError, Mod, ResultEntry, Scope, SearchOptions};
use std::collections::HashSet;
use std::future::Future;
use std::panic::{catch_unwind, AssertUnwindSafe};
use std::pin::Pin;
use std::task::{Context, Poll};
use std::time::Duration;
use tokio::runtime::{Builder, RngSeed, Runtime};
use tokio::task::JoinHandle;

/// Paused-clock, seeded, single-threaded runtime with a top-level virtual-time guard: if the whole
/// case is still pending when the runtime is idle for a virtual year (i.e. some awaited task can
/// never finish and no timer is armed), `block_on` panics with a "VH-STALL" message which the case
/// runner reports as a violation instead of parking the OS thread forever.
pub struct Rt(Runtime);

impl Rt {
    /// Wrap any runtime (for real-time multi-thread lanes the guard is simply never reached).
    pub fn wrap(rt: Runtime) -> Rt {
        Rt(rt)
    }
    pub fn block_on<F: Future>(&self, f: F) -> F::Output {
        self.0.block_on(async move {
            match tokio::time::timeout(Duration::from_secs(3600 * 24 * 365), f).await {
                Ok(v) => v,
                Err(_) => panic!("VH-STALL: the case never winds down (a driver, client or server task can never complete and no timer is armed)"),
            }
        })
    }
}

pub fn runtime(seed: u64) -> Rt {
    Rt(Builder::new_current_thread()
        .enable_time()
        .start_paused(true)
        .rng_seed(RngSeed::from_bytes(&seed.to_le_bytes()))
        .build()
        .expect("runtime"))
}

/// Future wrapper turning a panic during poll into Err(PanicInfo).
pub struct Caught<F>(Pin<Box<F>>);

impl<F: Future> Caught<F> {
    pub fn new(f: F) -> Self {
        Caught(Box::pin(f))
    }
}

impl<F: Future> Future for Caught<F> {
    type Output = Result<F::Output, PanicInfo>;
    fn poll(mut self: Pin<&mut Self>, cx: &mut Context<'_>) -> Poll<Self::Output> {
        let inner = self.0.as_mut();
        match catch_unwind(AssertUnwindSafe(|| inner.poll(cx))) {
            Ok(Poll::Ready(v)) => Poll::Ready(Ok(v)),
            Ok(Poll::Pending) => Poll::Pending,
            Err(_) => {
                let mut ps = take_panics();
                Poll::Ready(Err(ps.pop().unwrap_or(PanicInfo { file: "?".into(), line: 0, msg: "?".into() })))
            }
        }
    }
}

pub type DriveResult = Result<Result<(), String>, PanicInfo>;

pub struct Conn {
    pub ldap: Ldap,
    pub server: ServerEnd,
    pub driver: JoinHandle<DriveResult>,
}

/// Open a connection over the in-memory pipe and spawn the driver (must be called inside a runtime).
pub fn connect() -> Conn {
    let (client, server) = pipe::pair();
    let (conn, ldap) = LdapConnAsync::verif_from_io(Box::new(client));
    crate::report::watch_connection(ldap.verif_gauges());
    let driver = tokio::spawn(async move {
        match Caught::new(conn.drive()).await {
            Ok(Ok(())) => Ok(Ok(())),
            Ok(Err(e)) => Ok(Err(e.to_string())),
            Err(p) => Err(p),
        }
    });
    Conn { ldap, server, driver }
}

/// Quiescence barrier: with the paused clock, a sleep completes exactly when every other task is
/// idle (time only auto-advances then). Costs 1 ms of virtual time.
pub async fn settle() {
    tokio::time::sleep(Duration::from_millis(1)).await;
}

/// Virtual-time watchdog: Err(()) means the future can never complete (runtime idle, no timer
/// but ours).
pub async fn watchdog<T>(f: impl Future<Output = T>) -> Result<T, ()> {
    tokio::time::timeout(Duration::from_secs(3600 * 24), f).await.map_err(|_| ())
}

pub fn err_class(e: &LdapError) -> &'static str {
    match e {
        LdapError::EmptyUnixPath => "EmptyUnixPath",
        LdapError::PortInUnixPath => "PortInUnixPath",
        LdapError::MismatchedStreamType => "MismatchedStreamType",
        LdapError::Io { .. } => "Io",
        LdapError::OpSend { .. } => "OpSend",
        LdapError::ResultRecv { .. } => "ResultRecv",
        LdapError::IdScrubSend { .. } => "IdScrubSend",
        LdapError::MiscSend { .. } => "MiscSend",
        LdapError::Timeout { .. } => "Timeout",
        LdapError::FilterParsing => "FilterParsing",
        LdapError::EndOfStream => "EndOfStream",
        LdapError::UrlParsing { .. } => "UrlParsing",
        LdapError::UnknownScheme(_) => "UnknownScheme",
        LdapError::NativeTLS { .. } => "NativeTLS",
        LdapError::LdapResult { .. } => "LdapResult",
        LdapError::AddNoValues => "AddNoValues",
        LdapError::AdapterInit(_) => "AdapterInit",
        LdapError::DecodingUTF8 => "DecodingUTF8",
        LdapError::InvalidScopeString(_) => "InvalidScopeString",
        LdapError::UnrecognizedCriticalExtension(_) => "UnrecognizedCriticalExtension",
    }
}

// ---------------- normalised outcomes ----------------

#[derive(Clone, Debug, PartialEq, Eq)]
pub struct CtlOut {
    pub known: Option<String>,
    pub oid: String,
    pub crit: bool,
    pub val: Option<Vec<u8>>,
}

pub fn ctls_out(c: &[Control]) -> Vec<CtlOut> {
    c.iter()
        .map(|Control(t, raw)| CtlOut { known: t.map(|t| format!("{:?}", t)), oid: raw.ctype.clone(), crit: raw.crit, val: raw.val.clone() })
        .collect()
}

#[derive(Clone, Debug, PartialEq, Eq)]
pub struct ResOut {
    pub rc: u32,
    pub matched: String,
    pub text: String,
    pub refs: Vec<String>,
    pub ctrls: Vec<CtlOut>,
    pub exop_name: Option<String>,
    pub exop_val: Option<Vec<u8>>,
}

pub fn res_out(r: &LdapResult) -> ResOut {
    ResOut { rc: r.rc, matched: r.matched.clone(), text: r.text.clone(), refs: r.refs.clone(), ctrls: ctls_out(&r.ctrls), exop_name: None, exop_val: None }
}

pub fn exop_out(r: &ExopResult) -> ResOut {
    let mut o = res_out(&r.1);
    o.exop_name = r.0.name.clone();
    o.exop_val = r.0.val.clone();
    o
}

#[derive(Clone, Debug, PartialEq, Eq)]
pub struct ItemOut {
    pub node: Node,
    pub ctrls: Vec<CtlOut>,
    pub is_ref: bool,
    pub is_intermediate: bool,
}

pub fn item_out(e: &ResultEntry) -> ItemOut {
    ItemOut { node: from_lber(&e.0), ctrls: ctls_out(&e.1), is_ref: e.is_ref(), is_intermediate: e.is_intermediate() }
}

#[derive(Clone, Debug, PartialEq, Eq)]
pub enum Outcome {
    Res(ResOut),
    Search(Vec<ItemOut>, ResOut),
    Unit,
    Err(String, String),
    Panic(String),
    /// never completed (virtual watchdog)
    Hung,
}

impl Outcome {
    pub fn class(&self) -> String {
        match self {
            Outcome::Res(_) => "Ok".into(),
            Outcome::Search(..) => "Ok".into(),
            Outcome::Unit => "Ok".into(),
            Outcome::Err(c, _) => format!("Err({})", c),
            Outcome::Panic(s) => format!("Panic({})", s),
            Outcome::Hung => "Hung".into(),
        }
    }
    pub fn text(&self) -> Option<&str> {
        match self {
            Outcome::Res(r) | Outcome::Search(_, r) => Some(&r.text),
            _ => None,
        }
    }
}

// ---------------- calls ----------------

#[derive(Clone, Debug, PartialEq, Eq)]
pub enum ModSpec {
    Add(Vec<u8>, Vec<Vec<u8>>),
    Delete(Vec<u8>, Vec<Vec<u8>>),
    Replace(Vec<u8>, Vec<Vec<u8>>),
    Increment(Vec<u8>, Vec<u8>),
}

#[derive(Clone, Debug, PartialEq, Eq)]
pub struct SearchSpec {
    pub base: String,
    pub scope: u8,
    pub filter: Filter,
    pub filter_str: Vec<u8>,
    pub attrs: Vec<String>,
    /// (deref, typesonly, timelimit, sizelimit) when with_search_options is used
    pub opts: Option<(u8, bool, i32, i32)>,
}

#[derive(Clone, Debug, PartialEq, Eq)]
pub enum Call {
    Bind { dn: String, pw: String },
    SaslExternal,
    Add { dn: String, attrs: Vec<(Vec<u8>, Vec<Vec<u8>>)> },
    Compare { dn: String, attr: String, val: Vec<u8> },
    Delete { dn: String },
    Modify { dn: String, mods: Vec<ModSpec> },
    ModDn { dn: String, rdn: String, delold: bool, newsup: Option<String> },
    Extended { name: String, val: Option<Vec<u8>> },
    Abandon(i32),
    Unbind,
    Search(SearchSpec),
}

impl Call {
    pub fn kind(&self) -> &'static str {
        match self {
            Call::Bind { .. } | Call::SaslExternal => "bind",
            Call::Add { .. } => "add",
            Call::Compare { .. } => "compare",
            Call::Delete { .. } => "delete",
            Call::Modify { .. } => "modify",
            Call::ModDn { .. } => "modifydn",
            Call::Extended { .. } => "extended",
            Call::Abandon(_) => "abandon",
            Call::Unbind => "unbind",
            Call::Search(_) => "search",
        }
    }
    /// The request this call must put on the wire (SET OF compared as multisets by the oracle).
    pub fn expected(&self) -> Req {
        match self {
            Call::Bind { dn, pw } => Req::Bind { version: 3, dn: dn.as_bytes().to_vec(), auth: Auth::Simple(pw.as_bytes().to_vec()) },
            Call::SaslExternal => Req::Bind { version: 3, dn: vec![], auth: Auth::Sasl { mech: b"EXTERNAL".to_vec(), creds: Some(vec![]) } },
            Call::Add { dn, attrs } => Req::Add { dn: dn.as_bytes().to_vec(), attrs: attrs.clone() },
            Call::Compare { dn, attr, val } => Req::Compare { dn: dn.as_bytes().to_vec(), attr: attr.as_bytes().to_vec(), val: val.clone() },
            Call::Delete { dn } => Req::Del(dn.as_bytes().to_vec()),
            Call::Modify { dn, mods } => Req::Modify {
                dn: dn.as_bytes().to_vec(),
                mods: mods
                    .iter()
                    .map(|m| match m {
                        ModSpec::Add(a, v) => (0, a.clone(), v.clone()),
                        ModSpec::Delete(a, v) => (1, a.clone(), v.clone()),
                        ModSpec::Replace(a, v) => (2, a.clone(), v.clone()),
                        ModSpec::Increment(a, v) => (3, a.clone(), vec![v.clone()]),
                    })
                    .collect(),
            },
            Call::ModDn { dn, rdn, delold, newsup } => Req::ModDn { dn: dn.as_bytes().to_vec(), rdn: rdn.as_bytes().to_vec(), delold: *delold, newsup: newsup.as_ref().map(|s| s.as_bytes().to_vec()) },
            Call::Extended { name, val } => Req::Extended { name: name.as_bytes().to_vec(), val: val.clone() },
            Call::Abandon(id) => Req::Abandon(*id as i64),
            Call::Unbind => Req::Unbind,
            Call::Search(s) => {
                let (deref, types_only, time, size) = s.opts.unwrap_or((0, false, 0, 0));
                Req::Search {
                    base: s.base.as_bytes().to_vec(),
                    scope: s.scope as i64,
                    deref: deref as i64,
                    size: size as i64,
                    time: time as i64,
                    types_only,
                    filter: s.filter.clone(),
                    attrs: s.attrs.iter().map(|a| a.as_bytes().to_vec()).collect(),
                }
            }
        }
    }
}

pub fn scope_of(s: u8) -> Scope {
    match s {
        0 => Scope::Base,
        1 => Scope::OneLevel,
        _ => Scope::Subtree,
    }
}

pub fn deref_of(d: u8) -> DerefAliases {
    match d {
        0 => DerefAliases::Never,
        1 => DerefAliases::Searching,
        2 => DerefAliases::Finding,
        _ => DerefAliases::Always,
    }
}

pub fn search_options(o: (u8, bool, i32, i32)) -> SearchOptions {
    // the builder's setters are called in an order derived from the values: the result may not
    // depend on it
    let mut order = [0u8, 1, 2, 3];
    let mut h = (o.0 as u32).wrapping_mul(31).wrapping_add(o.1 as u32).wrapping_mul(31).wrapping_add(o.2 as u32).wrapping_mul(31).wrapping_add(o.3 as u32);
    for i in (1..4).rev() {
        order.swap(i, (h % (i as u32 + 1)) as usize);
        h /= 7;
    }
    let mut so = SearchOptions::new();
    for k in order {
        so = match k {
            0 => so.deref(deref_of(o.0)),
            1 => so.typesonly(o.1),
            2 => so.timelimit(o.2),
            _ => so.sizelimit(o.3),
        };
    }
    so
}

fn hs(v: &[Vec<u8>]) -> HashSet<Vec<u8>> {
    v.iter().cloned().collect()
}

pub fn raw_controls(c: &[Ctl]) -> Vec<RawControl> {
    c.iter().map(|c| RawControl { ctype: String::from_utf8_lossy(&c.oid).into_owned(), crit: c.crit, val: c.val.clone() }).collect()
}

fn lift<T>(r: Result<T, LdapError>, f: impl FnOnce(T) -> Outcome) -> Outcome {
    match r {
        Ok(v) => f(v),
        Err(e) => Outcome::Err(err_class(&e).to_string(), e.to_string()),
    }
}

/// Invoke one non-streaming call on the handle. (Search runs `search()`.)
pub async fn invoke(ldap: &mut Ldap, call: &Call) -> Outcome {
    let fut = async {
        match call {
            Call::Bind { dn, pw } => lift(ldap.simple_bind(dn, pw).await, |r| Outcome::Res(res_out(&r))),
            Call::SaslExternal => lift(ldap.sasl_external_bind().await, |r| Outcome::Res(res_out(&r))),
            Call::Add { dn, attrs } => {
                let a: Vec<(Vec<u8>, HashSet<Vec<u8>>)> = attrs.iter().map(|(n, v)| (n.clone(), hs(v))).collect();
                lift(ldap.add(dn, a).await, |r| Outcome::Res(res_out(&r)))
            }
            Call::Compare { dn, attr, val } => lift(ldap.compare(dn, attr, val).await, |r| Outcome::Res(res_out(&r.0))),
            Call::Delete { dn } => lift(ldap.delete(dn).await, |r| Outcome::Res(res_out(&r))),
            Call::Modify { dn, mods } => {
                let m: Vec<Mod<Vec<u8>>> = mods
                    .iter()
                    .map(|m| match m {
                        ModSpec::Add(a, v) => Mod::Add(a.clone(), hs(v)),
                        ModSpec::Delete(a, v) => Mod::Delete(a.clone(), hs(v)),
                        ModSpec::Replace(a, v) => Mod::Replace(a.clone(), hs(v)),
                        ModSpec::Increment(a, v) => Mod::Increment(a.clone(), v.clone()),
                    })
                    .collect();
                lift(ldap.modify(dn, m).await, |r| Outcome::Res(res_out(&r)))
            }
            Call::ModDn { dn, rdn, delold, newsup } => lift(ldap.modifydn(dn, rdn, *delold, newsup.as_deref()).await, |r| Outcome::Res(res_out(&r))),
            Call::Extended { name, val } => lift(ldap.extended(Exop { name: Some(name.clone()), val: val.clone() }).await, |r| Outcome::Res(exop_out(&r))),
            Call::Abandon(id) => lift(ldap.abandon(*id).await, |_| Outcome::Unit),
            Call::Unbind => lift(ldap.unbind().await, |_| Outcome::Unit),
            Call::Search(s) => {
                if let Some(o) = s.opts {
                    ldap.with_search_options(search_options(o));
                }
                let f = String::from_utf8_lossy(&s.filter_str).into_owned();
                lift(ldap.search(&s.base, scope_of(s.scope), &f, s.attrs.clone()).await, |r| {
                    Outcome::Search(r.0.iter().map(item_out).collect(), res_out(&r.1))
                })
            }
        }
    };
    match Caught::new(fut).await {
        Ok(o) => o,
        Err(p) => Outcome::Panic(p.site()),
    }
}
