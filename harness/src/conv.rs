//! Conversions between the harness' BER tree and lber's StructureTag.
use crate::ber::Node;
use lber::common::TagClass;
use lber::structure::{StructureTag, PL};

pub fn class_of(c: u8) -> TagClass {
    match c {
        0 => TagClass::Universal,
        1 => TagClass::Application,
        2 => TagClass::Context,
        _ => TagClass::Private,
    }
}

pub fn to_lber(n: &Node) -> StructureTag {
    match n {
        Node::P { class, tag, data } => StructureTag {
            class: class_of(*class),
            id: *tag as u64,
            payload: PL::P(data.clone()),
        },
        Node::C { class, tag, kids } => StructureTag {
            class: class_of(*class),
            id: *tag as u64,
            payload: PL::C(kids.iter().map(to_lber).collect()),
        },
    }
}

pub fn from_lber(t: &StructureTag) -> Node {
    let class = t.class as u8;
    let tag = t.id.min(255) as u8;
    match &t.payload {
        PL::P(d) => Node::P { class, tag, data: d.clone() },
        PL::C(k) => Node::C { class, tag, kids: k.iter().map(from_lber).collect() },
    }
}

pub fn lber_encode(t: StructureTag) -> Vec<u8> {
    let mut buf = bytes::BytesMut::new();
    lber::write::encode_into(&mut buf, t).expect("encode_into");
    buf.to_vec()
}
