pub mod ber;
pub mod conv;
pub mod lanes;
pub mod prng;
pub mod report;
