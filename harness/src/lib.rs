pub mod ber;
pub mod conv;
pub mod dn_ref;
pub mod filter_ref;
pub mod lanes;
pub mod prng;
pub mod report;
