//! Case runner, per-lane report, panic capture.

use crate::prng::{mix, Rng};
use serde_json::{json, Value};
use std::cell::RefCell;
use std::collections::{BTreeMap, HashSet};
use std::panic::{catch_unwind, AssertUnwindSafe};
use std::sync::atomic::{AtomicBool, AtomicU64, Ordering};
use std::sync::{Arc, Mutex};
use std::time::{Duration, Instant};

#[derive(Clone, Copy, Debug, PartialEq, Eq)]
pub enum Tier {
    Quick,
    Thorough,
}

#[derive(Clone, Debug)]
pub struct Ctx {
    pub tier: Tier,
    pub seed: u64,
    pub threads: usize,
    pub start: Instant,
    /// Multiplier for case counts / time budgets (VERIF_SCALE, default 1.0).
    pub scale: f64,
    /// Miri / tiny mode: shrink everything.
    pub tiny: bool,
    /// (index, count): run only the cases whose index is congruent to `index` modulo `count`
    pub shard: Option<(u64, u64)>,
    /// thorough tier: upper bound in seconds for one lane (the property's time budget divided by its
    /// number of lanes; VERIF_THOROUGH_SECS, default 900 s per property)
    pub lane_cap_s: Option<u64>,
}

impl Ctx {
    pub fn quick(&self) -> bool {
        self.tier == Tier::Quick
    }
    /// Pick a size by tier.
    pub fn n(&self, quick: u64, thorough: u64) -> u64 {
        let base = if self.quick() { quick } else { thorough };
        let v = (base as f64 * self.scale) as u64;
        if self.tiny {
            (v / 2000).max(3)
        } else {
            v.max(1)
        }
    }
    pub fn secs(&self, quick: u64, thorough: u64) -> Duration {
        let mut base = if self.quick() { quick } else { thorough };
        if !self.quick() {
            if let Some(cap) = self.lane_cap_s {
                base = base.min(cap.max(quick));
            }
        }
        Duration::from_millis((base as f64 * 1000.0 * self.scale) as u64)
    }
}

#[derive(Clone, Debug)]
pub struct Viol {
    pub signature: String,
    pub detail: String,
    pub replay: Value,
    pub count: u64,
}

#[derive(Default, Debug)]
pub struct Report {
    pub evaluations: u64,
    pub fps: HashSet<u64>,
    pub samples: Vec<Value>,
    pub counters: BTreeMap<String, u64>,
    pub sets: BTreeMap<String, HashSet<u64>>,
    pub violations: BTreeMap<String, Viol>,
    pub inconclusive: u64,
    pub inconclusive_notes: Vec<String>,
    pub harness_errors: Vec<String>,
    pub exhaustive: Vec<String>,
    /// distinct non-trivial cases counted elsewhere (child processes) whose fingerprints are not here
    pub extra_distinct: u64,
}

impl Report {
    pub fn new() -> Report {
        Report::default()
    }
    /// One case evaluated; `fp` = fingerprint if it is non-trivial by the lane's rule.
    pub fn case(&mut self, fp: Option<u64>) {
        self.evaluations += 1;
        if let Some(f) = fp {
            self.fps.insert(f);
        }
    }
    pub fn count(&mut self, k: &str, n: u64) {
        *self.counters.entry(k.to_string()).or_insert(0) += n;
    }
    pub fn max(&mut self, k: &str, n: u64) {
        let e = self.counters.entry(k.to_string()).or_insert(0);
        if n > *e {
            *e = n;
        }
    }
    pub fn distinct(&mut self, k: &str, h: u64) {
        self.sets.entry(k.to_string()).or_default().insert(h);
    }
    pub fn sample(&mut self, v: Value) {
        if self.samples.len() < 4 {
            self.samples.push(v);
        }
    }
    pub fn violation(&mut self, sig: impl Into<String>, detail: impl Into<String>, replay: Value) {
        let sig = sig.into();
        let e = self.violations.entry(sig.clone()).or_insert_with(|| Viol {
            signature: sig,
            detail: detail.into(),
            replay,
            count: 0,
        });
        e.count += 1;
    }
    pub fn inconclusive(&mut self, note: impl Into<String>) {
        self.inconclusive += 1;
        if self.inconclusive_notes.len() < 5 {
            self.inconclusive_notes.push(note.into());
        }
    }
    pub fn harness_error(&mut self, e: impl Into<String>) {
        if self.harness_errors.len() < 10 {
            self.harness_errors.push(e.into());
        }
    }
    pub fn merge(&mut self, o: Report) {
        self.evaluations += o.evaluations;
        self.fps.extend(o.fps);
        for s in o.samples {
            self.sample(s);
        }
        for (k, v) in o.counters {
            if k.starts_with("max_") {
                self.max(&k, v);
            } else {
                self.count(&k, v);
            }
        }
        for (k, v) in o.sets {
            self.sets.entry(k).or_default().extend(v);
        }
        for (k, v) in o.violations {
            match self.violations.get_mut(&k) {
                Some(e) => e.count += v.count,
                None => {
                    self.violations.insert(k, v);
                }
            }
        }
        self.extra_distinct += o.extra_distinct;
        self.inconclusive += o.inconclusive;
        for n in o.inconclusive_notes {
            if self.inconclusive_notes.len() < 5 {
                self.inconclusive_notes.push(n);
            }
        }
        for e in o.harness_errors {
            self.harness_error(e);
        }
        for e in o.exhaustive {
            if !self.exhaustive.contains(&e) {
                self.exhaustive.push(e);
            }
        }
    }
    /// Rebuild a report from the JSON a child process wrote (fingerprints are not transferred;
    /// children run disjoint case indices, so their distinct counts add up).
    pub fn from_json(v: &Value) -> Report {
        let mut r = Report::new();
        r.evaluations = v["evaluations"].as_u64().unwrap_or(0);
        r.extra_distinct = v["distinct_nontrivial"].as_u64().unwrap_or(0);
        if let Some(a) = v["samples"].as_array() {
            for s in a {
                r.sample(s.clone());
            }
        }
        if let Some(m) = v["counters"].as_object() {
            for (k, x) in m {
                if let Some(n) = x.as_u64() {
                    if k.starts_with("max_") {
                        r.max(k, n);
                    } else {
                        r.count(k, n);
                    }
                }
            }
        }
        if let Some(a) = v["violations"].as_array() {
            for x in a {
                let sig = x["signature"].as_str().unwrap_or("?").to_string();
                r.violations.insert(sig.clone(), Viol { signature: sig, detail: x["detail"].as_str().unwrap_or("").to_string(), replay: x["replay"].clone(), count: x["count"].as_u64().unwrap_or(1) });
            }
        }
        r.inconclusive = v["inconclusive"].as_u64().unwrap_or(0);
        if let Some(a) = v["inconclusive_notes"].as_array() {
            r.inconclusive_notes = a.iter().filter_map(|x| x.as_str().map(|s| s.to_string())).collect();
        }
        if let Some(a) = v["harness_errors"].as_array() {
            r.harness_errors = a.iter().filter_map(|x| x.as_str().map(|s| s.to_string())).collect();
        }
        r
    }

    pub fn to_json(&self, lane: &str) -> Value {
        let mut counters = serde_json::Map::new();
        for (k, v) in &self.counters {
            counters.insert(k.clone(), json!(v));
        }
        for (k, v) in &self.sets {
            counters.insert(format!("distinct_{}", k), json!(v.len()));
        }
        json!({
            "lane": lane,
            "evaluations": self.evaluations,
            "distinct_nontrivial": self.fps.len() as u64 + self.extra_distinct,
            "samples": self.samples,
            "counters": counters,
            "violations": self.violations.values().map(|v| json!({
                "signature": v.signature, "detail": v.detail, "replay": v.replay, "count": v.count
            })).collect::<Vec<_>>(),
            "inconclusive": self.inconclusive,
            "inconclusive_notes": self.inconclusive_notes,
            "harness_errors": self.harness_errors,
            "exhaustive": self.exhaustive,
        })
    }
}

// ---------------- panic capture ----------------

#[derive(Clone, Debug)]
pub struct PanicInfo {
    pub file: String,
    pub line: u32,
    pub msg: String,
}

impl PanicInfo {
    /// Panic site inside the library under test (not in the harness)?
    pub fn in_library(&self) -> bool {
        !self.file.contains("harness/src") && !self.file.starts_with("src/")
    }
    /// Signature fragment: file (relative to /repo) and the fixed part of the message. Line
    /// numbers are deliberately left out (they shift with unrelated edits); they are in the detail.
    pub fn site(&self) -> String {
        let f = self.file.trim_start_matches("/repo/");
        let mut m: String = self.msg.chars().take(60).collect();
        if let Some(p) = m.find(':') {
            // cut variable payloads like "unmatched tag structure: ..."
            m.truncate(p);
        }
        format!("{} \"{}\"", f, m)
    }
}

thread_local! {
    static LAST_PANIC: RefCell<Vec<PanicInfo>> = RefCell::new(Vec::new());
}
static GLOBAL_PANICS: Mutex<Vec<PanicInfo>> = Mutex::new(Vec::new());
static HOOK_GLOBAL: AtomicBool = AtomicBool::new(false);

pub fn install_panic_hook() {
    std::panic::set_hook(Box::new(|info| {
        let (file, line) = info
            .location()
            .map(|l| (l.file().to_string(), l.line()))
            .unwrap_or(("?".into(), 0));
        let msg = if let Some(s) = info.payload().downcast_ref::<&str>() {
            s.to_string()
        } else if let Some(s) = info.payload().downcast_ref::<String>() {
            s.clone()
        } else {
            "<non-string payload>".to_string()
        };
        let pi = PanicInfo { file, line, msg };
        if HOOK_GLOBAL.load(Ordering::SeqCst) {
            GLOBAL_PANICS.lock().unwrap_or_else(|e| e.into_inner()).push(pi.clone());
        }
        LAST_PANIC.with(|p| p.borrow_mut().push(pi));
    }));
}

/// Route panics of all threads to a global list (for multi-thread runtime lanes).
pub fn set_global_panic_capture(on: bool) {
    HOOK_GLOBAL.store(on, Ordering::SeqCst);
}
pub fn take_global_panics() -> Vec<PanicInfo> {
    std::mem::take(&mut *GLOBAL_PANICS.lock().unwrap_or_else(|e| e.into_inner()))
}

pub fn take_panics() -> Vec<PanicInfo> {
    LAST_PANIC.with(|p| std::mem::take(&mut *p.borrow_mut()))
}

/// Run f, catching a panic; returns Err(PanicInfo) if it panicked.
pub fn guarded<T>(f: impl FnOnce() -> T) -> Result<T, PanicInfo> {
    let _ = take_panics();
    match catch_unwind(AssertUnwindSafe(f)) {
        Ok(v) => Ok(v),
        Err(_) => {
            let mut ps = take_panics();
            Err(ps.pop().unwrap_or(PanicInfo { file: "?".into(), line: 0, msg: "?".into() }))
        }
    }
}

// ---------------- parallel case runner ----------------

/// Run cases 0..n (or until `budget` elapses) over ctx.threads OS threads. Each case gets an
/// Rng derived from (seed, lane, index) so any case can be replayed alone.
pub fn par_cases<F>(ctx: &Ctx, lane: &str, n: u64, budget: Duration, f: F) -> Report
where
    F: Fn(u64, &mut Rng, &mut Report) + Sync,
{
    let next = AtomicU64::new(0);
    let deadline = Instant::now() + budget;
    let lane_h = crate::prng::fnv(lane.as_bytes());
    let merged = Arc::new(Mutex::new(Report::new()));
    let threads = if ctx.tiny { 1 } else { ctx.threads.max(1) };
    std::thread::scope(|s| {
        for _ in 0..threads {
            let merged = merged.clone();
            let next = &next;
            let f = &f;
            std::thread::Builder::new()
                .stack_size(16 << 20)
                .spawn_scoped(s, move || {
                    set_current_lane(lane);
                    let mut rep = Report::new();
                    loop {
                        let i = next.fetch_add(1, Ordering::SeqCst);
                        if i >= n {
                            break;
                        }
                        if let Some((s, k)) = ctx.shard {
                            if i % k != s {
                                continue;
                            }
                        }
                        if Instant::now() > deadline {
                            rep.count("stopped_by_time_budget", 1);
                            break;
                        }
                        let mut rng = Rng::new(mix(&[ctx.seed, lane_h, i]));
                        if let Err(p) = guarded(|| f(i, &mut rng, &mut rep)) {
                            if p.msg.starts_with("VH-STALL") {
                                // virtual-time stall of the whole case (see world::Rt)
                                rep.violation(
                                    format!("stall:case-never-winds-down:{}", lane),
                                    format!("lane {} case {}: {}", lane, i, p.msg),
                                    json!({"lane": lane, "case": i}),
                                );
                            } else if p.file.starts_with("/repo/") {
                                // a panic inside the library that no oracle caught and classified
                                rep.violation(
                                    format!("uncaught-panic@{}", p.site()),
                                    format!("lane {} case {}: panic at {}:{}: {}", lane, i, p.file, p.line, p.msg),
                                    json!({"lane": lane, "case": i}),
                                );
                            } else {
                                // anything else escaping the per-case oracle is a harness defect
                                rep.harness_error(format!(
                                    "lane {} case {} escaped panic at {}:{}: {}",
                                    lane, i, p.file, p.line, p.msg
                                ));
                            }
                        }
                    }
                    merged.lock().unwrap().merge(rep);
                })
                .unwrap();
        }
    });
    let r = std::mem::take(&mut *merged.lock().unwrap());
    r
}

pub fn case_rng(seed: u64, lane: &str, i: u64) -> Rng {
    Rng::new(mix(&[seed, crate::prng::fnv(lane.as_bytes()), i]))
}

// ---------------- busy-loop monitor ----------------
//
// A driver that spins without ever yielding blocks its (current-thread) runtime, so the
// virtual-time watchdog can never fire. A monitor thread samples the driver's own loop
// counter (hook H3) from outside; a connection that is old in wall-clock terms and still
// iterating millions of times per second is a livelock, reported as a violation through a
// minimal lane report (the process cannot be resumed).

use std::sync::OnceLock;

struct Watched {
    gauges: Arc<ldap3::VerifGauges>,
    since: Instant,
    last_iters: u64,
    lane: String,
}

static WATCH: OnceLock<Mutex<Vec<(std::thread::ThreadId, Watched)>>> = OnceLock::new();
thread_local! {
    static CUR_LANE: RefCell<String> = RefCell::new(String::new());
}

pub fn set_current_lane(l: &str) {
    CUR_LANE.with(|c| *c.borrow_mut() = l.to_string());
}

/// Register the connection this thread is currently driving (replaces the previous one).
pub fn watch_connection(gauges: Arc<ldap3::VerifGauges>) {
    let w = WATCH.get_or_init(|| Mutex::new(Vec::new()));
    let tid = std::thread::current().id();
    let lane = CUR_LANE.with(|c| c.borrow().clone());
    let mut v = w.lock().unwrap_or_else(|e| e.into_inner());
    v.retain(|(t, _)| *t != tid);
    v.push((tid, Watched { gauges, since: Instant::now(), last_iters: 0, lane }));
}

/// Start the monitor. On a livelock it writes a one-lane report to `out` and exits the process.
pub fn start_spin_monitor(out: Option<String>, property: String, tier: String, seed: u64) {
    std::thread::spawn(move || loop {
        std::thread::sleep(Duration::from_millis(1000));
        let w = match WATCH.get() {
            Some(w) => w,
            None => continue,
        };
        let mut hit: Option<(String, u64, u64)> = None;
        {
            let mut v = w.lock().unwrap_or_else(|e| e.into_inner());
            for (_, x) in v.iter_mut() {
                let it = x.gauges.loop_iters.load(Ordering::SeqCst);
                let delta = it.saturating_sub(x.last_iters);
                x.last_iters = it;
                if x.since.elapsed() > Duration::from_secs(20) && delta > 3_000_000 {
                    hit = Some((x.lane.clone(), it, delta));
                }
            }
        }
        if let Some((lane, it, delta)) = hit {
            let doc = json!({
                "property_id": property, "tier": tier, "seed": seed, "wall_s": 0.0,
                "lanes": [{
                    "lane": format!("{}(spin-monitor)", lane), "evaluations": 1, "distinct_nontrivial": 0, "samples": [], "counters": {"driver_loop_iterations": it},
                    "violations": [{"signature": "driver-busy-loop:connection-driver-spins-without-yielding", "detail": format!("lane {}: a connection driver has been running for more than 20 s of wall-clock time and executed {} loop iterations in the last second ({} in total) without ever yielding to the runtime: its tasks can never complete", lane, delta, it), "replay": {"lane": lane}, "count": 1}],
                    "inconclusive": 0, "inconclusive_notes": [], "harness_errors": [], "exhaustive": []
                }]
            });
            let text = serde_json::to_string_pretty(&doc).unwrap_or_default();
            match &out {
                Some(p) => {
                    let _ = std::fs::write(p, text);
                }
                None => println!("{}", text),
            }
            std::process::exit(0);
        }
    });
}
