//! Deterministic PRNG (splitmix64 seeding + xoshiro256**). No wall-clock entropy.

#[derive(Clone, Debug)]
pub struct Rng {
    s: [u64; 4],
}

pub fn splitmix(x: &mut u64) -> u64 {
    *x = x.wrapping_add(0x9E3779B97F4A7C15);
    let mut z = *x;
    z = (z ^ (z >> 30)).wrapping_mul(0xBF58476D1CE4E5B9);
    z = (z ^ (z >> 27)).wrapping_mul(0x94D049BB133111EB);
    z ^ (z >> 31)
}

/// Mix several words into one seed (used to derive per-case seeds).
pub fn mix(words: &[u64]) -> u64 {
    let mut h = 0x243F6A8885A308D3u64;
    for w in words {
        h ^= *w;
        let mut t = h;
        h = splitmix(&mut t);
    }
    h
}

pub fn fnv(bytes: &[u8]) -> u64 {
    let mut h = 0xcbf29ce484222325u64;
    for b in bytes {
        h ^= *b as u64;
        h = h.wrapping_mul(0x100000001b3);
    }
    h
}

impl Rng {
    pub fn new(seed: u64) -> Rng {
        let mut x = seed;
        Rng {
            s: [
                splitmix(&mut x),
                splitmix(&mut x),
                splitmix(&mut x),
                splitmix(&mut x),
            ],
        }
    }
    pub fn next(&mut self) -> u64 {
        let r = self.s[1].wrapping_mul(5).rotate_left(7).wrapping_mul(9);
        let t = self.s[1] << 17;
        self.s[2] ^= self.s[0];
        self.s[3] ^= self.s[1];
        self.s[1] ^= self.s[2];
        self.s[0] ^= self.s[3];
        self.s[2] ^= t;
        self.s[3] = self.s[3].rotate_left(45);
        r
    }
    /// Uniform in 0..n (n > 0).
    pub fn below(&mut self, n: u64) -> u64 {
        if n <= 1 {
            return 0;
        }
        self.next() % n
    }
    pub fn usize(&mut self, n: usize) -> usize {
        self.below(n as u64) as usize
    }
    /// Inclusive range.
    pub fn range(&mut self, lo: i64, hi: i64) -> i64 {
        lo + self.below((hi - lo + 1) as u64) as i64
    }
    pub fn bool(&mut self) -> bool {
        self.next() & 1 == 1
    }
    /// True with probability num/den.
    pub fn chance(&mut self, num: u64, den: u64) -> bool {
        self.below(den) < num
    }
    pub fn bytes(&mut self, n: usize) -> Vec<u8> {
        (0..n).map(|_| self.next() as u8).collect()
    }
    pub fn pick<'a, T>(&mut self, v: &'a [T]) -> &'a T {
        &v[self.usize(v.len())]
    }
    pub fn shuffle<T>(&mut self, v: &mut [T]) {
        for i in (1..v.len()).rev() {
            let j = self.usize(i + 1);
            v.swap(i, j);
        }
    }
    pub fn fork(&mut self) -> Rng {
        Rng::new(self.next())
    }
    /// A "length-like" number biased to boundaries.
    pub fn len_biased(&mut self, max: usize) -> usize {
        let c = [0usize, 1, 2, 3, 126, 127, 128, 129, 255, 256, 257, 1000, 65535, 65536, 65537];
        if self.chance(1, 3) {
            let v = *self.pick(&c);
            if v <= max {
                return v;
            }
        }
        match self.below(4) {
            0 => self.usize(4.min(max + 1)),
            1 => self.usize(20.min(max + 1)),
            2 => self.usize(300.min(max + 1)),
            _ => self.usize(max + 1),
        }
    }
    /// Random unicode string (valid UTF-8) of up to n chars, from a hostile-ish alphabet.
    pub fn ustring(&mut self, n: usize) -> String {
        let len = self.usize(n + 1);
        let mut s = String::new();
        for _ in 0..len {
            let c = match self.below(10) {
                0 => *self.pick(&[
                    '\0', '(', ')', '*', '\\', ',', '+', '"', ';', '<', '>', '=', '#', ' ', '?',
                    '%', '/', ':', '&', '|', '!', '~',
                ]),
                1 => *self.pick(&['é', 'ß', '中', '€', '😀', '\u{7f}', '\u{80}', '\u{7ff}', '\u{800}', '\u{ffff}', '\u{10000}']),
                2 => char::from_u32(self.below(0x80) as u32).unwrap(),
                3 => loop {
                    if let Some(c) = char::from_u32(self.below(0x110000) as u32) {
                        break c;
                    }
                },
                _ => (b'a' + self.below(26) as u8) as char,
            };
            s.push(c);
        }
        s
    }
}
