//! In-memory duplex transport with exact chunk boundaries and fault injection, plus the
//! server-side request reader.

use crate::ber;
use crate::msg::{decode_request, ReqMsg};
use crate::prng::Rng;
use std::collections::VecDeque;
use std::future::poll_fn;
use std::io;
use std::pin::Pin;
use std::sync::{Arc, Mutex};
use std::task::{Context, Poll, Waker};
use tokio::io::{AsyncRead, AsyncWrite, ReadBuf};

#[derive(Debug)]
pub enum Item {
    Data(Vec<u8>),
    Eof,
    Err(io::ErrorKind),
}

#[derive(Debug, Default)]
pub struct State {
    pub to_client: VecDeque<Item>,
    pub client_waker: Option<Waker>,
    pub from_client: Vec<u8>,
    pub server_waker: Option<Waker>,
    /// size of every accepted poll_write
    pub writes: Vec<usize>,
    pub total_written: usize,
    /// bytes the client has consumed through poll_read
    pub total_read: usize,
    pub reads: u64,
    /// fail the write that would carry byte number `k` (0-based count of bytes accepted before failing)
    pub write_fail_at: Option<usize>,
    pub write_err: Option<io::ErrorKind>,
    pub client_shutdown: bool,
    pub client_dropped: bool,
    pub flushes: u32,
    /// number of spurious Pending+wake to inject on reads
    pub spurious_reads: u32,
    /// cap on bytes handed out per read
    pub max_read: Option<usize>,
    pub eof_seen_by_client: bool,
    /// back-pressure: once `total_written` reaches this value, writes return Pending (the peer
    /// "stopped reading and the socket buffers are full") until released
    pub write_stall_at: Option<usize>,
    pub write_waker: Option<Waker>,
    pub write_stalls_hit: u32,
}

pub type Shared = Arc<Mutex<State>>;

pub struct ClientEnd(pub Shared);

impl AsyncRead for ClientEnd {
    fn poll_read(self: Pin<&mut Self>, cx: &mut Context<'_>, buf: &mut ReadBuf<'_>) -> Poll<io::Result<()>> {
        let mut s = self.0.lock().unwrap();
        if s.spurious_reads > 0 {
            s.spurious_reads -= 1;
            cx.waker().wake_by_ref();
            return Poll::Pending;
        }
        s.reads += 1;
        match s.to_client.pop_front() {
            None => {
                s.client_waker = Some(cx.waker().clone());
                Poll::Pending
            }
            Some(Item::Eof) => {
                s.to_client.push_front(Item::Eof);
                s.eof_seen_by_client = true;
                Poll::Ready(Ok(()))
            }
            Some(Item::Err(k)) => Poll::Ready(Err(io::Error::new(k, "injected read error"))),
            Some(Item::Data(mut d)) => {
                let mut n = d.len().min(buf.remaining());
                if let Some(m) = s.max_read {
                    n = n.min(m.max(1));
                }
                buf.put_slice(&d[..n]);
                s.total_read += n;
                if n < d.len() {
                    let rest = d.split_off(n);
                    s.to_client.push_front(Item::Data(rest));
                }
                Poll::Ready(Ok(()))
            }
        }
    }
}

impl AsyncWrite for ClientEnd {
    fn poll_write(self: Pin<&mut Self>, cx: &mut Context<'_>, buf: &[u8]) -> Poll<io::Result<usize>> {
        let mut s = self.0.lock().unwrap();
        if s.client_shutdown {
            return Poll::Ready(Err(io::Error::new(io::ErrorKind::BrokenPipe, "write after shutdown")));
        }
        let mut n = buf.len();
        if let Some(k) = s.write_stall_at {
            let allowed = k.saturating_sub(s.total_written);
            if allowed == 0 {
                s.write_waker = Some(cx.waker().clone());
                s.write_stalls_hit += 1;
                return Poll::Pending;
            }
            n = n.min(allowed);
        }
        if let Some(k) = s.write_fail_at {
            let allowed = k.saturating_sub(s.total_written);
            if allowed == 0 {
                let kind = s.write_err.unwrap_or(io::ErrorKind::ConnectionReset);
                return Poll::Ready(Err(io::Error::new(kind, "injected write error")));
            }
            n = n.min(allowed);
        }
        s.from_client.extend_from_slice(&buf[..n]);
        s.writes.push(n);
        s.total_written += n;
        if let Some(w) = s.server_waker.take() {
            w.wake();
        }
        Poll::Ready(Ok(n))
    }
    fn poll_flush(self: Pin<&mut Self>, _cx: &mut Context<'_>) -> Poll<io::Result<()>> {
        self.0.lock().unwrap().flushes += 1;
        Poll::Ready(Ok(()))
    }
    fn poll_shutdown(self: Pin<&mut Self>, _cx: &mut Context<'_>) -> Poll<io::Result<()>> {
        let mut s = self.0.lock().unwrap();
        s.client_shutdown = true;
        if let Some(w) = s.server_waker.take() {
            w.wake();
        }
        Poll::Ready(Ok(()))
    }
}

impl Drop for ClientEnd {
    fn drop(&mut self) {
        let mut s = self.0.lock().unwrap();
        s.client_dropped = true;
        if let Some(w) = s.server_waker.take() {
            w.wake();
        }
    }
}

/// What the server saw of one request.
#[derive(Clone, Debug)]
pub struct WireReq {
    pub seq: usize,
    pub raw: Vec<u8>,
    pub msg: Result<ReqMsg, String>,
}

pub struct ServerEnd {
    pub sh: Shared,
    buf: Vec<u8>,
    pub log: Vec<WireReq>,
    /// total response bytes handed to the pipe
    pub sent_bytes: usize,
}

pub fn pair() -> (ClientEnd, ServerEnd) {
    let sh: Shared = Arc::new(Mutex::new(State::default()));
    (ClientEnd(sh.clone()), ServerEnd { sh, buf: vec![], log: vec![], sent_bytes: 0 })
}

/// Handle for steering the transport from outside the server task (back-pressure on client writes).
#[derive(Clone)]
pub struct PipeCtl(pub Shared);

impl PipeCtl {
    /// Accept `more` further bytes from the client, then make its writes wait.
    pub fn stall_writes_after(&self, more: usize) {
        let mut s = self.0.lock().unwrap();
        s.write_stall_at = Some(s.total_written + more);
    }
    pub fn release_writes(&self) {
        let mut s = self.0.lock().unwrap();
        s.write_stall_at = None;
        if let Some(w) = s.write_waker.take() {
            w.wake();
        }
    }
    pub fn write_stalls_hit(&self) -> u32 {
        self.0.lock().unwrap().write_stalls_hit
    }
}

/// Cloneable sending half of the server end (for delayed / out-of-order responders).
#[derive(Clone)]
pub struct Tx(pub Shared);

impl Tx {
    pub fn send(&self, bytes: &[u8]) {
        if bytes.is_empty() {
            return;
        }
        let mut s = self.0.lock().unwrap();
        s.to_client.push_back(Item::Data(bytes.to_vec()));
        if let Some(w) = s.client_waker.take() {
            w.wake();
        }
    }
    pub fn eof(&self) {
        let mut s = self.0.lock().unwrap();
        s.to_client.push_back(Item::Eof);
        if let Some(w) = s.client_waker.take() {
            w.wake();
        }
    }
}

#[derive(Clone, Copy, Debug, PartialEq, Eq)]
pub enum Chunking {
    Whole,
    Bytewise,
    Random,
    /// split at exactly these offsets (ascending)
    Halves,
}

impl ServerEnd {
    fn wake_client(s: &mut State) {
        if let Some(w) = s.client_waker.take() {
            w.wake();
        }
    }
    /// Hand one chunk to the client (one read returns at most this chunk).
    pub fn send(&mut self, bytes: &[u8]) {
        if bytes.is_empty() {
            return;
        }
        let mut s = self.sh.lock().unwrap();
        s.to_client.push_back(Item::Data(bytes.to_vec()));
        self.sent_bytes += bytes.len();
        Self::wake_client(&mut s);
    }
    pub fn send_chunked(&mut self, bytes: &[u8], mode: Chunking, rng: &mut Rng) {
        match mode {
            Chunking::Whole => self.send(bytes),
            Chunking::Bytewise => {
                for b in bytes {
                    self.send(&[*b]);
                }
            }
            Chunking::Halves => {
                let m = bytes.len() / 2;
                self.send(&bytes[..m]);
                self.send(&bytes[m..]);
            }
            Chunking::Random => {
                let mut off = 0;
                while off < bytes.len() {
                    let rem = bytes.len() - off;
                    let n = match rng.below(4) {
                        0 => 1,
                        1 => 1 + rng.usize(3.min(rem)),
                        2 => 1 + rng.usize(rem.min(40)),
                        _ => 1 + rng.usize(rem),
                    }
                    .min(rem);
                    self.send(&bytes[off..off + n]);
                    off += n;
                }
            }
        }
    }
    pub fn tx(&self) -> Tx {
        Tx(self.sh.clone())
    }
    pub fn eof(&mut self) {
        let mut s = self.sh.lock().unwrap();
        s.to_client.push_back(Item::Eof);
        Self::wake_client(&mut s);
    }
    pub fn read_error(&mut self, kind: io::ErrorKind) {
        let mut s = self.sh.lock().unwrap();
        s.to_client.push_back(Item::Err(kind));
        Self::wake_client(&mut s);
    }
    pub fn fail_writes_after(&mut self, total_bytes: usize, kind: io::ErrorKind) {
        let mut s = self.sh.lock().unwrap();
        s.write_fail_at = Some(total_bytes);
        s.write_err = Some(kind);
    }
    /// Accept `more` further bytes from the client, then make its writes wait.
    pub fn stall_writes_after(&mut self, more: usize) {
        let mut s = self.sh.lock().unwrap();
        s.write_stall_at = Some(s.total_written + more);
    }
    pub fn release_writes(&mut self) {
        let mut s = self.sh.lock().unwrap();
        s.write_stall_at = None;
        if let Some(w) = s.write_waker.take() {
            w.wake();
        }
    }
    pub fn write_stalls_hit(&self) -> u32 {
        self.sh.lock().unwrap().write_stalls_hit
    }
    pub fn ctl(&self) -> PipeCtl {
        PipeCtl(self.sh.clone())
    }
    pub fn inject_spurious_reads(&mut self, n: u32) {
        self.sh.lock().unwrap().spurious_reads += n;
    }
    pub fn set_max_read(&mut self, m: Option<usize>) {
        self.sh.lock().unwrap().max_read = m;
    }
    pub fn client_closed(&self) -> bool {
        let s = self.sh.lock().unwrap();
        s.client_shutdown || s.client_dropped
    }
    pub fn client_shutdown_called(&self) -> bool {
        self.sh.lock().unwrap().client_shutdown
    }
    pub fn client_dropped(&self) -> bool {
        self.sh.lock().unwrap().client_dropped
    }
    pub fn unread_by_client(&self) -> usize {
        let s = self.sh.lock().unwrap();
        s.to_client.iter().map(|i| if let Item::Data(d) = i { d.len() } else { 0 }).sum()
    }
    pub fn total_written_by_client(&self) -> usize {
        self.sh.lock().unwrap().total_written
    }
    pub fn write_sizes(&self) -> Vec<usize> {
        self.sh.lock().unwrap().writes.clone()
    }

    /// Pull whatever the client has written so far into the local buffer (non-blocking).
    fn absorb(&mut self) {
        let mut s = self.sh.lock().unwrap();
        if !s.from_client.is_empty() {
            self.buf.append(&mut s.from_client);
        }
    }

    /// Non-blocking: next complete request frame if one is buffered.
    pub fn try_request(&mut self) -> Option<WireReq> {
        self.absorb();
        let total = ber::outer_complete(&self.buf)?;
        let raw: Vec<u8> = self.buf.drain(..total).collect();
        let msg = decode_request(&raw);
        let w = WireReq { seq: self.log.len(), raw, msg };
        self.log.push(w.clone());
        Some(w)
    }

    /// Wait for the next complete request; None when the client closed/dropped its end
    /// (leftover partial bytes, if any, stay in `self.partial()`).
    pub async fn request(&mut self) -> Option<WireReq> {
        loop {
            if let Some(w) = self.try_request() {
                return Some(w);
            }
            // a garbage header that can never complete: treat as stream end for the reader
            if !self.buf.is_empty() {
                if let Err(ber::DecErr::Bad(_)) = ber::header(&self.buf) {
                    let raw = std::mem::take(&mut self.buf);
                    let w = WireReq { seq: self.log.len(), raw, msg: Err("undecodable request bytes".into()) };
                    self.log.push(w.clone());
                    return Some(w);
                }
            }
            let closed = poll_fn(|cx| {
                let mut s = self.sh.lock().unwrap();
                if !s.from_client.is_empty() {
                    return Poll::Ready(false);
                }
                if s.client_shutdown || s.client_dropped {
                    return Poll::Ready(true);
                }
                s.server_waker = Some(cx.waker().clone());
                Poll::Pending
            })
            .await;
            if closed {
                self.absorb();
                if let Some(w) = self.try_request() {
                    return Some(w);
                }
                return None;
            }
        }
    }

    /// Wait until the client end is shut down or dropped (consuming any further requests).
    pub async fn wait_closed(&mut self) {
        while self.request().await.is_some() {}
    }

    pub fn partial(&self) -> &[u8] {
        &self.buf
    }
}
