//! Generators for client calls, controls and server responses.
use crate::filter_ref as fr;
use crate::msg::{CritEnc, Ctl, Res, RespCtl};
use crate::prng::Rng;
use crate::world::{Call, ModSpec, SearchSpec};

pub fn token_dn(n: u64, rng: &mut Rng) -> String {
    match rng.below(4) {
        0 => format!("op={}", n),
        1 => format!("op={},dc=example,dc=com", n),
        _ => format!("op={},{}", n, rng.ustring(12)),
    }
}

/// Parse the request token out of a DN-like field ("op=<n>[,...]" or OID "...99999.<n>").
pub fn token_of(field: &[u8]) -> Option<u64> {
    let s = String::from_utf8_lossy(field);
    if let Some(rest) = s.strip_prefix("op=") {
        let digits: String = rest.chars().take_while(|c| c.is_ascii_digit()).collect();
        return digits.parse().ok();
    }
    if let Some(rest) = s.strip_prefix("1.3.6.1.4.1.99999.") {
        return rest.parse().ok();
    }
    None
}

pub fn gen_bytes(rng: &mut Rng, big: bool) -> Vec<u8> {
    let n = if big && rng.chance(1, 10) { *rng.pick(&[127usize, 128, 255, 256, 65535, 65536, 100_000]) } else { rng.len_biased(60) };
    if n > 2000 {
        let mut v = vec![0x42u8; n];
        v[0] = rng.next() as u8;
        v[n - 1] = rng.next() as u8;
        v
    } else {
        rng.bytes(n)
    }
}

fn gen_values(rng: &mut Rng, allow_empty: bool, big: bool) -> Vec<Vec<u8>> {
    let n = match rng.below(8) {
        0 if allow_empty => 0,
        0 | 1 => 1,
        2 => 2,
        3 if big => 200 + rng.usize(900),
        _ => 1 + rng.usize(5),
    };
    let mut set = std::collections::HashSet::new();
    let mut out = vec![];
    for i in 0..n {
        let mut v = if n > 50 { format!("v{}", i).into_bytes() } else { gen_bytes(rng, big) };
        if !set.insert(v.clone()) {
            v.extend_from_slice(format!("#{}", i).as_bytes());
            set.insert(v.clone());
        }
        out.push(v);
    }
    out
}

fn attr_name(rng: &mut Rng) -> Vec<u8> {
    match rng.below(5) {
        0 => b"cn".to_vec(),
        1 => b"jpegPhoto;binary".to_vec(),
        2 => rng.bytes(rng.clone().usize(6) + 1),
        _ => fr::gen_attrdesc(rng),
    }
}

pub fn gen_search(rng: &mut Rng, n: u64) -> SearchSpec {
    let d = rng.usize(4);
    let w = 1 + rng.usize(3);
    let filter = fr::gen_filter(rng, d, w);
    let filter_str = fr::print_random_ascii(&filter, rng).into_bytes();
    let nattrs = match rng.below(5) {
        0 => 0,
        1 => 1,
        2 => 300,
        _ => rng.usize(6),
    };
    let attrs = (0..nattrs)
        .map(|i| match rng.below(5) {
            0 => "*".to_string(),
            1 => "+".to_string(),
            2 => format!("attr{}", i),
            _ => String::from_utf8(fr::gen_attrdesc(rng)).unwrap(),
        })
        .collect();
    let opts = if rng.chance(1, 2) {
        let lim = |r: &mut Rng| match r.below(7) {
            0 => 0,
            1 => 1,
            2 => 127,
            3 => 128,
            4 => i32::MAX,
            // the octet boundaries of the INTEGER encoding
            5 if r.bool() => *r.pick(&[255, 256, 511, 32_767, 32_768, 33_000, 40_000, 65_535, 65_536, 8_388_607, 8_388_608, 16_777_215, 16_777_216]),
            _ => r.below(100_000) as i32,
        };
        Some((rng.below(4) as u8, rng.bool(), lim(rng), lim(rng)))
    } else {
        None
    };
    SearchSpec { base: token_dn(n, rng), scope: rng.below(3) as u8, filter, filter_str, attrs, opts }
}

/// A random call carrying request token `n`. `kinds`: which op kinds may be produced.
pub fn gen_call(rng: &mut Rng, n: u64, big: bool, allow_search: bool) -> Call {
    let k = rng.below(if allow_search { 9 } else { 8 });
    match k {
        0 => Call::Bind { dn: token_dn(n, rng), pw: rng.ustring(10) },
        1 => {
            let na = match rng.below(6) {
                0 => 0,
                1 if big => 300,
                _ => 1 + rng.usize(5),
            };
            let mut names = std::collections::HashSet::new();
            let mut attrs = vec![];
            for i in 0..na {
                let mut a = attr_name(rng);
                if !names.insert(a.clone()) {
                    a.extend_from_slice(format!("-{}", i).as_bytes());
                }
                attrs.push((a, gen_values(rng, false, big)));
            }
            Call::Add { dn: token_dn(n, rng), attrs }
        }
        2 => Call::Compare { dn: token_dn(n, rng), attr: String::from_utf8(fr::gen_attrdesc(rng)).unwrap(), val: gen_bytes(rng, big) },
        3 => Call::Delete { dn: token_dn(n, rng) },
        4 => {
            let nm = match rng.below(6) {
                0 => 0,
                1 if big => 200,
                _ => 1 + rng.usize(5),
            };
            let mods = (0..nm)
                .map(|_| match rng.below(4) {
                    0 => ModSpec::Add(attr_name(rng), gen_values(rng, false, big)),
                    1 => ModSpec::Delete(attr_name(rng), gen_values(rng, true, big)),
                    2 => ModSpec::Replace(attr_name(rng), gen_values(rng, true, big)),
                    _ => ModSpec::Increment(attr_name(rng), rng.below(1000).to_string().into_bytes()),
                })
                .collect();
            Call::Modify { dn: token_dn(n, rng), mods }
        }
        5 => Call::ModDn { dn: token_dn(n, rng), rdn: format!("cn={}", rng.ustring(8)), delold: rng.bool(), newsup: if rng.bool() { Some(rng.ustring(12)) } else { None } },
        6 => Call::Extended { name: format!("1.3.6.1.4.1.99999.{}", n), val: if rng.bool() { Some(gen_bytes(rng, big)) } else { None } },
        7 => Call::SaslExternal,
        _ => Call::Search(gen_search(rng, n)),
    }
}

pub const KNOWN_OIDS: &[(&str, &str)] = &[
    ("1.2.840.113556.1.4.319", "PagedResults"),
    ("1.3.6.1.1.13.2", "PostReadResp"),
    ("1.3.6.1.1.13.1", "PreReadResp"),
    ("1.3.6.1.4.1.4203.1.9.1.3", "SyncDone"),
    ("1.3.6.1.4.1.4203.1.9.1.2", "SyncState"),
    ("2.16.840.1.113730.3.4.2", "ManageDsaIt"),
    ("1.2.826.0.1.3344810.2.3", "MatchedValues"),
];

pub fn known_name(oid: &str) -> Option<String> {
    KNOWN_OIDS.iter().find(|(o, _)| *o == oid).map(|(_, n)| n.to_string())
}

pub fn gen_req_controls(rng: &mut Rng) -> Vec<Ctl> {
    let n = match rng.below(6) {
        0 => 0,
        1 | 2 => 1,
        3 => 2,
        _ => 1 + rng.usize(5),
    };
    (0..n)
        .map(|_| Ctl {
            oid: if rng.bool() { rng.pick(KNOWN_OIDS).0.as_bytes().to_vec() } else { String::from_utf8(fr::gen_numericoid(rng)).unwrap().into_bytes() },
            crit: rng.bool(),
            val: if rng.bool() { Some(gen_bytes(rng, false)) } else { None },
        })
        .collect()
}

pub fn gen_resp_controls(rng: &mut Rng) -> Option<Vec<RespCtl>> {
    if rng.chance(1, 2) {
        return None;
    }
    let n = match rng.below(5) {
        0 => 0,
        1 | 2 => 1,
        _ => 1 + rng.usize(4),
    };
    Some(
        (0..n)
            .map(|_| RespCtl {
                oid: if rng.bool() { rng.pick(KNOWN_OIDS).0.to_string() } else { String::from_utf8(fr::gen_numericoid(rng)).unwrap() },
                crit: match rng.below(4) {
                    0 => CritEnc::False,
                    1 => CritEnc::True(0xff),
                    2 => CritEnc::True(1 + rng.below(254) as u8),
                    _ => CritEnc::Absent,
                },
                val: match rng.below(4) {
                    0 => None,
                    1 => Some(vec![]),
                    2 => Some(gen_bytes(rng, true)),
                    _ => Some(rng.bytes(rng.clone().usize(12))),
                },
            })
            .collect(),
    )
}

pub fn gen_rc(rng: &mut Rng) -> u32 {
    match rng.below(6) {
        0 => 0,
        1 => *rng.pick(&[5u32, 6, 10, 14, 32, 49, 53, 80, 88, 122, 123, 127, 128, 255, 256, 4096, 65535, 65536]),
        2 => rng.below(131) as u32,
        3 => rng.below(1 << 31) as u32,
        _ => 0,
    }
}

pub fn gen_res(rng: &mut Rng, token: &str) -> Res {
    Res {
        rc: gen_rc(rng),
        matched: if rng.bool() { String::new() } else { rng.ustring(14) },
        text: format!("{}{}", token, if rng.bool() { rng.ustring(20) } else { String::new() }),
        refs: match rng.below(5) {
            0 => Some(vec![format!("ldap://ref/{}", rng.ustring(6))]),
            1 => Some((0..rng.usize(5)).map(|i| format!("ldap://r{}/{}", i, rng.ustring(5))).collect()),
            _ => None,
        },
    }
}
