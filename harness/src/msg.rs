//! RFC 4511 message model: strict request decoder, flexible response encoder.
//! Built only on the harness' own BER codec.

use crate::ber::{self, Node, APP, CTX, UNIV};
use crate::filter_ref::Filter;

#[derive(Clone, Debug, PartialEq, Eq)]
pub struct Ctl {
    pub oid: Vec<u8>,
    pub crit: bool,
    pub val: Option<Vec<u8>>,
}

#[derive(Clone, Debug, PartialEq, Eq)]
pub enum Auth {
    Simple(Vec<u8>),
    Sasl { mech: Vec<u8>, creds: Option<Vec<u8>> },
}

#[derive(Clone, Debug, PartialEq, Eq)]
pub enum Req {
    Bind { version: i64, dn: Vec<u8>, auth: Auth },
    Unbind,
    Search { base: Vec<u8>, scope: i64, deref: i64, size: i64, time: i64, types_only: bool, filter: Filter, attrs: Vec<Vec<u8>> },
    Modify { dn: Vec<u8>, mods: Vec<(i64, Vec<u8>, Vec<Vec<u8>>)> },
    Add { dn: Vec<u8>, attrs: Vec<(Vec<u8>, Vec<Vec<u8>>)> },
    Del(Vec<u8>),
    ModDn { dn: Vec<u8>, rdn: Vec<u8>, delold: bool, newsup: Option<Vec<u8>> },
    Compare { dn: Vec<u8>, attr: Vec<u8>, val: Vec<u8> },
    Abandon(i64),
    Extended { name: Vec<u8>, val: Option<Vec<u8>> },
}

impl Req {
    pub fn kind(&self) -> &'static str {
        match self {
            Req::Bind { .. } => "bind",
            Req::Unbind => "unbind",
            Req::Search { .. } => "search",
            Req::Modify { .. } => "modify",
            Req::Add { .. } => "add",
            Req::Del(_) => "delete",
            Req::ModDn { .. } => "modifydn",
            Req::Compare { .. } => "compare",
            Req::Abandon(_) => "abandon",
            Req::Extended { .. } => "extended",
        }
    }
    /// The DN-like field carrying the harness' request token, if the op has one.
    pub fn token_field(&self) -> Option<&[u8]> {
        match self {
            Req::Bind { dn, .. } => Some(dn),
            Req::Search { base, .. } => Some(base),
            Req::Modify { dn, .. } | Req::Add { dn, .. } | Req::ModDn { dn, .. } | Req::Compare { dn, .. } => Some(dn),
            Req::Del(dn) => Some(dn),
            Req::Extended { name, .. } => Some(name),
            _ => None,
        }
    }
}

#[derive(Clone, Debug, PartialEq, Eq)]
pub struct ReqMsg {
    pub id: i64,
    pub op: Req,
    pub controls: Option<Vec<Ctl>>,
    pub all_lengths_minimal: bool,
}

fn int_strict(data: &[u8]) -> Result<i64, String> {
    let v = ber::int_value(data).ok_or("INTEGER content empty or out of i64 range")?;
    if ber::int_content(v) != data {
        return Err(format!("INTEGER {} not in shortest two's-complement form: {}", v, ber::hex(data)));
    }
    Ok(v)
}

fn integer(n: &Node) -> Result<i64, String> {
    int_strict(n.prim(UNIV, 2)?)
}
fn enumerated(n: &Node) -> Result<i64, String> {
    int_strict(n.prim(UNIV, 10)?)
}
fn bool_strict(d: &[u8]) -> Result<bool, String> {
    match d {
        [0] => Ok(false),
        [0xff] => Ok(true),
        _ => Err(format!("BOOLEAN content {} (RFC 4511 5.1 requires 00 / FF)", ber::hex(d))),
    }
}
fn boolean(n: &Node) -> Result<bool, String> {
    bool_strict(n.prim(UNIV, 1)?)
}
fn octets(n: &Node) -> Result<Vec<u8>, String> {
    Ok(n.prim(UNIV, 4)?.to_vec())
}
fn expect_len(k: &[Node], lo: usize, hi: usize, what: &str) -> Result<(), String> {
    if k.len() < lo || k.len() > hi {
        return Err(format!("{}: {} elements (expected {}..={})", what, k.len(), lo, hi));
    }
    Ok(())
}

fn partial_attr(n: &Node) -> Result<(Vec<u8>, Vec<Vec<u8>>), String> {
    let k = n.cons(UNIV, 16)?;
    expect_len(k, 2, 2, "PartialAttribute")?;
    let vals = k[1].cons(UNIV, 17)?.iter().map(octets).collect::<Result<Vec<_>, _>>()?;
    Ok((octets(&k[0])?, vals))
}

pub fn decode_controls(n: &Node) -> Result<Vec<Ctl>, String> {
    let list = n.cons(CTX, 0)?;
    let mut out = vec![];
    for c in list {
        let k = c.cons(UNIV, 16)?;
        expect_len(k, 1, 3, "Control")?;
        let oid = octets(&k[0])?;
        let mut crit = false;
        let mut val = None;
        let mut i = 1;
        if i < k.len() && k[i].is(UNIV, 1, false) {
            crit = boolean(&k[i])?;
            if !crit {
                return Err("criticality FALSE encoded explicitly (it is the DEFAULT)".into());
            }
            i += 1;
        }
        if i < k.len() {
            val = Some(octets(&k[i])?);
            i += 1;
        }
        if i != k.len() {
            return Err("Control: unexpected trailing element".into());
        }
        out.push(Ctl { oid, crit, val });
    }
    Ok(out)
}

/// Decode exactly one LDAPMessage request occupying the whole slice.
pub fn decode_request(bytes: &[u8]) -> Result<ReqMsg, String> {
    let (n, st) = ber::decode_exact(bytes).map_err(|e| format!("not one well-formed definite-length TLV: {:?}", e))?;
    decode_request_node(&n, st.all_minimal)
}

pub fn decode_request_node(n: &Node, all_minimal: bool) -> Result<ReqMsg, String> {
    let k = n.cons(UNIV, 16).map_err(|e| format!("LDAPMessage: {}", e))?;
    expect_len(k, 2, 3, "LDAPMessage")?;
    let id = integer(&k[0]).map_err(|e| format!("messageID: {}", e))?;
    let controls = if k.len() == 3 { Some(decode_controls(&k[2])?) } else { None };
    let p = &k[1];
    if p.class() != APP {
        return Err(format!("protocolOp not APPLICATION class: {}", p.brief()));
    }
    let op = match (p.tag(), p) {
        (0, Node::C { kids, .. }) => {
            expect_len(kids, 3, 3, "BindRequest")?;
            let version = integer(&kids[0])?;
            let dn = octets(&kids[1])?;
            let auth = match &kids[2] {
                Node::P { class: CTX, tag: 0, data } => Auth::Simple(data.clone()),
                Node::C { class: CTX, tag: 3, kids: s } => {
                    expect_len(s, 1, 2, "SaslCredentials")?;
                    Auth::Sasl { mech: octets(&s[0])?, creds: if s.len() == 2 { Some(octets(&s[1])?) } else { None } }
                }
                o => return Err(format!("bad AuthenticationChoice {}", o.brief())),
            };
            Req::Bind { version, dn, auth }
        }
        (2, Node::P { data, .. }) => {
            if !data.is_empty() {
                return Err("UnbindRequest NULL with content".into());
            }
            Req::Unbind
        }
        (3, Node::C { kids, .. }) => {
            expect_len(kids, 8, 8, "SearchRequest")?;
            Req::Search {
                base: octets(&kids[0])?,
                scope: enumerated(&kids[1])?,
                deref: enumerated(&kids[2])?,
                size: integer(&kids[3])?,
                time: integer(&kids[4])?,
                types_only: boolean(&kids[5])?,
                filter: Filter::from_node(&kids[6])?,
                attrs: kids[7].cons(UNIV, 16)?.iter().map(octets).collect::<Result<_, _>>()?,
            }
        }
        (6, Node::C { kids, .. }) => {
            expect_len(kids, 2, 2, "ModifyRequest")?;
            let mut mods = vec![];
            for c in kids[1].cons(UNIV, 16)? {
                let ck = c.cons(UNIV, 16)?;
                expect_len(ck, 2, 2, "change")?;
                let (a, v) = partial_attr(&ck[1])?;
                mods.push((enumerated(&ck[0])?, a, v));
            }
            Req::Modify { dn: octets(&kids[0])?, mods }
        }
        (8, Node::C { kids, .. }) => {
            expect_len(kids, 2, 2, "AddRequest")?;
            Req::Add { dn: octets(&kids[0])?, attrs: kids[1].cons(UNIV, 16)?.iter().map(partial_attr).collect::<Result<_, _>>()? }
        }
        (10, Node::P { data, .. }) => Req::Del(data.clone()),
        (12, Node::C { kids, .. }) => {
            expect_len(kids, 3, 4, "ModifyDNRequest")?;
            let newsup = if kids.len() == 4 { Some(kids[3].prim(CTX, 0)?.to_vec()) } else { None };
            Req::ModDn { dn: octets(&kids[0])?, rdn: octets(&kids[1])?, delold: boolean(&kids[2])?, newsup }
        }
        (14, Node::C { kids, .. }) => {
            expect_len(kids, 2, 2, "CompareRequest")?;
            let ava = kids[1].cons(UNIV, 16)?;
            expect_len(ava, 2, 2, "AttributeValueAssertion")?;
            Req::Compare { dn: octets(&kids[0])?, attr: octets(&ava[0])?, val: octets(&ava[1])? }
        }
        (16, Node::P { data, .. }) => Req::Abandon(int_strict(data)?),
        (23, Node::C { kids, .. }) => {
            expect_len(kids, 1, 2, "ExtendedRequest")?;
            let name = kids[0].prim(CTX, 0)?.to_vec();
            let val = if kids.len() == 2 { Some(kids[1].prim(CTX, 1)?.to_vec()) } else { None };
            Req::Extended { name, val }
        }
        _ => return Err(format!("unknown / malformed protocolOp {}", p.brief())),
    };
    Ok(ReqMsg { id, op, controls, all_lengths_minimal: all_minimal })
}

// ---------------- responses ----------------

#[derive(Clone, Debug, PartialEq, Eq)]
pub struct Res {
    pub rc: u32,
    pub matched: String,
    pub text: String,
    pub refs: Option<Vec<String>>,
}

impl Res {
    pub fn ok(text: &str) -> Res {
        Res { rc: 0, matched: String::new(), text: text.to_string(), refs: None }
    }
    pub fn code(rc: u32, text: &str) -> Res {
        Res { rc, matched: String::new(), text: text.to_string(), refs: None }
    }
}

#[derive(Clone, Copy, Debug, PartialEq, Eq)]
pub enum CritEnc {
    Absent,
    False,
    True(u8),
}

#[derive(Clone, Debug, PartialEq, Eq)]
pub struct RespCtl {
    pub oid: String,
    pub crit: CritEnc,
    pub val: Option<Vec<u8>>,
}

impl RespCtl {
    pub fn crit_bool(&self) -> bool {
        matches!(self.crit, CritEnc::True(_))
    }
}

#[derive(Clone, Debug, PartialEq, Eq)]
pub enum Resp {
    Bind { res: Res, sasl: Option<Vec<u8>> },
    Entry { dn: Vec<u8>, attrs: Vec<(Vec<u8>, Vec<Vec<u8>>)> },
    Reference(Vec<String>),
    Done(Res),
    Modify(Res),
    Add(Res),
    Del(Res),
    ModDn(Res),
    Compare(Res),
    Extended { res: Res, name: Option<String>, value: Option<Vec<u8>> },
    Intermediate { name: Option<String>, value: Option<Vec<u8>> },
}

fn res_kids(r: &Res) -> Vec<Node> {
    let mut k = vec![ber::enumerated(r.rc as i64), ber::octets(r.matched.as_bytes()), ber::octets(r.text.as_bytes())];
    if let Some(refs) = &r.refs {
        k.push(ber::ctx_cons(3, refs.iter().map(|u| ber::octets(u.as_bytes())).collect()));
    }
    k
}

impl Resp {
    pub fn app_tag(&self) -> u8 {
        match self {
            Resp::Bind { .. } => 1,
            Resp::Entry { .. } => 4,
            Resp::Done(_) => 5,
            Resp::Modify(_) => 7,
            Resp::Add(_) => 9,
            Resp::Del(_) => 11,
            Resp::ModDn(_) => 13,
            Resp::Compare(_) => 15,
            Resp::Reference(_) => 19,
            Resp::Extended { .. } => 24,
            Resp::Intermediate { .. } => 25,
        }
    }
    pub fn op_node(&self) -> Node {
        let tag = self.app_tag();
        let kids = match self {
            Resp::Bind { res, sasl } => {
                let mut k = res_kids(res);
                if let Some(s) = sasl {
                    k.push(ber::ctx_prim(7, s));
                }
                k
            }
            Resp::Entry { dn, attrs } => vec![
                ber::octets(dn),
                ber::seq(attrs.iter().map(|(a, vs)| ber::seq(vec![ber::octets(a), ber::set(vs.iter().map(|v| ber::octets(v)).collect())])).collect()),
            ],
            Resp::Reference(uris) => uris.iter().map(|u| ber::octets(u.as_bytes())).collect(),
            Resp::Done(r) | Resp::Modify(r) | Resp::Add(r) | Resp::Del(r) | Resp::ModDn(r) | Resp::Compare(r) => res_kids(r),
            Resp::Extended { res, name, value } => {
                let mut k = res_kids(res);
                if let Some(n) = name {
                    k.push(ber::ctx_prim(10, n.as_bytes()));
                }
                if let Some(v) = value {
                    k.push(ber::ctx_prim(11, v));
                }
                k
            }
            Resp::Intermediate { name, value } => {
                let mut k = vec![];
                if let Some(n) = name {
                    k.push(ber::ctx_prim(0, n.as_bytes()));
                }
                if let Some(v) = value {
                    k.push(ber::ctx_prim(1, v));
                }
                k
            }
        };
        ber::app_cons(tag, kids)
    }
}

pub fn ctl_node(c: &RespCtl) -> Node {
    let mut k = vec![ber::octets(c.oid.as_bytes())];
    match c.crit {
        CritEnc::Absent => {}
        CritEnc::False => k.push(Node::P { class: UNIV, tag: 1, data: vec![0] }),
        CritEnc::True(b) => k.push(Node::P { class: UNIV, tag: 1, data: vec![b] }),
    }
    if let Some(v) = &c.val {
        k.push(ber::octets(v));
    }
    ber::seq(k)
}

/// LDAPMessage node for a response. `id` may be any i64 (hostile-ID lanes).
pub fn resp_node(id: i64, r: &Resp, controls: Option<&[RespCtl]>) -> Node {
    let mut k = vec![ber::integer(id), r.op_node()];
    if let Some(cs) = controls {
        k.push(ber::ctx_cons(0, cs.iter().map(ctl_node).collect()));
    }
    ber::seq(k)
}

pub fn resp_bytes(id: i64, r: &Resp, controls: Option<&[RespCtl]>) -> Vec<u8> {
    ber::encode_min(&resp_node(id, r, controls))
}

/// The single-result response type matching a request.
pub fn reply_for(op: &Req, res: Res) -> Option<Resp> {
    Some(match op {
        Req::Bind { .. } => Resp::Bind { res, sasl: None },
        Req::Search { .. } => Resp::Done(res),
        Req::Modify { .. } => Resp::Modify(res),
        Req::Add { .. } => Resp::Add(res),
        Req::Del(_) => Resp::Del(res),
        Req::ModDn { .. } => Resp::ModDn(res),
        Req::Compare { .. } => Resp::Compare(res),
        Req::Extended { .. } => Resp::Extended { res, name: None, value: None },
        Req::Unbind | Req::Abandon(_) => return None,
    })
}
