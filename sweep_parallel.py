#!/usr/bin/env python3
"""Parallel final sweep of the kept seeded changes.

reseed_all.py applies each change to /repo itself, one at a time (about a minute per change).
This script does the same job N at a time without touching /repo: every worker owns a scratch
git worktree of /repo's HEAD and a copy of /verif/harness whose path dependencies point at that
worktree, applies the change there, rebuilds the harness against it and runs every quick lane of
the change's property.  Outcomes are written into the change's meta.json ("sweep").
Everything lives under /tmp/sw and is removed at the end.

usage: sweep_parallel.py [-j N] [ids...]
"""
import json
import os
import re
import shutil
import subprocess
import sys
import threading
import time

BASE = "/tmp/sw"
ENV = dict(os.environ, RUST_BACKTRACE="0", CARGO_NET_OFFLINE="true",
           SSL_CERT_FILE="/verif/certs/ca.pem", VH_CERTS="/verif/certs")
ENV.pop("RUSTC_WRAPPER", None)


def sh(cmd, cwd=None, timeout=3600, env=None):
    try:
        p = subprocess.run(cmd, shell=True, cwd=cwd, env=env or ENV, stdout=subprocess.PIPE,
                           stderr=subprocess.STDOUT, text=True, timeout=timeout)
        return p.returncode, p.stdout
    except subprocess.TimeoutExpired:
        return 124, "timeout"


def setup(i):
    w = "%s/w%d" % (BASE, i)
    os.makedirs(w, exist_ok=True)
    if not os.path.exists(w + "/wt"):
        rc, o = sh("git -C /repo worktree add --detach %s/wt HEAD" % w)
        assert rc == 0, o
    if os.path.exists(w + "/harness"):
        shutil.rmtree(w + "/harness")
    shutil.copytree("/verif/harness", w + "/harness", ignore=shutil.ignore_patterns("target"))
    ct = open(w + "/harness/Cargo.toml").read()
    ct = re.sub(r'path = "[^"]*?/lber"', 'path = "%s/wt/lber"' % w, ct)
    ct = re.sub(r'ldap3 = \{ path = "[^"]*"', 'ldap3 = { path = "%s/wt"' % w, ct)
    open(w + "/harness/Cargo.toml", "w").write(ct)
    return w


def one(w, d, head):
    pid = d.split("-")[0]
    path = "/verif/seeded/" + d
    patch = path + "/patch.diff"
    wt = w + "/wt"
    sh("git reset -q --hard", cwd=wt)
    how = "git apply"
    rc, o = sh("git apply %s" % patch, cwd=wt)
    if rc != 0:
        how = "git apply --3way"
        rc, o = sh("git apply --3way %s" % patch, cwd=wt)
        if rc != 0 or "conflict" in o.lower():
            sh("git reset -q --hard", cwd=wt)
            return "DOES-NOT-APPLY", [], 0, how
    t0 = time.time()
    env = dict(ENV, RUSTFLAGS="--cfg ldap3_verif --cfg tokio_unstable", CARGO_TARGET_DIR=w + "/target")
    rc, o = sh("cargo build --offline --profile verif --bin vcheck", cwd=w + "/harness", env=env)
    if rc != 0:
        sh("git reset -q --hard", cwd=wt)
        return "HARNESS-DOES-NOT-BUILD", [o[-400:]], 0, how
    out = w + "/out.json"
    if os.path.exists(out):
        os.remove(out)
    rc, o = sh("%s/target/verif/vcheck %s --tier quick --seed 1 --out %s" % (w, pid, out), cwd=w, timeout=2400)
    sh("git reset -q --hard", cwd=wt)
    sigs, herr = [], []
    try:
        doc = json.load(open(out))
        for l in doc["lanes"]:
            sigs += [v["signature"] for v in l["violations"]]
            herr += l.get("harness_errors", [])
    except Exception as e:  # noqa
        return "CHECK-BROKEN(no report, exit %s)" % rc, [o[-300:]], round(time.time() - t0, 1), how
    if sigs:
        v = "DETECTED"
    elif herr:
        v = "CHECK-BROKEN(harness errors)"
        sigs = [str(h)[:200] for h in herr[:3]]
    else:
        v = "MISSED"
    return v, sigs, round(time.time() - t0, 1), how


def main():
    args = sys.argv[1:]
    j = 4
    if args and args[0] == "-j":
        j = int(args[1])
        args = args[2:]
    only = set(args)
    todo = []
    for d in sorted(os.listdir("/verif/seeded")):
        if not os.path.exists("/verif/seeded/%s/patch.diff" % d):
            continue
        if only and d not in only and d.split("-")[0] not in only:
            continue
        todo.append(d)
    head = sh("git -C /repo rev-parse --short HEAD")[1].strip()
    os.makedirs(BASE, exist_ok=True)
    lock = threading.Lock()
    rows = []

    def worker(i):
        w = setup(i)
        while True:
            with lock:
                if not todo:
                    return
                d = todo.pop(0)
            v, sigs, secs, how = one(w, d, head)
            with lock:
                rows.append((d, v))
                print(d, v, sigs[:3], secs, flush=True)
                mf = "/verif/seeded/%s/meta.json" % d
                meta = json.load(open(mf)) if os.path.exists(mf) else {}
                meta["sweep"] = {"repo_head": head, "applied_with": how + " (scratch worktree of HEAD, sweep_parallel.py)",
                                 "check": "vcheck %s --tier quick --seed 1" % d.split("-")[0],
                                 "exit": 1 if v == "DETECTED" else (0 if v == "MISSED" else 2),
                                 "verdict": v, "signatures": sigs[:6]}
                json.dump(meta, open(mf, "w"), indent=1)

    ts = [threading.Thread(target=worker, args=(i,)) for i in range(j)]
    for t in ts:
        t.start()
    for t in ts:
        t.join()
    for i in range(j):
        sh("git -C /repo worktree remove --force %s/w%d/wt" % (BASE, i))
    sh("git -C /repo worktree prune")
    shutil.rmtree(BASE, ignore_errors=True)
    print("\nsummary: %d changes, %d detected" % (len(rows), sum(1 for r in rows if r[1] == "DETECTED")))
    for r in rows:
        if r[1] != "DETECTED":
            print("  NOT DETECTED:", r)


if __name__ == "__main__":
    sys.exit(main())
