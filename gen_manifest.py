#!/usr/bin/env python3
"""Regenerate MANIFEST.json from checkmeta.py (keeps the manifest consistent with ./check)."""
import json, os, subprocess, sys
ROOT = os.path.dirname(os.path.abspath(__file__))
sys.path.insert(0, ROOT)
from checkmeta import META, NOT_APPLICABLE  # noqa

hook_commits = []
try:
    out = subprocess.run(["git", "-C", "/repo", "log", "--format=%H %s"], stdout=subprocess.PIPE, text=True).stdout
    for line in out.splitlines():
        h, s = line.split(" ", 1)
        if s.startswith("verif hooks"):
            hook_commits.append(h)
except Exception:
    pass

checks = []
for pid in sorted(META):
    m = META[pid]
    checks.append({
        "property_id": pid,
        "quick_cmd": "./check %s --tier quick" % pid,
        "thorough_cmd": "./check %s --tier thorough" % pid,
        "evidence_file": "/verif/evidence/%s.json" % pid,
        "replay_cmd_template": "./check %s --replay {path}" % pid,
        "engine": "vh",
        "level_claimed": {"category": m["level"], "text": m["claim"], "design_ref": m["design"]},
        "level_note": m["note"],
        "technique": m["technique"],
    })
doc = {
    "version": 1,
    "setup_cmd": "./setup.sh",
    "hooks": {
        "guard": "--cfg ldap3_verif",
        "enable": "RUSTFLAGS='--cfg ldap3_verif --cfg tokio_unstable' cargo build --offline --profile verif (harness/Cargo.toml depends on /repo by path); tokio_unstable only enables tokio's Builder::rng_seed and changes nothing in ldap3",
        "baseline_off_cmd": "cd /repo && cargo test --workspace --no-fail-fast --offline",
        "source_commits": hook_commits,
        "add_only": True,
    },
    "engines": [{
        "name": "vh",
        "path": "/verif/harness",
        "serves_properties": sorted(META),
        "kind_free_text": "Rust harness crate linked against /repo (path dependency): scripted adversarial LDAP server over an in-memory transport on a paused-clock seeded tokio runtime, independent reference codecs/models, client- and wire-boundary history checkers; driven by ./check (python) which builds, runs lanes (native, release-profile, Miri, valgrind), filters known findings and writes evidence",
    }],
    "checks": checks,
    "not_applicable": NOT_APPLICABLE,
    "notes": "Runtime monitoring only: every verdict is 'held on the executions observed'. Exit 2 from ./check means the machinery failed (build error / harness error / nothing observed) and is never a verdict. known_findings.json lists genuine defects recorded rather than repaired (exact signatures) and the fix: commits made.",
}
json.dump(doc, open(os.path.join(ROOT, "MANIFEST.json"), "w"), indent=1)
print("MANIFEST.json: %d checks, %d not_applicable" % (len(checks), len(NOT_APPLICABLE)))
